// ---- assumed spec: core::mem::take (not in vstd) ---------------------------------------------
pub assume_specification<T: Default>[core::mem::take::<T>](dest: &mut T) -> (r: T)
    ensures r == *old(dest), T::default.ensures((), *final(dest));
// ---- end ------------------------------------------------------------------------------------
