// ---- shim: octets::varint_len (octets 0.3.7: 1/2/4/8 bytes by magnitude, unreachable!() above 2^62-1) ----
pub mod octets {
    use vstd::prelude::*;
    pub open spec fn varint_len_spec(v: u64) -> nat {
        if v <= 63 { 1 } else if v <= 16383 { 2 } else if v <= 1_073_741_823 { 4 } else { 8 }
    }
    #[verifier::external_body]
    pub fn varint_len(v: u64) -> (r: usize)
        requires v <= 4_611_686_018_427_387_903,
        ensures r == varint_len_spec(v),
    { unimplemented!() }
}
// ---- end shim octets::varint_len ----
