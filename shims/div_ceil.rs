// ---- assumed spec: usize::div_ceil (not in vstd): the least q with q * rhs >= self; panics for rhs == 0 ----
pub assume_specification[usize::div_ceil](a: usize, b: usize) -> (q: usize)
    requires b > 0,
    ensures q as int * b as int >= a as int, (q as int - 1) * (b as int) < a as int, q as int == (a as int + b as int - 1) / (b as int);
// ---- end ----
