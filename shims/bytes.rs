// ---- shim: bytes::Bytes (trusted; Verus has no crate access in single-file mode) ---------
// Opaque value with an abstract view Seq<u8>.  Assumed contracts, read off bytes 1.x docs:
//   len/is_empty report the view's length, clone is the identity on the view,
//   slice(a..b) panics unless a <= b <= len (kept as a precondition) and yields the sub-sequence,
//   From<Vec<u8>> keeps the bytes, Deref<Target=[u8]> exposes the same bytes.
#[verifier::external_body]
#[verifier::reject_recursive_types_in_ground_variants]
pub struct Bytes { inner: Vec<u8> }

impl View for Bytes {
    type V = Seq<u8>;
    uninterp spec fn view(&self) -> Seq<u8>;
}

impl Bytes {
    #[verifier::external_body]
    pub fn len(&self) -> (r: usize)
        ensures r == self@.len(), r <= 0x7fff_ffff_ffff_ffff,   // no Rust allocation exceeds isize::MAX bytes
    { self.inner.len() }

    #[verifier::external_body]
    pub fn is_empty(&self) -> (r: bool)
        ensures r == (self@.len() == 0),
    { self.inner.is_empty() }

    #[verifier::external_body]
    pub fn slice(&self, range: core::ops::Range<usize>) -> (r: Bytes)
        requires range.start <= range.end, range.end <= self@.len(),
        ensures r@ == self@.subrange(range.start as int, range.end as int),
    { Bytes { inner: self.inner[range].to_vec() } }

    #[verifier::external_body]
    pub fn as_slice(&self) -> (r: &[u8])
        ensures r@ == self@,
    { &self.inner[..] }
}

impl core::ops::Deref for Bytes {
    type Target = [u8];
    #[verifier::external_body]
    fn deref(&self) -> (r: &[u8])
        ensures r@ == self@,
    { &self.inner[..] }
}

impl Clone for Bytes {
    #[verifier::external_body]
    fn clone(&self) -> (r: Bytes)
        ensures r@ == self@,
    { Bytes { inner: self.inner.clone() } }
}

impl vstd::std_specs::convert::FromSpecImpl<Vec<u8>> for Bytes {
    open spec fn obeys_from_spec() -> bool { false }
    uninterp spec fn from_spec(v: Vec<u8>) -> Bytes;
}

impl From<Vec<u8>> for Bytes {
    #[verifier::external_body]
    fn from(v: Vec<u8>) -> (b: Bytes)
        ensures b@ == v@,
    { Bytes { inner: v } }
}
// ---- end shim bytes -----------------------------------------------------------------------
