// ---- assumed specs for std map APIs that vstd does not specify (trusted; read off the std documentation) ----------
// Entry API is axiomatised with uninterpreted "prophecy" functions of the entry value: the map before the call,
// the map after the borrow ends, and the key.  No method of OccupiedEntry gets a spec, so verified code can only
// drop an Occupied entry -- which is why `entry` may state that the map is unchanged in that case.
pub mod std_maps_shim {
use vstd::prelude::*;
use std::collections::{btree_map, hash_map, BTreeMap, HashMap};
use vstd::std_specs::hash::EntrySpecFns;

#[verifier::external_type_specification]
#[verifier::reject_recursive_types(K)]
#[verifier::reject_recursive_types(V)]
#[verifier::reject_recursive_types(A)]
pub struct ExBEntry<'a, K: 'a, V: 'a, A: std::alloc::Allocator + Clone>(btree_map::Entry<'a, K, V, A>);

#[verifier::external_type_specification]
#[verifier::external_body]
#[verifier::reject_recursive_types(K)]
#[verifier::reject_recursive_types(V)]
#[verifier::reject_recursive_types(A)]
pub struct ExBVacant<'a, K, V, A: std::alloc::Allocator + Clone>(btree_map::VacantEntry<'a, K, V, A>);

#[verifier::external_type_specification]
#[verifier::external_body]
#[verifier::reject_recursive_types(K)]
#[verifier::reject_recursive_types(V)]
#[verifier::reject_recursive_types(A)]
pub struct ExBOcc<'a, K, V, A: std::alloc::Allocator + Clone>(btree_map::OccupiedEntry<'a, K, V, A>);

pub uninterp spec fn bentry_old<'a, K, V, A: std::alloc::Allocator + Clone>(e: btree_map::Entry<'a, K, V, A>) -> Map<K, V>;
pub uninterp spec fn bentry_fin<'a, K, V, A: std::alloc::Allocator + Clone>(e: btree_map::Entry<'a, K, V, A>) -> Map<K, V>;
pub uninterp spec fn bentry_key<'a, K, V, A: std::alloc::Allocator + Clone>(e: btree_map::Entry<'a, K, V, A>) -> K;
pub uninterp spec fn vac_old<'a, K, V, A: std::alloc::Allocator + Clone>(e: btree_map::VacantEntry<'a, K, V, A>) -> Map<K, V>;
pub uninterp spec fn vac_fin<'a, K, V, A: std::alloc::Allocator + Clone>(e: btree_map::VacantEntry<'a, K, V, A>) -> Map<K, V>;
pub uninterp spec fn vac_key<'a, K, V, A: std::alloc::Allocator + Clone>(e: btree_map::VacantEntry<'a, K, V, A>) -> K;

pub assume_specification<'a, K: Ord, V, A: std::alloc::Allocator + Clone>[BTreeMap::<K, V, A>::entry](m: &'a mut BTreeMap<K, V, A>, key: K) -> (e: btree_map::Entry<'a, K, V, A>)
    ensures
        bentry_old(e) == old(m)@, bentry_fin(e) == final(m)@, bentry_key(e) == key,
        match e {
            btree_map::Entry::Vacant(v) => !old(m)@.contains_key(key) && vac_old(v) == old(m)@ && vac_fin(v) == final(m)@ && vac_key(v) == key,
            // an Occupied entry can only be dropped by verified code (no OccupiedEntry method has a spec): map unchanged
            btree_map::Entry::Occupied(_) => old(m)@.contains_key(key) && final(m)@ == old(m)@,
        };

pub assume_specification<'a, K: Ord, V, A: std::alloc::Allocator + Clone>[btree_map::VacantEntry::<'a, K, V, A>::insert](e: btree_map::VacantEntry<'a, K, V, A>, value: V) -> (r: &'a mut V)
    ensures *r == value, vac_fin(e) == vac_old(e).insert(vac_key(e), *final(r));

pub assume_specification<'a, K: Ord, V, A: std::alloc::Allocator + Clone, F: FnOnce() -> V>[btree_map::Entry::<'a, K, V, A>::or_insert_with](e: btree_map::Entry<'a, K, V, A>, default: F) -> (r: &'a mut V)
    requires !bentry_old(e).contains_key(bentry_key(e)) ==> default.requires(()),
    ensures
        bentry_old(e).contains_key(bentry_key(e)) ==> *r == bentry_old(e)[bentry_key(e)],
        !bentry_old(e).contains_key(bentry_key(e)) ==> default.ensures((), *r),
        bentry_fin(e) == bentry_old(e).insert(bentry_key(e), *final(r));

pub assume_specification<'a, K: Ord, V, A: std::alloc::Allocator + Clone>[btree_map::Entry::<'a, K, V, A>::or_insert](e: btree_map::Entry<'a, K, V, A>, default: V) -> (r: &'a mut V)
    ensures
        bentry_old(e).contains_key(bentry_key(e)) ==> *r == bentry_old(e)[bentry_key(e)],
        !bentry_old(e).contains_key(bentry_key(e)) ==> *r == default,
        bentry_fin(e) == bentry_old(e).insert(bentry_key(e), *final(r));

pub assume_specification<K: Ord, V, A: std::alloc::Allocator + Clone>[BTreeMap::<K, V, A>::pop_first](m: &mut BTreeMap<K, V, A>) -> (r: Option<(K, V)>)
    ensures
        // (that the popped key is the least one is not stated: no verified property depends on it)
        vstd::std_specs::btree::key_obeys_cmp_spec::<K>() ==> match r {
            None => old(m)@.len() == 0 && final(m)@ == old(m)@,
            Some((k, v)) => old(m)@.contains_key(k) && old(m)@[k] == v && final(m)@ == old(m)@.remove(k),
        };

pub assume_specification<K: Ord, A: std::alloc::Allocator + Clone>[std::collections::BTreeSet::<K, A>::pop_first](m: &mut std::collections::BTreeSet<K, A>) -> (r: Option<K>)
    ensures
        // (that the popped element is the least one is not stated: no verified property depends on it)
        vstd::std_specs::btree::key_obeys_cmp_spec::<K>() ==> match r {
            None => old(m)@.len() == 0 && final(m)@ == old(m)@,
            Some(k) => old(m)@.contains(k) && final(m)@ == old(m)@.remove(k),
        };

// ---- HashMap ----
// vstd specifies HashMap::entry through `EntrySpecFns` (value() now, final_value() when the borrow ends)
pub assume_specification<'a, K, V, A: std::alloc::Allocator, F: FnOnce() -> V>[hash_map::Entry::<'a, K, V, A>::or_insert_with](e: hash_map::Entry<'a, K, V, A>, default: F) -> (r: &'a mut V)
    requires e.value() is None ==> default.requires(()),
    ensures
        e.value() matches Some(v0) ==> *r == v0,
        e.value() is None ==> default.ensures((), *r),
        e.final_value() == Some(*final(r));

pub assume_specification<'a, K, V, S, A, Q>[HashMap::<K, V, S, A>::get_mut](m: &'a mut HashMap<K, V, S, A>, k: &Q) -> (r: Option<&'a mut V>)
    where
        A: std::alloc::Allocator,
        K: Eq + core::hash::Hash + core::borrow::Borrow<Q>,
        Q: core::marker::MetaSized + core::hash::Hash + Eq + ?Sized,
        S: core::hash::BuildHasher,
    ensures
        vstd::std_specs::hash::obeys_key_model::<K>() && vstd::std_specs::hash::builds_valid_hashers::<S>() ==> match r {
            Some(v) => vstd::std_specs::hash::contains_borrowed_key(old(m)@, k)
                && vstd::std_specs::hash::maps_borrowed_key_to_value(old(m)@, k, *v)
                && final(m)@.dom() == old(m)@.dom()
                && vstd::std_specs::hash::maps_borrowed_key_to_value(final(m)@, k, *final(v))
                // every other entry is untouched: dropping the borrowed key from the old and from the new map gives the same map
                && (forall|m2: Map<K, V>| #[trigger] vstd::std_specs::hash::borrowed_key_removed(old(m)@, m2, k)
                        ==> vstd::std_specs::hash::borrowed_key_removed(final(m)@, m2, k)),
            None => !vstd::std_specs::hash::contains_borrowed_key(old(m)@, k) && final(m)@ == old(m)@,
        };
} // mod std_maps_shim
pub use std_maps_shim::*;
// ---- end assumed std map specs ---------------------------------------------------------------------------------------

// Option::{is_some_and, is_none_or} (not in vstd): the closure is applied to the payload of `Some`; what it answers is whatever its own
// (verified) body ensures -- a closure without a spec header answers an unknown bool
pub assume_specification<T, F: FnOnce(T) -> bool>[Option::<T>::is_some_and](o: Option<T>, f: F) -> (r: bool)
    requires o matches Some(v) ==> call_requires(f, (v,)),
    ensures o is None ==> !r, o matches Some(v) ==> call_ensures(f, (v,), r);
