// ---- shim: octets 0.3.7 `Octets` / `OctetsMut` cursors and varint codec (trusted; read off the crate's source) ----------
// Model: a cursor is (buf: Seq<u8>, off).  Every get_*/put_* either fails with BufferTooShortError leaving the cursor
// where it was, or consumes/produces exactly the encoded width.  The QUIC varint codec is uninterpreted
// (`varint_enc` / `varint_dec`) with three assumed facts: length = varint_len, decode(encode(v) ++ tail) = (v, len),
// and a successful decode yields a value < 2^62 and a width in {1,2,4,8} not beyond the input.  `put_varint(v)` panics for
// v >= 2^62 in octets (kept as a precondition).
pub mod octets {
    use vstd::prelude::*;

    #[derive(Debug)]
    pub struct BufferTooShortError;

    pub open spec fn varint_len_spec(v: u64) -> nat {
        if v <= 63 { 1 } else if v <= 16383 { 2 } else if v <= 1_073_741_823 { 4 } else { 8 }
    }

    #[verifier::external_body]
    pub fn varint_len(v: u64) -> (r: usize)
        requires v <= 4_611_686_018_427_387_903,
        ensures r == varint_len_spec(v),
    { unimplemented!() }

    pub uninterp spec fn varint_enc(v: u64) -> Seq<u8>;
    /// decoded value and width, or None when the input is too short
    pub uninterp spec fn varint_dec(s: Seq<u8>) -> Option<(u64, nat)>;

    #[verifier::external_body]
    pub broadcast proof fn axiom_varint_enc_len(v: u64)
        requires v < 0x4000_0000_0000_0000,
        ensures #[trigger] varint_enc(v).len() == varint_len_spec(v),
    {}

    #[verifier::external_body]
    pub broadcast proof fn axiom_varint_roundtrip(v: u64, tail: Seq<u8>)
        requires v < 0x4000_0000_0000_0000,
        ensures #[trigger] varint_dec(varint_enc(v) + tail) == Some((v, varint_len_spec(v))),
    {}

    #[verifier::external_body]
    pub broadcast proof fn axiom_varint_dec_range(s: Seq<u8>)
        ensures (#[trigger] varint_dec(s)) matches Some((v, n)) ==> v < 0x4000_0000_0000_0000 && 1 <= n <= 8 && n <= s.len(),
    {}

    pub open spec fn be16(hi: u8, lo: u8) -> u16 { (hi as u16 * 256 + lo as u16) as u16 }

    // ---- read cursor ----
    #[verifier::external_body]
    pub struct Octets<'a> { buf: &'a [u8], off: usize }

    impl<'a> Octets<'a> {
        pub uninterp spec fn buf(&self) -> Seq<u8>;
        pub uninterp spec fn off(&self) -> nat;
        pub open spec fn inv(&self) -> bool { self.off() <= self.buf().len() }
        pub open spec fn rest(&self) -> Seq<u8> { self.buf().skip(self.off() as int) }

        #[verifier::external_body]
        pub fn with_slice(b: &'a [u8]) -> (r: Octets<'a>)
            ensures r.buf() == b@, r.off() == 0, r.inv(),
        { unimplemented!() }

        #[verifier::external_body]
        pub fn get_u8(&mut self) -> (r: Result<u8, BufferTooShortError>)
            requires old(self).inv(),
            ensures final(self).inv(), final(self).buf() == old(self).buf(),
                r is Ok <==> old(self).rest().len() >= 1,
                r matches Ok(v) ==> v == old(self).rest()[0] && final(self).off() == old(self).off() + 1,
                r is Err ==> final(self).off() == old(self).off(),
        { unimplemented!() }

        #[verifier::external_body]
        pub fn get_u16(&mut self) -> (r: Result<u16, BufferTooShortError>)
            requires old(self).inv(),
            ensures final(self).inv(), final(self).buf() == old(self).buf(),
                r is Ok <==> old(self).rest().len() >= 2,
                r matches Ok(v) ==> v == be16(old(self).rest()[0], old(self).rest()[1]) && final(self).off() == old(self).off() + 2,
                r is Err ==> final(self).off() == old(self).off(),
        { unimplemented!() }

        #[verifier::external_body]
        pub fn get_varint(&mut self) -> (r: Result<u64, BufferTooShortError>)
            requires old(self).inv(),
            ensures final(self).inv(), final(self).buf() == old(self).buf(),
                r is Ok <==> varint_dec(old(self).rest()) is Some,
                r matches Ok(v) ==> varint_dec(old(self).rest()) == Some((v, (final(self).off() - old(self).off()) as nat))
                    && v < 0x4000_0000_0000_0000 && final(self).off() > old(self).off(),
                r is Err ==> final(self).off() == old(self).off(),
        { unimplemented!() }

        #[verifier::external_body]
        pub fn get_bytes_with_varint_length(&mut self) -> (r: Result<Octets<'a>, BufferTooShortError>)
            requires old(self).inv(),
            ensures final(self).inv(), final(self).buf() == old(self).buf(), final(self).off() >= old(self).off(),
                r is Ok <==> (varint_dec(old(self).rest()) matches Some((len, n)) && n + len <= old(self).rest().len()),
                r matches Ok(sub) ==> (varint_dec(old(self).rest()) matches Some((len, n)) && {
                    &&& sub.inv() && sub.off() == 0
                    &&& sub.buf() == old(self).rest().subrange(n as int, n + len)
                    &&& final(self).off() == old(self).off() + n + len
                }),
        { unimplemented!() }

        #[verifier::external_body]
        pub fn to_vec(&self) -> (v: Vec<u8>)
            requires self.inv(),
            ensures v@ == self.rest(),
        { unimplemented!() }

        /// octets: `self.buf.len() == 0` (the whole buffer, not the remainder)
        #[verifier::external_body]
        pub fn is_empty(&self) -> (b: bool)
            ensures b == (self.buf().len() == 0),
        { unimplemented!() }

        #[verifier::external_body]
        pub fn len(&self) -> (n: usize)
            ensures n == self.buf().len(),
        { unimplemented!() }
    }

    // ---- write cursor ----
    #[verifier::external_body]
    pub struct OctetsMut<'a> { buf: &'a mut [u8], off: usize }

    impl<'a> OctetsMut<'a> {
        pub uninterp spec fn buf(&self) -> Seq<u8>;
        pub uninterp spec fn off(&self) -> nat;
        pub open spec fn inv(&self) -> bool { self.off() <= self.buf().len() }
        pub open spec fn cap_spec(&self) -> nat { (self.buf().len() - self.off()) as nat }
        /// effect of writing `w` at the cursor
        pub open spec fn wrote(pre: &OctetsMut, post: &OctetsMut, w: Seq<u8>) -> bool {
            &&& post.inv()
            &&& post.off() == pre.off() + w.len()
            &&& post.buf().len() == pre.buf().len()
            &&& post.buf().subrange(0, pre.off() as int) == pre.buf().subrange(0, pre.off() as int)
            &&& post.buf().subrange(pre.off() as int, post.off() as int) == w
        }

        #[verifier::external_body]
        pub fn cap(&self) -> (n: usize)
            requires self.inv(),
            ensures n == self.cap_spec(),
        { unimplemented!() }

        #[verifier::external_body]
        pub fn put_u8(&mut self, v: u8) -> (r: Result<(), BufferTooShortError>)
            requires old(self).inv(),
            ensures r is Ok <==> old(self).cap_spec() >= 1,
                r is Ok ==> Self::wrote(old(self), final(self), seq![v]),
                r is Err ==> final(self).inv() && final(self).off() == old(self).off() && final(self).buf() == old(self).buf(),
        { unimplemented!() }

        #[verifier::external_body]
        pub fn put_u16(&mut self, v: u16) -> (r: Result<(), BufferTooShortError>)
            requires old(self).inv(),
            ensures r is Ok <==> old(self).cap_spec() >= 2,
                r is Ok ==> Self::wrote(old(self), final(self), seq![(v / 256) as u8, (v % 256) as u8]),
                r is Err ==> final(self).inv() && final(self).off() == old(self).off() && final(self).buf() == old(self).buf(),
        { unimplemented!() }

        #[verifier::external_body]
        pub fn put_varint(&mut self, v: u64) -> (r: Result<(), BufferTooShortError>)
            requires old(self).inv(), v < 0x4000_0000_0000_0000,     // octets panics ("value is too large for varint") otherwise
            ensures r is Ok <==> old(self).cap_spec() >= varint_len_spec(v),
                r is Ok ==> Self::wrote(old(self), final(self), varint_enc(v)),
                r is Err ==> final(self).inv() && final(self).off() == old(self).off() && final(self).buf() == old(self).buf(),
        { unimplemented!() }

        #[verifier::external_body]
        pub fn put_bytes(&mut self, v: &[u8]) -> (r: Result<(), BufferTooShortError>)
            requires old(self).inv(),
            ensures r is Ok <==> old(self).cap_spec() >= v@.len(),
                r is Ok ==> Self::wrote(old(self), final(self), v@),
                r is Err ==> final(self).inv() && final(self).off() == old(self).off() && final(self).buf() == old(self).buf(),
        { unimplemented!() }
    }
}
// ---- end shim octets -----------------------------------------------------------------------------------------------
