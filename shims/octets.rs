// ---- shim: octets 0.3.7 `Octets` / `OctetsMut` cursors and varint codec (trusted; read off the crate's source) ----------
// Model: a read cursor is its unread remainder `rest()` (plus the total length of its buffer, which `len()`/`is_empty()`
// report); a write cursor is the bytes written so far `out()` and the remaining capacity.  Every get_*/put_* either fails with
// BufferTooShortError leaving the cursor where it was, or consumes/produces exactly the encoded width.  The QUIC varint codec
// is uninterpreted (`varint_enc` / `varint_dec`) with three assumed facts: length = varint_len, decode(encode(v) ++ tail) =
// (v, len), and a successful decode yields a value < 2^62 and a width 1..8 within the input.  `put_varint(v)` panics for
// v >= 2^62 in octets (kept as a precondition).  put_* return `Result<&mut [u8]>` in octets; the code only uses `?;` on them.
pub mod octets {
    use vstd::prelude::*;

    #[derive(Debug)]
    pub struct BufferTooShortError;

    pub open spec fn varint_len_spec(v: u64) -> nat {
        if v <= 63 { 1 } else if v <= 16383 { 2 } else if v <= 1_073_741_823 { 4 } else { 8 }
    }

    #[verifier::external_body]
    pub fn varint_len(v: u64) -> (r: usize)
        requires v <= 4_611_686_018_427_387_903,
        ensures r == varint_len_spec(v),
    { unimplemented!() }

    pub uninterp spec fn varint_enc(v: u64) -> Seq<u8>;
    /// decoded value and width, or None when the input is too short
    pub uninterp spec fn varint_dec(s: Seq<u8>) -> Option<(u64, nat)>;

    #[verifier::external_body]
    pub broadcast proof fn axiom_varint_enc_len(v: u64)
        requires v < 0x4000_0000_0000_0000,
        ensures #[trigger] varint_enc(v).len() == varint_len_spec(v),
    {}

    #[verifier::external_body]
    pub broadcast proof fn axiom_varint_roundtrip(v: u64, tail: Seq<u8>)
        requires v < 0x4000_0000_0000_0000,
        ensures #[trigger] varint_dec(varint_enc(v) + tail) == Some((v, varint_len_spec(v))),
    {}

    #[verifier::external_body]
    pub broadcast proof fn axiom_varint_dec_range(s: Seq<u8>)
        ensures (#[trigger] varint_dec(s)) matches Some((v, n)) ==> v < 0x4000_0000_0000_0000 && 1 <= n <= 8 && n <= s.len(),
    {}

    pub open spec fn be16(hi: u8, lo: u8) -> u16 { (hi as u16 * 256 + lo as u16) as u16 }
    pub open spec fn u16_be(v: u16) -> Seq<u8> { seq![(v / 256) as u8, (v % 256) as u8] }

    // what each get_* reads off the front of the unread remainder `s`: the value and what is left, None when `s` is too short
    pub open spec fn p_u8(s: Seq<u8>) -> Option<(u8, Seq<u8>)> {
        if s.len() >= 1 { Some((s[0], s.skip(1))) } else { None }
    }
    pub open spec fn p_u16(s: Seq<u8>) -> Option<(u16, Seq<u8>)> {
        if s.len() >= 2 { Some((be16(s[0], s[1]), s.skip(2))) } else { None }
    }
    pub open spec fn p_var(s: Seq<u8>) -> Option<(u64, Seq<u8>)> {
        match varint_dec(s) { Some((v, n)) => Some((v, s.skip(n as int))), None => None }
    }
    /// varint length prefix followed by that many bytes
    pub open spec fn p_blob(s: Seq<u8>) -> Option<(Seq<u8>, Seq<u8>)> {
        match varint_dec(s) {
            Some((len, n)) => if n + len <= s.len() { Some((s.subrange(n as int, n + len), s.skip(n + len))) } else { None },
            None => None,
        }
    }

    // ---- read cursor ----
    #[verifier::external_body]
    pub struct Octets<'a> { buf: &'a [u8], off: usize }

    impl<'a> Octets<'a> {
        /// the bytes not consumed yet
        pub uninterp spec fn rest(&self) -> Seq<u8>;
        /// total length of the underlying buffer (what `len()` and `is_empty()` look at)
        pub uninterp spec fn total(&self) -> nat;

        #[verifier::external_body]
        pub fn with_slice(b: &'a [u8]) -> (r: Octets<'a>)
            ensures r.rest() == b@, r.total() == b@.len(),
        { unimplemented!() }

        #[verifier::external_body]
        pub fn get_u8(&mut self) -> (r: Result<u8, BufferTooShortError>)
            ensures final(self).total() == old(self).total(),
                r is Ok <==> p_u8(old(self).rest()) is Some,
                r matches Ok(v) ==> p_u8(old(self).rest()) == Some((v, final(self).rest())),
                r is Err ==> final(self).rest() == old(self).rest(),
        { unimplemented!() }

        #[verifier::external_body]
        pub fn get_u16(&mut self) -> (r: Result<u16, BufferTooShortError>)
            ensures final(self).total() == old(self).total(),
                r is Ok <==> p_u16(old(self).rest()) is Some,
                r matches Ok(v) ==> p_u16(old(self).rest()) == Some((v, final(self).rest())),
                r is Err ==> final(self).rest() == old(self).rest(),
        { unimplemented!() }

        #[verifier::external_body]
        pub fn get_varint(&mut self) -> (r: Result<u64, BufferTooShortError>)
            ensures final(self).total() == old(self).total(),
                r is Ok <==> p_var(old(self).rest()) is Some,
                r matches Ok(v) ==> p_var(old(self).rest()) == Some((v, final(self).rest())) && v < 0x4000_0000_0000_0000,
                r is Err ==> final(self).rest() == old(self).rest(),
        { unimplemented!() }

        #[verifier::external_body]
        pub fn get_bytes_with_varint_length(&mut self) -> (r: Result<Octets<'a>, BufferTooShortError>)
            ensures final(self).total() == old(self).total(),
                r is Ok <==> p_blob(old(self).rest()) is Some,
                r matches Ok(sub) ==> p_blob(old(self).rest()) == Some((sub.rest(), final(self).rest())) && sub.total() == sub.rest().len()
                    && sub.rest().len() < 0x4000_0000_0000_0000,
        { unimplemented!() }

        #[verifier::external_body]
        pub fn to_vec(&self) -> (v: Vec<u8>)
            ensures v@ == self.rest(),
        { unimplemented!() }

        /// octets: `self.buf.len() == 0` (the whole buffer, not the remainder)
        #[verifier::external_body]
        pub fn is_empty(&self) -> (b: bool)
            ensures b == (self.total() == 0),
        { unimplemented!() }

        #[verifier::external_body]
        pub fn len(&self) -> (n: usize)
            ensures n == self.total(),
        { unimplemented!() }
    }

    // ---- write cursor ----
    #[verifier::external_body]
    pub struct OctetsMut<'a> { buf: &'a mut [u8], off: usize }

    impl<'a> OctetsMut<'a> {
        /// the bytes written before the cursor
        pub uninterp spec fn out(&self) -> Seq<u8>;
        /// remaining capacity
        pub uninterp spec fn cap_spec(&self) -> nat;
        /// effect of writing `w` at the cursor
        pub open spec fn wrote(pre: &OctetsMut, post: &OctetsMut, w: Seq<u8>) -> bool {
            post.out() == pre.out() + w && post.cap_spec() + w.len() == pre.cap_spec()
        }
        pub open spec fn same(pre: &OctetsMut, post: &OctetsMut) -> bool {
            post.out() == pre.out() && post.cap_spec() == pre.cap_spec()
        }

        #[verifier::external_body]
        pub fn with_slice(b: &'a mut [u8]) -> (r: OctetsMut<'a>)
            ensures r.out() == Seq::<u8>::empty(), r.cap_spec() == old(b)@.len(),
        { unimplemented!() }

        #[verifier::external_body]
        pub fn cap(&self) -> (n: usize)
            ensures n == self.cap_spec(),
        { unimplemented!() }

        #[verifier::external_body]
        pub fn put_u8(&mut self, v: u8) -> (r: Result<(), BufferTooShortError>)
            ensures r is Ok <==> old(self).cap_spec() >= 1,
                r is Ok ==> Self::wrote(old(self), final(self), seq![v]),
                r is Err ==> Self::same(old(self), final(self)),
        { unimplemented!() }

        #[verifier::external_body]
        pub fn put_u16(&mut self, v: u16) -> (r: Result<(), BufferTooShortError>)
            ensures r is Ok <==> old(self).cap_spec() >= 2,
                r is Ok ==> Self::wrote(old(self), final(self), u16_be(v)),
                r is Err ==> Self::same(old(self), final(self)),
        { unimplemented!() }

        #[verifier::external_body]
        pub fn put_varint(&mut self, v: u64) -> (r: Result<(), BufferTooShortError>)
            requires v < 0x4000_0000_0000_0000,     // octets panics ("value is too large for varint") otherwise
            ensures r is Ok <==> old(self).cap_spec() >= varint_len_spec(v),
                r is Ok ==> Self::wrote(old(self), final(self), varint_enc(v)),
                r is Err ==> Self::same(old(self), final(self)),
        { unimplemented!() }

        #[verifier::external_body]
        pub fn put_bytes(&mut self, v: &[u8]) -> (r: Result<(), BufferTooShortError>)
            ensures r is Ok <==> old(self).cap_spec() >= v@.len(),
                r is Ok ==> Self::wrote(old(self), final(self), v@),
                r is Err ==> Self::same(old(self), final(self)),
        { unimplemented!() }
    }
}
// ---- end shim octets -----------------------------------------------------------------------------------------------
