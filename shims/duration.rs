// ---- shim: std::time::Duration (verified stand-in; Verus cannot attach specs to std's operator impls) ----------
// A value type over u128 nanoseconds with exactly the operations the renet code uses: `-` (panics on underflow in std:
// kept as a precondition), comparisons, from_secs / from_millis.  Assumed to model std::time::Duration.
#[derive(Clone, Copy, PartialEq, Eq, Debug)]
pub struct Duration { pub nanos: u128 }

impl Duration {
    pub const ZERO: Duration = Duration { nanos: 0 };
    /// std: u64::MAX seconds and 999_999_999 nanoseconds
    pub const MAX: Duration = Duration { nanos: 18_446_744_073_709_551_615_999_999_999 };

    pub open spec fn from_secs_spec(secs: u64) -> Duration {
        Duration { nanos: (secs as u128 * 1_000_000_000) as u128 }
    }

    #[verifier::when_used_as_spec(from_secs_spec)]
    pub const fn from_secs(secs: u64) -> (r: Duration)
        ensures r == Self::from_secs_spec(secs),
    {
        Duration { nanos: secs as u128 * 1_000_000_000 }
    }

    /// whole seconds (std: the `secs` field; a std Duration never holds more than u64::MAX seconds)
    /// (the u128 model covers more than std can represent; a value std could hold is required)
    pub fn as_secs(&self) -> (r: u64)
        requires self.nanos / 1_000_000_000 <= u64::MAX,
        ensures r == self.nanos / 1_000_000_000,
    { (self.nanos / 1_000_000_000) as u64 }

    pub open spec fn from_millis_spec(millis: u64) -> Duration {
        Duration { nanos: (millis as u128 * 1_000_000) as u128 }
    }

    #[verifier::when_used_as_spec(from_millis_spec)]
    pub const fn from_millis(millis: u64) -> (r: Duration)
        ensures r == Self::from_millis_spec(millis),
    {
        Duration { nanos: millis as u128 * 1_000_000 }
    }
}

impl vstd::std_specs::ops::SubSpecImpl<Duration> for Duration {
    open spec fn obeys_sub_spec() -> bool { true }
    open spec fn sub_req(self, rhs: Duration) -> bool { self.nanos >= rhs.nanos }
    open spec fn sub_spec(self, rhs: Duration) -> Duration { Duration { nanos: (self.nanos - rhs.nanos) as u128 } }
}
impl core::ops::Sub for Duration {
    type Output = Duration;
    fn sub(self, rhs: Duration) -> Duration { Duration { nanos: self.nanos - rhs.nanos } }
}
impl vstd::std_specs::cmp::PartialOrdSpecImpl for Duration {
    open spec fn obeys_partial_cmp_spec() -> bool { true }
    open spec fn partial_cmp_spec(&self, other: &Duration) -> Option<core::cmp::Ordering> {
        Some(if self.nanos < other.nanos { core::cmp::Ordering::Less } else if self.nanos == other.nanos { core::cmp::Ordering::Equal } else { core::cmp::Ordering::Greater })
    }
}
impl PartialOrd for Duration {
    fn partial_cmp(&self, other: &Duration) -> Option<core::cmp::Ordering> {
        Some(if self.nanos < other.nanos { core::cmp::Ordering::Less } else if self.nanos == other.nanos { core::cmp::Ordering::Equal } else { core::cmp::Ordering::Greater })
    }
}
// `+` (std panics on overflow: kept as a precondition)
impl vstd::std_specs::ops::AddSpecImpl<Duration> for Duration {
    open spec fn obeys_add_spec() -> bool { true }
    open spec fn add_req(self, rhs: Duration) -> bool { self.nanos + rhs.nanos <= u128::MAX }
    open spec fn add_spec(self, rhs: Duration) -> Duration { Duration { nanos: (self.nanos + rhs.nanos) as u128 } }
}
impl core::ops::Add for Duration {
    type Output = Duration;
    fn add(self, rhs: Duration) -> Duration { Duration { nanos: self.nanos + rhs.nanos } }
}
// `+=` (std panics on overflow: kept as a precondition through vstd's AddAssignSpecImpl); the body is verified against that spec
impl vstd::std_specs::ops::AddAssignSpecImpl<Duration> for Duration {
    open spec fn obeys_add_assign_spec() -> bool { true }
    open spec fn add_assign_req(&self, rhs: Duration) -> bool { self.nanos + rhs.nanos <= u128::MAX }
    open spec fn add_assign_spec(&self, rhs: Duration) -> &Duration { &Duration { nanos: (self.nanos + rhs.nanos) as u128 } }
}
impl core::ops::AddAssign for Duration {
    fn add_assign(&mut self, rhs: Duration) { self.nanos = self.nanos + rhs.nanos; }
}
// ---- end shim Duration -----------------------------------------------------------------------------------------
