// ---- shim: little-endian integer <-> byte-array conversions (rule D24; trusted: the std functions implement exactly this positional encoding) ----
pub trait LeBytes: Sized {
    type Arr;
    spec fn le_spec(self) -> Seq<u8>;
    spec fn arr_seq(a: Self::Arr) -> Seq<u8>;
    fn to_le_bytes_m(self) -> (r: Self::Arr)
        ensures Self::arr_seq(r) == self.le_spec();
    fn from_le_bytes_m(a: Self::Arr) -> (r: Self)
        ensures r.le_spec() == Self::arr_seq(a);
}
impl LeBytes for u8 {
    type Arr = [u8; 1];
    open spec fn le_spec(self) -> Seq<u8> { seq![self] }
    open spec fn arr_seq(a: [u8; 1]) -> Seq<u8> { a@ }
    #[verifier::external_body]
    fn to_le_bytes_m(self) -> (r: [u8; 1]) { self.to_le_bytes() }
    #[verifier::external_body]
    fn from_le_bytes_m(a: [u8; 1]) -> (r: u8) { u8::from_le_bytes(a) }
}
impl LeBytes for u16 {
    type Arr = [u8; 2];
    open spec fn le_spec(self) -> Seq<u8> { seq![(self & 0xff) as u8, ((self >> 8) & 0xff) as u8] }
    open spec fn arr_seq(a: [u8; 2]) -> Seq<u8> { a@ }
    #[verifier::external_body]
    fn to_le_bytes_m(self) -> (r: [u8; 2]) { self.to_le_bytes() }
    #[verifier::external_body]
    fn from_le_bytes_m(a: [u8; 2]) -> (r: u16) { u16::from_le_bytes(a) }
}
impl LeBytes for u32 {
    type Arr = [u8; 4];
    open spec fn le_spec(self) -> Seq<u8> { seq![(self & 0xff) as u8, ((self >> 8) & 0xff) as u8, ((self >> 16) & 0xff) as u8, ((self >> 24) & 0xff) as u8] }
    open spec fn arr_seq(a: [u8; 4]) -> Seq<u8> { a@ }
    #[verifier::external_body]
    fn to_le_bytes_m(self) -> (r: [u8; 4]) { self.to_le_bytes() }
    #[verifier::external_body]
    fn from_le_bytes_m(a: [u8; 4]) -> (r: u32) { u32::from_le_bytes(a) }
}
impl LeBytes for i32 {
    type Arr = [u8; 4];
    open spec fn le_spec(self) -> Seq<u8> { (self as u32).le_spec() }
    open spec fn arr_seq(a: [u8; 4]) -> Seq<u8> { a@ }
    #[verifier::external_body]
    fn to_le_bytes_m(self) -> (r: [u8; 4]) { self.to_le_bytes() }
    #[verifier::external_body]
    fn from_le_bytes_m(a: [u8; 4]) -> (r: i32) { i32::from_le_bytes(a) }
}
impl LeBytes for u64 {
    type Arr = [u8; 8];
    open spec fn le_spec(self) -> Seq<u8> {
        seq![(self & 0xff) as u8, ((self >> 8) & 0xff) as u8, ((self >> 16) & 0xff) as u8, ((self >> 24) & 0xff) as u8,
             ((self >> 32) & 0xff) as u8, ((self >> 40) & 0xff) as u8, ((self >> 48) & 0xff) as u8, ((self >> 56) & 0xff) as u8]
    }
    open spec fn arr_seq(a: [u8; 8]) -> Seq<u8> { a@ }
    #[verifier::external_body]
    fn to_le_bytes_m(self) -> (r: [u8; 8]) { self.to_le_bytes() }
    #[verifier::external_body]
    fn from_le_bytes_m(a: [u8; 8]) -> (r: u64) { u64::from_le_bytes(a) }
}
pub mod le_lemmas {
use vstd::prelude::*;
use super::LeBytes;
verus! {
/// the encodings are injective (proved, bit-vector reasoning): equal bytes mean equal numbers
pub proof fn lemma_le_u16_inj(x: u16, y: u16)
    requires x.le_spec() == y.le_spec(),
    ensures x == y,
{
    assert(x.le_spec()[0] == y.le_spec()[0]);
    assert(x.le_spec()[1] == y.le_spec()[1]);
    assert(x == y) by (bit_vector)
        requires (x & 0xff) as u8 == (y & 0xff) as u8, ((x >> 8) & 0xff) as u8 == ((y >> 8) & 0xff) as u8;
}
pub proof fn lemma_le_u32_inj(x: u32, y: u32)
    requires x.le_spec() == y.le_spec(),
    ensures x == y,
{
    assert(x.le_spec()[0] == y.le_spec()[0]);
    assert(x.le_spec()[1] == y.le_spec()[1]);
    assert(x.le_spec()[2] == y.le_spec()[2]);
    assert(x.le_spec()[3] == y.le_spec()[3]);
    assert(x == y) by (bit_vector)
        requires (x & 0xff) as u8 == (y & 0xff) as u8, ((x >> 8) & 0xff) as u8 == ((y >> 8) & 0xff) as u8,
            ((x >> 16) & 0xff) as u8 == ((y >> 16) & 0xff) as u8, ((x >> 24) & 0xff) as u8 == ((y >> 24) & 0xff) as u8;
}
pub proof fn lemma_le_i32_inj(x: i32, y: i32)
    requires x.le_spec() == y.le_spec(),
    ensures x == y,
{
    lemma_le_u32_inj(x as u32, y as u32);
    assert(x == y) by (bit_vector) requires x as u32 == y as u32;
}
pub proof fn lemma_le_u64_inj(x: u64, y: u64)
    requires x.le_spec() == y.le_spec(),
    ensures x == y,
{
    assert(x.le_spec()[0] == y.le_spec()[0]);
    assert(x.le_spec()[1] == y.le_spec()[1]);
    assert(x.le_spec()[2] == y.le_spec()[2]);
    assert(x.le_spec()[3] == y.le_spec()[3]);
    assert(x.le_spec()[4] == y.le_spec()[4]);
    assert(x.le_spec()[5] == y.le_spec()[5]);
    assert(x.le_spec()[6] == y.le_spec()[6]);
    assert(x.le_spec()[7] == y.le_spec()[7]);
    assert(x == y) by (bit_vector)
        requires (x & 0xff) as u8 == (y & 0xff) as u8, ((x >> 8) & 0xff) as u8 == ((y >> 8) & 0xff) as u8,
            ((x >> 16) & 0xff) as u8 == ((y >> 16) & 0xff) as u8, ((x >> 24) & 0xff) as u8 == ((y >> 24) & 0xff) as u8,
            ((x >> 32) & 0xff) as u8 == ((y >> 32) & 0xff) as u8, ((x >> 40) & 0xff) as u8 == ((y >> 40) & 0xff) as u8,
            ((x >> 48) & 0xff) as u8 == ((y >> 48) & 0xff) as u8, ((x >> 56) & 0xff) as u8 == ((y >> 56) & 0xff) as u8;
}
}
}
// ---- end shim le_bytes ------------------------------------------------------------------------------------------------------------
