// ---- assumed spec: <Range<Idx> as Clone>::clone (std: clones both bounds) ----
pub assume_specification<Idx: Clone>[<core::ops::Range<Idx> as Clone>::clone](r: &core::ops::Range<Idx>) -> (c: core::ops::Range<Idx>)
    ensures cloned::<Idx>(r.start, c.start), cloned::<Idx>(r.end, c.end);
// ---- end assumed spec ----
