// ---- shim: std::net socket addresses with their components (trusted) ---------------------------------------------------------------
// `SocketAddr` and `IpAddr` are transparent enums; the V4/V6 payload types are opaque values determined by their components
// (address bytes and port; for IPv6 also flow label and scope id), which is what std's `PartialEq` compares.
#[verifier::external_type_specification]
#[verifier::external_body]
pub struct ExSocketAddrV4(std::net::SocketAddrV4);
#[verifier::external_type_specification]
#[verifier::external_body]
pub struct ExSocketAddrV6(std::net::SocketAddrV6);
#[verifier::external_type_specification]
#[verifier::external_body]
pub struct ExIpv4Addr(std::net::Ipv4Addr);
#[verifier::external_type_specification]
#[verifier::external_body]
pub struct ExIpv6Addr(std::net::Ipv6Addr);
#[verifier::external_type_specification]
pub struct ExSocketAddr(std::net::SocketAddr);
#[verifier::external_type_specification]
pub struct ExIpAddr(std::net::IpAddr);

pub uninterp spec fn v4_octets(a: std::net::Ipv4Addr) -> [u8; 4];
pub uninterp spec fn v4_ip(a: std::net::SocketAddrV4) -> std::net::Ipv4Addr;
pub uninterp spec fn v4_port(a: std::net::SocketAddrV4) -> u16;
pub uninterp spec fn v6_octets(a: std::net::Ipv6Addr) -> [u8; 16];
pub uninterp spec fn v6_ip(a: std::net::SocketAddrV6) -> std::net::Ipv6Addr;
pub uninterp spec fn v6_port(a: std::net::SocketAddrV6) -> u16;
pub uninterp spec fn v6_flowinfo(a: std::net::SocketAddrV6) -> u32;
pub uninterp spec fn v6_scope_id(a: std::net::SocketAddrV6) -> u32;

pub open spec fn is_v4(a: std::net::SocketAddr) -> bool { a matches std::net::SocketAddr::V4(_) }
pub open spec fn is_v6(a: std::net::SocketAddr) -> bool { a matches std::net::SocketAddr::V6(_) }
pub open spec fn as_v4(a: std::net::SocketAddr) -> std::net::SocketAddrV4 { match a { std::net::SocketAddr::V4(x) => x, std::net::SocketAddr::V6(_) => arbitrary() } }
pub open spec fn as_v6(a: std::net::SocketAddr) -> std::net::SocketAddrV6 { match a { std::net::SocketAddr::V6(x) => x, std::net::SocketAddr::V4(_) => arbitrary() } }
pub open spec fn addr_port(a: std::net::SocketAddr) -> u16 {
    match a { std::net::SocketAddr::V4(x) => v4_port(x), std::net::SocketAddr::V6(x) => v6_port(x) }
}

pub assume_specification[std::net::SocketAddrV4::ip](a: &std::net::SocketAddrV4) -> (r: &std::net::Ipv4Addr) ensures *r == v4_ip(*a);
pub assume_specification[std::net::SocketAddrV6::ip](a: &std::net::SocketAddrV6) -> (r: &std::net::Ipv6Addr) ensures *r == v6_ip(*a);
pub assume_specification[std::net::Ipv4Addr::octets](a: &std::net::Ipv4Addr) -> (r: [u8; 4]) ensures r == v4_octets(*a);
pub assume_specification[std::net::Ipv6Addr::octets](a: &std::net::Ipv6Addr) -> (r: [u8; 16]) ensures r == v6_octets(*a);
pub assume_specification[std::net::SocketAddr::port](a: &std::net::SocketAddr) -> (r: u16) ensures r == addr_port(*a);
pub assume_specification[<std::net::Ipv4Addr as From<[u8; 4]>>::from](o: [u8; 4]) -> (r: std::net::Ipv4Addr) ensures v4_octets(r) == o;
pub assume_specification[<std::net::Ipv6Addr as From<[u8; 16]>>::from](o: [u8; 16]) -> (r: std::net::Ipv6Addr) ensures v6_octets(r) == o;
/// `SocketAddr::new` builds the plain form: for IPv6, flow label and scope id are zero
pub assume_specification[std::net::SocketAddr::new](ip: std::net::IpAddr, port: u16) -> (r: std::net::SocketAddr)
    ensures
        ip matches std::net::IpAddr::V4(i) ==> (r matches std::net::SocketAddr::V4(a) && v4_ip(a) == i && v4_port(a) == port),
        ip matches std::net::IpAddr::V6(i) ==> (r matches std::net::SocketAddr::V6(a) && v6_ip(a) == i && v6_port(a) == port
            && v6_flowinfo(a) == 0 && v6_scope_id(a) == 0);

pub mod net_addr_axioms {
    use vstd::prelude::*;
    use super::*;
    verus! {
    /// extensionality (std's derived/handwritten `PartialEq` compares exactly these components)
    #[verifier::external_body]
    pub proof fn axiom_ipv4_ext(a: std::net::Ipv4Addr, b: std::net::Ipv4Addr)
        requires v4_octets(a) == v4_octets(b), ensures a == b, {}
    #[verifier::external_body]
    pub proof fn axiom_ipv6_ext(a: std::net::Ipv6Addr, b: std::net::Ipv6Addr)
        requires v6_octets(a) == v6_octets(b), ensures a == b, {}
    #[verifier::external_body]
    pub proof fn axiom_v4_ext(a: std::net::SocketAddrV4, b: std::net::SocketAddrV4)
        requires v4_ip(a) == v4_ip(b), v4_port(a) == v4_port(b), ensures a == b, {}
    #[verifier::external_body]
    pub proof fn axiom_v6_ext(a: std::net::SocketAddrV6, b: std::net::SocketAddrV6)
        requires v6_ip(a) == v6_ip(b), v6_port(a) == v6_port(b), v6_flowinfo(a) == v6_flowinfo(b), v6_scope_id(a) == v6_scope_id(b), ensures a == b, {}
    }
}
// ---- end shim net_addr ---------------------------------------------------------------------------------------------------------------
