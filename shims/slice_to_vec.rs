// ---- assumed spec: <[T]>::to_vec (std: clones every element; stated for the length and, through `cloned`, the elements) ----
pub assume_specification<T: Clone>[<[T]>::to_vec](s: &[T]) -> (v: Vec<T>)
    ensures v@.len() == s@.len(),
        forall|i: int| 0 <= i < s@.len() ==> cloned::<T>(s@[i], #[trigger] v@[i]);
// ---- end assumed spec ----
