// ---- assumed spec: Vec::into_boxed_slice (std: same elements, same order) ----
pub assume_specification<T, A: std::alloc::Allocator>[Vec::<T, A>::into_boxed_slice](v: Vec<T, A>) -> (b: Box<[T], A>)
    ensures b@ == v@;
// ---- end assumed spec ----
