// ---- shim: std::net::SocketAddr as an opaque value type (trusted) ------------------------------------------------
// Equality is the value equality of the spec level; it can be a HashMap key (std's Hash/Eq for SocketAddr are consistent).
#[verifier::external_type_specification]
#[verifier::external_body]
pub struct ExSocketAddr(std::net::SocketAddr);

pub assume_specification[<std::net::SocketAddr as PartialEq>::eq](a: &std::net::SocketAddr, b: &std::net::SocketAddr) -> (r: bool)
    ensures r == (*a == *b);

pub mod socket_addr_axioms {
    use vstd::prelude::*;
    verus! {
    #[verifier::external_body]
    pub broadcast proof fn axiom_socket_addr_key_model()
        ensures #[trigger] vstd::std_specs::hash::obeys_key_model::<std::net::SocketAddr>(),
    {}
    }
}
// ---- end shim SocketAddr ------------------------------------------------------------------------------------------
