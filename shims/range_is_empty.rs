// ---- assumed spec: core::ops::Range::is_empty (not in vstd): true iff !(start < end) ----
pub assume_specification<Idx: core::cmp::PartialOrd + core::cmp::PartialOrd>[core::ops::Range::<Idx>::is_empty](r: &core::ops::Range<Idx>) -> (b: bool)
    ensures
        <Idx as vstd::std_specs::cmp::PartialOrdSpec<Idx>>::obeys_partial_cmp_spec() ==>
            b == !(vstd::std_specs::cmp::PartialOrdSpec::partial_cmp_spec(&r.start, &r.end) == Some(core::cmp::Ordering::Less));
// ---- end ----
