// ---- assumed spec: <Vec<T> as IndexMut<Range<usize>>>::index_mut (vstd specifies it for slices and arrays only) ----
// The in-bounds precondition (start <= end <= len) stays an obligation: it comes from vstd's trait-level
// `IndexSpec::index_req`.  Assumed here: the returned sub-slice is old[start..end] and, when the borrow ends,
// the vector is old[..start] ++ (what was written) ++ old[end..].
pub mod vec_index_mut_shim {
use vstd::prelude::*;
pub uninterp spec fn vec_index_mut_rel<T, I: core::slice::SliceIndex<[T]>, A: core::alloc::Allocator>(index: I, old_v: Seq<T>, fin_v: Seq<T>,
    now: &<Vec<T, A> as core::ops::Index<I>>::Output, fin: &<Vec<T, A> as core::ops::Index<I>>::Output) -> bool;

pub assume_specification<T, I: core::slice::SliceIndex<[T]>, A: core::alloc::Allocator>[ <Vec<T, A> as core::ops::IndexMut<I>>::index_mut ](v: &mut Vec<T,A>, index: I) -> (r: &mut <Vec<T, A> as core::ops::Index<I>>::Output)
    ensures vec_index_mut_rel::<T, I, A>(index, old(v)@, final(v)@, &*r, &*final(r));

#[verifier::external_body]
pub broadcast proof fn axiom_vec_index_mut_range<T>(index: core::ops::Range<usize>, o: Seq<T>, f: Seq<T>, now: &[T], fin: &[T])
    requires
        #[trigger] vec_index_mut_rel::<T, core::ops::Range<usize>, std::alloc::Global>(index, o, f, now, fin),
        index.start <= index.end <= o.len(),
    ensures
        now@ == o.subrange(index.start as int, index.end as int),
        fin@.len() == now@.len(),
        f == o.subrange(0, index.start as int) + fin@ + o.subrange(index.end as int, o.len() as int),
{}

/// same for a single element: `&mut v[i]` yields old[i]; when the borrow ends the vector is old with element i replaced
#[verifier::external_body]
pub broadcast proof fn axiom_vec_index_mut_usize<T>(index: usize, o: Seq<T>, f: Seq<T>, now: &T, fin: &T)
    requires
        #[trigger] vec_index_mut_rel::<T, usize, std::alloc::Global>(index, o, f, now, fin),
        index < o.len(),
    ensures
        *now == o[index as int],
        f == o.update(index as int, *fin),
{}
} // mod vec_index_mut_shim
pub use vec_index_mut_shim::*;
// ---- end -----------------------------------------------------------------------------------------------------------
