// ---- shim: std::io::{Read, Write} as seen by the token codec (trusted model of the stream the caller supplies) ---------------------
// A reader is the sequence of bytes it still holds (`rest`); `read_exact` succeeds exactly when enough bytes are left and then hands over
// the first `buf.len()` of them.  A writer is the sequence written so far plus the room that is left (`Cursor<&mut [u8]>`: the rest of the
// slice; `Vec<u8>`: unbounded); `write_all` succeeds exactly when the bytes fit and then appends them.  This is the behaviour of
// `Cursor<&[u8]>`, `&[u8]`, `Cursor<&mut [u8]>` and `Vec<u8>`, the stream types renetcode itself uses; an arbitrary user stream that fails
// for other reasons only adds error returns.
#[verifier::external_type_specification]
#[verifier::external_body]
pub struct ExIoError(std::io::Error);

#[verifier::external_trait_specification]
#[verifier::external_trait_extension(ReadSpec via ReadSpecImpl)]
pub trait ExRead {
    type ExternalTraitSpecificationFor: std::io::Read;
    spec fn rest(&self) -> Seq<u8>;
    fn read_exact(&mut self, buf: &mut [u8]) -> (r: Result<(), std::io::Error>)
        ensures
            final(buf)@.len() == old(buf)@.len(),
            r is Ok <==> old(self).rest().len() >= old(buf)@.len(),
            r is Ok ==> final(buf)@ == old(self).rest().subrange(0, old(buf)@.len() as int)
                && final(self).rest() == old(self).rest().skip(old(buf)@.len() as int);
}

#[verifier::external_trait_specification]
#[verifier::external_trait_extension(WriteSpec via WriteSpecImpl)]
pub trait ExWrite {
    type ExternalTraitSpecificationFor: std::io::Write;
    spec fn written(&self) -> Seq<u8>;
    spec fn room(&self) -> int;
    fn write_all(&mut self, buf: &[u8]) -> (r: Result<(), std::io::Error>)
        ensures
            r is Ok <==> old(self).room() >= buf@.len(),
            r is Ok ==> final(self).written() == old(self).written() + buf@ && final(self).room() == old(self).room() - buf@.len();
}

/// rule D25 -- `io::Error::new(io::ErrorKind::K, "<text>")` (a boxed `dyn Error` is outside Verus' subset; which error value it is matters to no contract)
#[verifier::external_body]
pub fn io_error_unverified() -> std::io::Error { std::io::Error::new(std::io::ErrorKind::InvalidData, "invalid data") }
// ---- end shim io_stream ------------------------------------------------------------------------------------------------------------
