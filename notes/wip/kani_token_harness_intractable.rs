
// ===== appended by /verif/engine/kani_run.py to a scratch copy of renetcode/src/token.rs (never to /repo) =====
// U20: connect-token codec.  The functions are the real ones (this module is a child of token.rs and reaches its private items).
// Every loop of the code under test is bounded by a constant of the format (32 address slots, 4 / 16 address bytes), so unwinding with
// unwinding assertions is complete: the harnesses marked `complete` cover their whole symbolic domain.
#[cfg(kani)]
#[allow(dead_code, unused_imports, unused_variables, static_mut_refs)]
pub(crate) mod verif_kani {
    use super::*;
    use std::net::{SocketAddrV4, SocketAddrV6};

    /// every address the netcode token format can carry: an IPv4 or IPv6 address and a port
    fn any_wire_addr() -> SocketAddr {
        if kani::any() {
            let ip: [u8; 4] = kani::any();
            SocketAddr::new(IpAddr::V4(Ipv4Addr::from(ip)), kani::any())
        } else {
            let ip: [u8; 16] = kani::any();
            SocketAddr::new(IpAddr::V6(Ipv6Addr::from(ip)), kani::any())
        }
    }

    /// the address lists the library builds (PrivateConnectToken::generate): n = 1..=32 addresses in the first n slots
    fn any_dense_list() -> [Option<SocketAddr>; 32] {
        let n: usize = kani::any();
        kani::assume(1 <= n && n <= 32);
        let mut a = [None; 32];
        let mut i = 0;
        while i < 32 {
            if i < n {
                a[i] = Some(any_wire_addr());
            }
            i += 1;
        }
        a
    }

    // @harness token_addresses_roundtrip unit=U20 props=C16 tier=quick kind=complete timeout=1800 :: read_server_addresses(write_server_addresses(l)) == l for every list of 1..=32 IPv4/IPv6 addresses (any address bytes, any port) in the first slots, and the reader consumes exactly what was written
    #[kani::proof]
    #[kani::unwind(34)]
    fn token_addresses_roundtrip() {
        let list = any_dense_list();
        let mut buf = [0u8; 4 + 32 * 19];
        let mut w = Cursor::new(&mut buf[..]);
        write_server_addresses(&mut w, &list).unwrap();
        let used = w.position() as usize;
        let mut r = Cursor::new(&buf[..]);
        let back = read_server_addresses(&mut r).unwrap();
        assert!(back == list);
        assert!(r.position() as usize == used);
    }
}
