use vstd::prelude::*;
use std::ops::Range;
verus! {

pub struct RenetClient {
    pub pending_acks: Vec<Range<u64>>,
}

pub open spec fn wf(s: Seq<Range<u64>>) -> bool {
    &&& forall|i: int| 0 <= i < s.len() ==> #[trigger] s[i].start < s[i].end && s[i].end <= 0x4000_0000_0000_0000
    &&& forall|i: int, j: int| 0 <= i < j < s.len() ==> #[trigger] s[i].end < #[trigger] s[j].start
}

pub open spec fn covers(s: Seq<Range<u64>>, x: u64) -> bool {
    exists|i: int| 0 <= i < s.len() && #[trigger] s[i].start <= x && x < s[i].end
}

impl RenetClient {
    fn add_pending_ack(&mut self, sequence: u64) 
        requires sequence < 0x3fff_ffff_ffff_ffff, wf(old(self).pending_acks@),
        ensures wf(final(self).pending_acks@),
           covers(final(self).pending_acks@, sequence) || final(self).pending_acks@.len() == 64,
           forall|x: u64| covers(final(self).pending_acks@, x) ==> (x == sequence || covers(old(self).pending_acks@, x)),
    {
        if self.pending_acks.is_empty() {
            self.pending_acks.push(sequence..sequence + 1);
            return;
        }

        // Try to fit the sequence in an existing range
        for index in 0..self.pending_acks.len() 
            invariant wf(self.pending_acks@), self.pending_acks@ == old(self).pending_acks@,
               forall|k: int| 0 <= k < index ==> (#[trigger] self.pending_acks@[k]).end < sequence,
        {
            let range = &mut self.pending_acks[index];
            if range.contains(&sequence) {
                // Sequence already contained in this range
                return;
            }

            if range.start == sequence + 1 {
                // New sequence is just before this range
                range.start = sequence;
                return;
            } else if range.end == sequence {
                // New sequence is just after this range
                range.end = sequence + 1;

                // Check if we can merge with the range just after it
                let next_index = index + 1;
                if next_index < self.pending_acks.len() && self.pending_acks[index].end == self.pending_acks[next_index].start {
                    self.pending_acks[index].end = self.pending_acks[next_index].end;
                    self.pending_acks.remove(next_index);
                }

                return;
            } else if self.pending_acks[index].start > sequence + 1 {
                // New sequence is before this range and not extensible to it
                // Add new range to the left
                self.pending_acks.insert(index, sequence..sequence + 1);
                return;
            }
        }

        // New sequence was not before or adjacent to any range
        // Add new range with only this sequence at the end
        self.pending_acks.push(sequence..sequence + 1);

        // Limit to 64 pending ranges
        if self.pending_acks.len() > 64 {
            self.pending_acks.remove(0);
        }
    }
}
} // verus!
fn main() {}
