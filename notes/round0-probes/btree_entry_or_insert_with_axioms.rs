#![feature(allocator_api)]
use vstd::prelude::*;
use std::collections::{BTreeMap, HashMap, btree_map, hash_map};
verus! {

pub struct SC { pub num_slices: usize, pub cnt: usize }
impl SC { 
  pub fn new(id: u64, n: usize) -> (r: SC) ensures r.num_slices == n, r.cnt == 0 { SC { num_slices: n, cnt: 0 } } 
  pub fn process(&mut self) -> (r: bool) ensures final(self).num_slices == old(self).num_slices { if self.cnt < 100 { self.cnt += 1; } self.cnt == self.num_slices }
}

#[verifier::external_type_specification]
#[verifier::external_body]
#[verifier::reject_recursive_types(K)]
#[verifier::reject_recursive_types(V)]
#[verifier::reject_recursive_types(A)]
pub struct ExBEntry<'a, K: 'a, V: 'a, A: std::alloc::Allocator + Clone>(btree_map::Entry<'a, K, V, A>);

pub uninterp spec fn bentry_old<'a, K, V, A: std::alloc::Allocator + Clone>(e: btree_map::Entry<'a, K, V, A>) -> Map<K, V>;
pub uninterp spec fn bentry_fin<'a, K, V, A: std::alloc::Allocator + Clone>(e: btree_map::Entry<'a, K, V, A>) -> Map<K, V>;
pub uninterp spec fn bentry_key<'a, K, V, A: std::alloc::Allocator + Clone>(e: btree_map::Entry<'a, K, V, A>) -> K;

pub assume_specification<'a, K: Ord, V, A: std::alloc::Allocator + Clone>[BTreeMap::<K, V, A>::entry](m: &'a mut BTreeMap<K, V, A>, key: K) -> (e: btree_map::Entry<'a, K, V, A>)
    ensures bentry_old(e) == old(m)@, bentry_fin(e) == final(m)@, bentry_key(e) == key;

pub assume_specification<'a, K: Ord, V, A: std::alloc::Allocator + Clone, F: FnOnce() -> V>[btree_map::Entry::<'a, K, V, A>::or_insert_with](e: btree_map::Entry<'a, K, V, A>, default: F) -> (r: &'a mut V)
    requires !bentry_old(e).contains_key(bentry_key(e)) ==> default.requires(()),
    ensures
        bentry_old(e).contains_key(bentry_key(e)) ==> *r == bentry_old(e)[bentry_key(e)],
        !bentry_old(e).contains_key(bentry_key(e)) ==> default.ensures((), *r),
        bentry_fin(e) == bentry_old(e).insert(bentry_key(e), *final(r));

pub struct U { pub mem: usize, pub slices: BTreeMap<u64, SC> }

impl U {
    pub fn ps(&mut self, id: u64, n: usize) 
        requires forall|k: u64| old(self).slices@.contains_key(k) ==> old(self).slices@[k].num_slices > 0, n > 0
        ensures forall|k: u64| final(self).slices@.contains_key(k) ==> final(self).slices@[k].num_slices > 0
    {
        let sc = self.slices.entry(id).or_insert_with(|| -> (r: SC) ensures r.num_slices == n { SC::new(id, n) });
        let done = sc.process();
        assert(self.slices@.contains_key(id));
        assert(self.slices@[id].num_slices > 0);
        assert(self.slices@.dom() == old(self).slices@.dom().insert(id));
        if done {
            self.slices.remove(&id);
        }
    }
}
} // verus!
fn main() {}
