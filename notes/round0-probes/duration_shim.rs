use vstd::prelude::*;
use core::cmp::Ordering;
verus! {

#[derive(Clone, Copy, PartialEq, Eq)]
pub struct Duration { pub nanos: u128 }

impl vstd::std_specs::ops::SubSpecImpl<Duration> for Duration {
    open spec fn obeys_sub_spec() -> bool { true }
    open spec fn sub_req(self, rhs: Duration) -> bool { self.nanos >= rhs.nanos }
    open spec fn sub_spec(self, rhs: Duration) -> Duration { Duration { nanos: (self.nanos - rhs.nanos) as u128 } }
}
impl core::ops::Sub for Duration {
    type Output = Duration;
    fn sub(self, rhs: Duration) -> Duration { Duration { nanos: self.nanos - rhs.nanos } }
}
impl vstd::std_specs::cmp::PartialOrdSpecImpl for Duration {
    open spec fn obeys_partial_cmp_spec() -> bool { true }
    open spec fn partial_cmp_spec(&self, other: &Duration) -> Option<Ordering> {
        Some(if self.nanos < other.nanos { Ordering::Less } else if self.nanos == other.nanos { Ordering::Equal } else { Ordering::Greater })
    }
}
impl PartialOrd for Duration {
    fn partial_cmp(&self, other: &Duration) -> Option<Ordering> {
        Some(if self.nanos < other.nanos { Ordering::Less } else if self.nanos == other.nanos { Ordering::Equal } else { Ordering::Greater })
    }
}

fn test(a: Duration, b: Duration, c: Duration) -> (r: bool)
    requires a.nanos >= b.nanos
    ensures r == (a.nanos - b.nanos < c.nanos)
{
    a - b < c
}
fn test2(a: Duration, b: Duration) -> (r: bool)
    ensures r == (a.nanos >= b.nanos)
{
    a >= b
}
} // verus!
fn main() {}
