#![feature(allocator_api)]
use vstd::prelude::*;
use std::collections::{BTreeMap, btree_map};
verus! {

#[verifier::external_type_specification]
#[verifier::reject_recursive_types(K)]
#[verifier::reject_recursive_types(V)]
#[verifier::reject_recursive_types(A)]
pub struct ExBEntry<'a, K: 'a, V: 'a, A: std::alloc::Allocator + Clone>(btree_map::Entry<'a, K, V, A>);

#[verifier::external_type_specification]
#[verifier::external_body]
#[verifier::reject_recursive_types(K)]
#[verifier::reject_recursive_types(V)]
#[verifier::reject_recursive_types(A)]
pub struct ExBVacant<'a, K, V, A: std::alloc::Allocator + Clone>(btree_map::VacantEntry<'a, K, V, A>);

#[verifier::external_type_specification]
#[verifier::external_body]
#[verifier::reject_recursive_types(K)]
#[verifier::reject_recursive_types(V)]
#[verifier::reject_recursive_types(A)]
pub struct ExBOcc<'a, K, V, A: std::alloc::Allocator + Clone>(btree_map::OccupiedEntry<'a, K, V, A>);

pub uninterp spec fn vac_old<'a, K, V, A: std::alloc::Allocator + Clone>(e: btree_map::VacantEntry<'a, K, V, A>) -> Map<K, V>;
pub uninterp spec fn vac_fin<'a, K, V, A: std::alloc::Allocator + Clone>(e: btree_map::VacantEntry<'a, K, V, A>) -> Map<K, V>;
pub uninterp spec fn vac_key<'a, K, V, A: std::alloc::Allocator + Clone>(e: btree_map::VacantEntry<'a, K, V, A>) -> K;

pub assume_specification<'a, K: Ord, V, A: std::alloc::Allocator + Clone>[BTreeMap::<K, V, A>::entry](m: &'a mut BTreeMap<K, V, A>, key: K) -> (e: btree_map::Entry<'a, K, V, A>)
    ensures match e {
        btree_map::Entry::Vacant(v) => !old(m)@.contains_key(key) && vac_old(v) == old(m)@ && vac_fin(v) == final(m)@ && vac_key(v) == key,
        btree_map::Entry::Occupied(_) => old(m)@.contains_key(key),
    };

pub assume_specification<'a, K: Ord, V, A: std::alloc::Allocator + Clone>[btree_map::VacantEntry::<'a, K, V, A>::insert](e: btree_map::VacantEntry<'a, K, V, A>, value: V) -> (r: &'a mut V)
    ensures *r == value, vac_fin(e) == vac_old(e).insert(vac_key(e), *final(r));

pub struct R { pub messages: BTreeMap<u64, Vec<u8>>, pub mem: usize, pub max: usize, pub oldest: u64 }

impl R {
    pub fn process_message(&mut self, message: Vec<u8>, message_id: u64) -> (res: Result<(), u8>) 
        requires old(self).mem <= old(self).max
        ensures res.is_ok() && message_id >= old(self).oldest && !old(self).messages@.contains_key(message_id) ==> final(self).messages@ == old(self).messages@.insert(message_id, message),
    {
        if message_id < self.oldest { return Ok(()); }
        if let btree_map::Entry::Vacant(entry) = self.messages.entry(message_id) {
            if self.mem + message.len() > self.max {
                return Err(1);
            }
            self.mem += message.len();
            entry.insert(message);
        }
        Ok(())
    }
}
} // verus!
fn main() {}
