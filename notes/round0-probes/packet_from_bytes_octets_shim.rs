use vstd::prelude::*;
use std::ops::Range;
verus! {

pub const SLICE_SIZE: usize = 1200;

#[verifier::external_body]
pub struct Bytes { inner: Vec<u8> }
impl View for Bytes { type V = Seq<u8>; uninterp spec fn view(&self) -> Seq<u8>; }
impl From<Vec<u8>> for Bytes {
    #[verifier::external_body]
    fn from(v: Vec<u8>) -> (b: Bytes) ensures b@ == v@ { Bytes { inner: v } }
}

#[derive(Debug)]
pub struct BufferTooShortError;

pub assume_specification<T>[<[T]>::reverse](s: &mut [T])
    ensures final(s)@ == old(s)@.reverse();


// trusted shim of octets::Octets (read cursor over a byte slice)
#[verifier::external_body]
pub struct Octets<'a> { buf: &'a [u8], off: usize }
impl<'a> Octets<'a> {
    pub uninterp spec fn rest(&self) -> Seq<u8>;
    #[verifier::external_body]
    pub fn get_u8(&mut self) -> (r: Result<u8, BufferTooShortError>)
        ensures r.is_ok() ==> old(self).rest().len() >= 1 && final(self).rest() == old(self).rest().skip(1),
    { unimplemented!() }
    #[verifier::external_body]
    pub fn get_u16(&mut self) -> (r: Result<u16, BufferTooShortError>)
        ensures r.is_ok() ==> old(self).rest().len() >= 2 && final(self).rest() == old(self).rest().skip(2),
    { unimplemented!() }
    #[verifier::external_body]
    pub fn get_varint(&mut self) -> (r: Result<u64, BufferTooShortError>)
        ensures r.is_ok() ==> r.unwrap() < 0x4000_0000_0000_0000 && old(self).rest().len() >= 1 && final(self).rest().len() < old(self).rest().len(),
    { unimplemented!() }
    #[verifier::external_body]
    pub fn get_bytes_with_varint_length(&mut self) -> (r: Result<Octets<'a>, BufferTooShortError>)
        ensures r.is_ok() ==> final(self).rest().len() < old(self).rest().len(),
    { unimplemented!() }
    #[verifier::external_body]
    pub fn to_vec(&self) -> (v: Vec<u8>) ensures v@ == self.rest() { unimplemented!() }
    #[verifier::external_body]
    pub fn is_empty(&self) -> (b: bool) ensures b == (self.rest().len() == 0) { unimplemented!() }
    #[verifier::external_body]
    pub fn len(&self) -> (n: usize) ensures n == self.rest().len() { unimplemented!() }
}

#[derive(Debug, Clone, Copy, PartialEq, Eq)]
pub enum SerializationError {
    BufferTooShort,
    InvalidNumSlices,
    SliceSizeAboveLimit,
    EmptySlice,
    InvalidAckRange,
    InvalidPacketType,
}

impl From<BufferTooShortError> for SerializationError {
    fn from(_e: BufferTooShortError) -> Self {
        SerializationError::BufferTooShort
    }
}

pub struct Slice {
    pub message_id: u64,
    pub slice_index: usize,
    pub num_slices: usize,
    pub payload: Bytes,
}

pub enum Packet {
    SmallReliable { sequence: u64, channel_id: u8, messages: Vec<(u64, Bytes)> },
    SmallUnreliable { sequence: u64, channel_id: u8, messages: Vec<Bytes> },
    UnreliableSlice { sequence: u64, channel_id: u8, slice: Slice },
    ReliableSlice { sequence: u64, channel_id: u8, slice: Slice },
    Ack { sequence: u64, ack_ranges: Vec<Range<u64>> },
}

impl Packet {
    pub fn from_bytes(b: &mut Octets) -> Result<Packet, SerializationError> {
        let packet_type = b.get_u8()?;
        match packet_type {
            0 => {
                // SmallReliable
                let sequence = b.get_varint()?;
                let channel_id = b.get_u8()?;
                let messages_len = b.get_u16()?;
                let mut messages: Vec<(u64, Bytes)> = Vec::with_capacity(64);
                for _ in 0..messages_len {
                    let message_id = b.get_varint()?;
                    let payload = b.get_bytes_with_varint_length()?;

                    messages.push((message_id, payload.to_vec().into()));
                }

                Ok(Packet::SmallReliable {
                    sequence,
                    channel_id,
                    messages,
                })
            }
            2 => {
                // ReliableSlice
                let sequence = b.get_varint()?;
                let channel_id = b.get_u8()?;
                let message_id = b.get_varint()?;
                let slice_index = b.get_varint()? as usize;
                let num_slices = b.get_varint()? as usize;
                if num_slices == 0 || num_slices > 1_000_000 {
                    return Err(SerializationError::InvalidNumSlices);
                }

                let payload = b.get_bytes_with_varint_length()?;

                if payload.is_empty() {
                    return Err(SerializationError::EmptySlice);
                }

                if payload.len() > SLICE_SIZE {
                    return Err(SerializationError::SliceSizeAboveLimit);
                }

                let slice = Slice {
                    message_id,
                    slice_index,
                    num_slices,
                    payload: payload.to_vec().into(),
                };
                Ok(Packet::ReliableSlice {
                    sequence,
                    channel_id,
                    slice,
                })
            }
            4 => {
                // Ack
                let sequence = b.get_varint()?;

                let first_range_end = b.get_varint()?;
                let first_range_size = b.get_varint()?;
                let num_remaining_ranges = b.get_varint()?;

                if first_range_end < first_range_size {
                    return Err(SerializationError::InvalidAckRange);
                }

                let mut ack_ranges: Vec<Range<u64>> = Vec::with_capacity(32);

                let first_range_start = first_range_end - first_range_size;
                ack_ranges.push(first_range_start..first_range_end + 1);

                let mut previous_range_start = first_range_start;
                for _ in 0..num_remaining_ranges {
                    // Get the gap between the previous range and the current one
                    let gap = b.get_varint()?;

                    if previous_range_start < 2 + gap {
                        return Err(SerializationError::InvalidAckRange);
                    }

                    // Get the end of the current range using the start of the previous one and the gap
                    let range_end = (previous_range_start - gap) - 2;
                    let range_size = b.get_varint()?;

                    if range_end < range_size {
                        return Err(SerializationError::InvalidAckRange);
                    }

                    let range_start = range_end - range_size;
                    ack_ranges.push(range_start..range_end + 1);

                    previous_range_start = range_start;
                }

                ack_ranges.reverse();

                Ok(Packet::Ack { sequence, ack_ranges })
            }
            _ => Err(SerializationError::InvalidPacketType),
        }
    }
}
} // verus!
fn main() {}
