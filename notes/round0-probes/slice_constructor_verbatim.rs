use vstd::prelude::*;
verus! {

pub const SLICE_SIZE: usize = 1200;

#[verifier::external_body]
pub struct Bytes { inner: Vec<u8> }
impl View for Bytes { type V = Seq<u8>; uninterp spec fn view(&self) -> Seq<u8>; }
impl From<Vec<u8>> for Bytes {
    #[verifier::external_body]
    fn from(v: Vec<u8>) -> (b: Bytes) ensures b@ == v@ { Bytes { inner: v } }
}

pub assume_specification<T: Default>[core::mem::take::<T>](dest: &mut T) -> (r: T)
    ensures r == *old(dest), T::default.ensures((), *final(dest));

#[derive(Clone, Copy, Debug, PartialEq, Eq)]
pub enum ChannelError {
    ReliableChannelMaxMemoryReached,
    InvalidSliceMessage,
}

pub struct SliceConstructor {
    message_id: u64,
    pub num_slices: usize,
    num_received_slices: usize,
    received: Vec<bool>,
    sliced_data: Vec<u8>,
}

impl SliceConstructor {
    pub fn new(message_id: u64, num_slices: usize) -> Self {
        SliceConstructor {
            message_id,
            num_slices,
            num_received_slices: 0,
            received: vec![false; num_slices],
            sliced_data: vec![0; num_slices * SLICE_SIZE],
        }
    }

    pub fn process_slice(&mut self, slice_index: usize, bytes: &[u8]) -> Result<Option<Bytes>, ChannelError> {
        let is_last_slice = slice_index == self.num_slices - 1;
        if is_last_slice {
            if bytes.len() > SLICE_SIZE {
                return Err(ChannelError::InvalidSliceMessage);
            }
        } else if bytes.len() != SLICE_SIZE {
            return Err(ChannelError::InvalidSliceMessage);
        }

        if !self.received[slice_index] {
            self.received[slice_index] = true;
            self.num_received_slices += 1;

            if is_last_slice {
                let len = (self.num_slices - 1) * SLICE_SIZE + bytes.len();
                self.sliced_data.resize(len, 0);
            }

            let start = slice_index * SLICE_SIZE;
            let end = if slice_index == self.num_slices - 1 {
                (self.num_slices - 1) * SLICE_SIZE + bytes.len()
            } else {
                (slice_index + 1) * SLICE_SIZE
            };

            self.sliced_data[start..end].copy_from_slice(bytes);
        }

        if self.num_received_slices == self.num_slices {
            let payload = std::mem::take(&mut self.sliced_data);
            return Ok(Some(payload.into()));
        }

        Ok(None)
    }
}
} // verus!
fn main() {}
