use vstd::prelude::*;
use core::cmp::Ordering;
use std::ops::Range;
verus! {

pub const SLICE_SIZE: usize = 1200;

#[verifier::external_body]
pub struct Bytes { inner: Vec<u8> }
impl View for Bytes { type V = Seq<u8>; uninterp spec fn view(&self) -> Seq<u8>; }
impl Bytes {
    #[verifier::external_body]
    pub fn len(&self) -> (n: usize) ensures n == self@.len() { unimplemented!() }
    #[verifier::external_body]
    pub fn slice(&self, r: Range<usize>) -> (b: Bytes) requires r.start <= r.end <= self@.len() ensures b@ == self@.subrange(r.start as int, r.end as int) { unimplemented!() }
}
impl Clone for Bytes {
    #[verifier::external_body]
    fn clone(&self) -> (b: Bytes) ensures b@ == self@ { unimplemented!() }
}

#[verifier::external_body]
pub fn varint_len(v: u64) -> (n: usize)
    requires v < 0x4000_0000_0000_0000
    ensures n == (if v <= 63 { 1usize } else if v <= 16383 { 2 } else if v <= 1_073_741_823 { 4 } else { 8 })
{ unimplemented!() }

#[derive(Clone, Copy, PartialEq, Eq)]
pub struct Duration { pub nanos: u128 }
impl vstd::std_specs::ops::SubSpecImpl<Duration> for Duration {
    open spec fn obeys_sub_spec() -> bool { true }
    open spec fn sub_req(self, rhs: Duration) -> bool { self.nanos >= rhs.nanos }
    open spec fn sub_spec(self, rhs: Duration) -> Duration { Duration { nanos: (self.nanos - rhs.nanos) as u128 } }
}
impl core::ops::Sub for Duration {
    type Output = Duration;
    fn sub(self, rhs: Duration) -> Duration { Duration { nanos: self.nanos - rhs.nanos } }
}
impl vstd::std_specs::cmp::PartialOrdSpecImpl for Duration {
    open spec fn obeys_partial_cmp_spec() -> bool { true }
    open spec fn partial_cmp_spec(&self, other: &Duration) -> Option<Ordering> {
        Some(if self.nanos < other.nanos { Ordering::Less } else if self.nanos == other.nanos { Ordering::Equal } else { Ordering::Greater })
    }
}
impl PartialOrd for Duration {
    fn partial_cmp(&self, other: &Duration) -> Option<Ordering> {
        Some(if self.nanos < other.nanos { Ordering::Less } else if self.nanos == other.nanos { Ordering::Equal } else { Ordering::Greater })
    }
}

pub struct Slice { pub message_id: u64, pub slice_index: usize, pub num_slices: usize, pub payload: Bytes }
pub enum Packet {
    SmallReliable { sequence: u64, channel_id: u8, messages: Vec<(u64, Bytes)> },
    ReliableSlice { sequence: u64, channel_id: u8, slice: Slice },
}

pub assume_specification<T: Default>[core::mem::take::<T>](dest: &mut T) -> (r: T)
    ensures r == *old(dest), T::default.ensures((), *final(dest));

enum UnackedMessage {
    Small {
        message: Bytes,
        last_sent: Option<Duration>,
    },
    Sliced {
        message: Bytes,
        num_slices: usize,
        num_acked_slices: usize,
        next_slice_to_send: usize,
        acked: Vec<bool>,
        last_sent: Vec<Option<Duration>>,
    },
}

// --- outlined body of the 'messages loop (rule D6), inner for desugared (rule D5) ---
fn messages_loop_body(
    message_id: u64, unacked_message: &mut UnackedMessage,
    self_channel_id: u8, self_resend_time: Duration,
    packet_sequence: &mut u64, available_bytes: &mut u64, current_time: Duration,
    packets: &mut Vec<Packet>, small_messages: &mut Vec<(u64, Bytes)>, small_messages_bytes: &mut usize,
) {
            match unacked_message {
                UnackedMessage::Small { message, last_sent } => {
                    if *available_bytes < message.len() as u64 {
                        // Skip message, no bytes available to send this message
                        return;
                    }

                    if let Some(last_sent) = last_sent {
                        if current_time - *last_sent < self_resend_time {
                            return;
                        }
                    }

                    *available_bytes -= message.len() as u64;

                    // Generate packet with small messages if you cannot fit
                    let serialized_size = message.len() + varint_len(message.len() as u64) + varint_len(message_id);
                    if *small_messages_bytes + serialized_size > SLICE_SIZE {
                        packets.push(Packet::SmallReliable {
                            sequence: *packet_sequence,
                            channel_id: self_channel_id,
                            messages: std::mem::take(small_messages),
                        });
                        *small_messages_bytes = 0;
                        *packet_sequence += 1;
                    }

                    *small_messages_bytes += serialized_size;
                    small_messages.push((message_id, message.clone()));
                    *last_sent = Some(current_time);

                    return;
                }
                UnackedMessage::Sliced {
                    message,
                    num_slices,
                    acked,
                    last_sent,
                    next_slice_to_send,
                    ..
                } => {
                    let start_index = *next_slice_to_send;
                    let mut __k = 0; while __k < *num_slices decreases *num_slices - __k { let i = __k; __k += 1;
                        if *available_bytes < SLICE_SIZE as u64 {
                            // Skip message, no bytes available to send a slice
                            return;
                        }

                        let i = (start_index + i) % *num_slices;
                        if acked[i] {
                            continue;
                        }

                        if let Some(last_sent) = last_sent[i] {
                            if current_time - last_sent < self_resend_time {
                                continue;
                            }
                        }

                        let start = i * SLICE_SIZE;
                        let end = if i == *num_slices - 1 { message.len() } else { (i + 1) * SLICE_SIZE };

                        let payload = message.slice(start..end);
                        *available_bytes -= payload.len() as u64;

                        let slice = Slice {
                            message_id,
                            slice_index: i,
                            num_slices: *num_slices,
                            payload,
                        };

                        packets.push(Packet::ReliableSlice {
                            sequence: *packet_sequence,
                            channel_id: self_channel_id,
                            slice,
                        });

                        *packet_sequence += 1;
                        last_sent[i] = Some(current_time);
                        *next_slice_to_send = i + 1 % *num_slices;
                    }
                }
            }
}
} // verus!
fn main() {}
