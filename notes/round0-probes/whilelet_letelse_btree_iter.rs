#![feature(allocator_api)]
use vstd::prelude::*;
use std::collections::{BTreeMap, VecDeque, HashMap};
verus! {

pub struct SC { pub num_slices: usize }
impl SC { pub fn new(id: u64, n: usize) -> (r: SC) ensures r.num_slices == n { SC { num_slices: n } } }

pub enum UM { Small { message: Vec<u8> }, Sliced { message: Vec<u8>, n: usize } }

pub struct U { pub q: VecDeque<Vec<u8>>, pub mem: usize, pub slices: BTreeMap<u64, SC>, pub hs: HashMap<u64, SC>, pub um: BTreeMap<u64, UM>, pub last: BTreeMap<u64, u64> }

impl U {
    pub fn g(&mut self, avail: &mut u64) -> usize {
        let mut n = 0usize;
        while let Some(message) = self.q.pop_front() decreases self.q.len() {
            if *avail < message.len() as u64 { continue; }
            if n < 10 { n += 1; }
        }
        n
    }
    pub fn ack(&mut self, message_id: u64) {
        if self.um.contains_key(&message_id) {
            let unacked_message = self.um.remove(&message_id).unwrap();
            let UM::Small { message: payload, .. } = unacked_message else {
                unreachable!("called ack on small message but found sliced");
            };
            if self.mem >= payload.len() { self.mem -= payload.len(); }
        }
    }
    pub fn ack2(&mut self, message_id: u64, idx: usize) {
        let Some(unacked_message) = self.um.get_mut(&message_id) else { return; };
        let UM::Sliced { message, n, .. } = unacked_message else { unreachable!("x"); };
        if *n < 10 { *n += 1; }
    }
    pub fn disc(&mut self, now: u64) {
        let mut lost: Vec<u64> = Vec::new();
        for (message_id, last_received) in self.last.iter() {
            if now >= *last_received && now - *last_received >= 3 { lost.push(*message_id); } else { break; }
        }
        for message_id in lost.iter() {
            self.last.remove(message_id);
            let slice = self.slices.remove(message_id).expect("discarded slice should exist");
        }
    }
}
} // verus!
fn main() {}
