#![feature(allocator_api)]
use vstd::prelude::*;
use vstd::std_specs::hash::*;
use std::collections::{HashMap};
verus! {

pub assume_specification<'a, K, V, S, A, Q> [std::collections::HashMap::<K, V, S, A>::get_mut] (m: &'a mut std::collections::HashMap<K, V, S, A>, k: &Q) -> (r: std::option::Option<&'a mut V>)
           where
           A: std::alloc::Allocator,
           K: std::cmp::Eq + std::hash::Hash + std::borrow::Borrow<Q>,
           Q: std::marker::MetaSized + std::hash::Hash + std::cmp::Eq + ?Sized,
           S: std::hash::BuildHasher,
    ensures
        obeys_key_model::<K>() && builds_valid_hashers::<S>() ==> match r {
            Some(v) => contains_borrowed_key(old(m)@, k) && maps_borrowed_key_to_value(old(m)@, k, *v)
                 && final(m)@.dom() == old(m)@.dom()
                 && maps_borrowed_key_to_value(final(m)@, k, *final(v))
                 && (forall|k2: K| old(m)@.contains_key(k2) && !maps_borrowed_key_to_value(final(m)@, k, final(m)@[k2]) ==> final(m)@[k2] == old(m)@[k2]),
            None => !contains_borrowed_key(old(m)@, k) && final(m)@ == old(m)@,
        };

pub struct Conn { pub status: u8 }

pub struct Server {
    pub connections: HashMap<u64, Conn>,
}

impl Server {
    pub fn disconnect(&mut self, client_id: u64) 
      ensures final(self).connections@.dom() == old(self).connections@.dom(),
         old(self).connections@.contains_key(client_id) ==> final(self).connections@[client_id].status == 2,
    {
        if let Some(connection) = self.connections.get_mut(&client_id) {
            connection.status = 2;
        }
    }
}
} // verus!
fn main() {}
