// In-crate replay (needs the crate-private Packet type to craft the response): appended as a child test module to renetcode/src/server.rs.
// Defect 15 (C05 / C10): a connection response is accepted for a half-open session even when the challenge it echoes was
// issued for another client id; the slot check then looks at the wrong id and a second session with an already connected id is admitted.
#[cfg(test)]
mod verif_cross_challenge {
    use super::*;
    use crate::{client::NetcodeClient, packet::Packet, token::ConnectToken, ClientAuthentication};

    const KEY: &[u8; NETCODE_KEY_BYTES] = b"an example very very secret key.";
    const PROTOCOL: u64 = 7;

    fn server() -> NetcodeServer {
        NetcodeServer::new(ServerConfig {
            current_time: Duration::ZERO,
            max_clients: 8,
            protocol_id: PROTOCOL,
            public_addresses: vec!["127.0.0.1:5000".parse().unwrap()],
            authentication: ServerAuthentication::Secure { private_key: *KEY },
        })
    }

    fn token(client_id: u64, user: u8) -> ConnectToken {
        ConnectToken::generate(Duration::ZERO, PROTOCOL, 30, client_id, 15, vec!["127.0.0.1:5000".parse().unwrap()], Some(&[user; 256]), KEY).unwrap()
    }

    /// request -> challenge; returns the sealed challenge datagram the server answered with
    fn request(server: &mut NetcodeServer, client: &mut NetcodeClient, addr: SocketAddr) -> Vec<u8> {
        let (packet, _) = client.update(Duration::ZERO).unwrap();
        match server.process_packet(addr, packet) {
            ServerResult::PacketToSend { payload, .. } => payload.to_vec(),
            other => panic!("expected a challenge, got {:?}", other),
        }
    }

    #[test]
    fn response_with_a_challenge_issued_for_another_id_does_not_connect() {
        let mut server = server();
        let a1: SocketAddr = "10.0.0.1:1000".parse().unwrap();
        let a2: SocketAddr = "10.0.0.2:1000".parse().unwrap();
        let a3: SocketAddr = "10.0.0.3:1000".parse().unwrap();
        // the attacker legitimately owns two tokens for client id 7 and one for client id 9
        let (t1, t1b, t2) = (token(7, 1), token(7, 2), token(9, 3));
        let (k1b_c2s, k2_s2c) = (t1b.client_to_server_key, t2.server_to_client_key);

        // three half-open sessions: id 7 from a1, id 7 again (second token) from a2, id 9 from a3, whose challenge is captured
        let mut c1 = NetcodeClient::new(Duration::ZERO, ClientAuthentication::Secure { connect_token: t1 }).unwrap();
        let mut ch1 = request(&mut server, &mut c1, a1);
        let mut c2 = NetcodeClient::new(Duration::ZERO, ClientAuthentication::Secure { connect_token: t1b }).unwrap();
        let _ch2 = request(&mut server, &mut c2, a2);
        let mut c3 = NetcodeClient::new(Duration::ZERO, ClientAuthentication::Secure { connect_token: t2 }).unwrap();
        let mut ch3 = request(&mut server, &mut c3, a3);
        let (seq3, data3) = match Packet::decode(&mut ch3, PROTOCOL, Some(&k2_s2c), None).unwrap() {
            (_, Packet::Challenge { token_sequence, token_data }) => (token_sequence, token_data),
            _ => panic!("not a challenge"),
        };

        // session 1 completes normally: id 7 is connected from a1
        c1.process_packet(&mut ch1);
        let (resp, _) = c1.update(Duration::ZERO).unwrap();
        assert!(matches!(server.process_packet(a1, resp), ServerResult::ClientConnected { client_id: 7, .. }));

        // the response of session 2 (sealed under session 2's key) echoes the challenge issued for id 9
        let forged = Packet::Response { token_sequence: seq3, token_data: data3 };
        let mut buf = [0u8; NETCODE_MAX_PACKET_BYTES];
        let len = forged.encode(&mut buf, PROTOCOL, Some((1, &k1b_c2s))).unwrap();
        let result = server.process_packet(a2, &mut buf[..len]);
        let connected = matches!(result, ServerResult::ClientConnected { .. });
        drop(result);

        let mut ids = server.clients_id();
        ids.sort();
        let distinct = ids.windows(2).all(|w| w[0] != w[1]);
        assert!(!connected, "a response echoing a challenge issued for client 9 connected the half-open session of client 7");
        assert!(distinct, "connected client ids are not pairwise distinct: {:?}", ids);
    }
}
