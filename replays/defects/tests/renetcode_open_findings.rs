// Replays of the findings recorded as `known:` in /verif/known_findings.txt: genuine deviations from a property that were NOT repaired
// (see DESIGN.md section 6).  These tests FAIL on the present tree by design; bin/replay_defects reports them under "open findings".
use renetcode::ConnectToken;
use std::net::{Ipv6Addr, SocketAddr, SocketAddrV6};
use std::time::Duration;

/// C16 (U20 token round trip): the token format carries address and port only; an IPv6 socket address with a non-zero scope id or
/// flow label (e.g. a link-local `fe80::1%3`) is a value `ConnectToken::generate` accepts and stores, and `read(write(token))` differs from it.
#[test]
fn c16_token_with_scoped_ipv6_address_roundtrips() {
    let key = [9u8; 32];
    let addr = SocketAddr::V6(SocketAddrV6::new(Ipv6Addr::new(0xfe80, 0, 0, 0, 0, 0, 0, 1), 5000, 0, 3));
    let token = ConnectToken::generate(Duration::ZERO, 7, 300, 1, 15, vec![addr], None, &key).unwrap();
    let mut bytes = Vec::new();
    token.write(&mut bytes).unwrap();
    let back = ConnectToken::read(&mut std::io::Cursor::new(&bytes[..])).unwrap();
    assert_eq!(token.server_addresses[0], back.server_addresses[0]);
}
