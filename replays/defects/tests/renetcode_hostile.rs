// Replays against the REAL renetcode crate through its public API.
use renetcode::{ClientAuthentication, ConnectToken, NetcodeClient};
use std::time::Duration;

fn client() -> NetcodeClient {
    let auth = ClientAuthentication::Unsecure {
        protocol_id: 7,
        client_id: 1,
        server_addr: "127.0.0.1:5000".parse().unwrap(),
        user_data: None,
    };
    NetcodeClient::new(Duration::ZERO, auth).unwrap()
}

/// C07 (U11 decode_hostile_datagram: slice index check in read_sequence): announced sequence length 9..15
#[test]
fn c07_announced_sequence_length_above_8() {
    let mut c = client();
    let mut datagram = [0u8; 40];
    datagram[0] = 0xF5; // payload packet, 15 sequence bytes announced
    assert!(c.process_packet(&mut datagram).is_none());
}

/// C07 (U11: AEAD precondition, ciphertext shorter than the tag): `buffer.len() - 16` underflows
#[test]
fn c07_datagram_shorter_than_tag_after_sequence() {
    let mut c = client();
    let mut datagram = [0u8; 18];
    datagram[0] = 0x85; // payload packet, 8 sequence bytes -> 9 bytes left for "ciphertext + 16-byte tag"
    assert!(c.process_packet(&mut datagram).is_none());
}

/// C07 (U2 already_received: `sequence + 256` overflow): sequence numbers in the top 256 values
#[test]
fn c07_sequence_near_u64_max() {
    let mut c = client();
    let mut datagram = [0xFFu8; 40];
    datagram[0] = 0x85; // payload packet, 8 sequence bytes, all 0xFF
    assert!(c.process_packet(&mut datagram).is_none());
}

fn token_bytes(num_addresses: u32, create: u64, expire: u64) -> Vec<u8> {
    let mut b = Vec::new();
    b.extend_from_slice(&1u64.to_le_bytes()); // client id
    b.extend_from_slice(b"NETCODE 1.02\0");
    b.extend_from_slice(&7u64.to_le_bytes()); // protocol id
    b.extend_from_slice(&create.to_le_bytes());
    b.extend_from_slice(&expire.to_le_bytes());
    b.extend_from_slice(&[0u8; 24]); // xnonce
    b.extend_from_slice(&[0u8; 1024]); // private data
    b.extend_from_slice(&15i32.to_le_bytes()); // timeout
    b.extend_from_slice(&num_addresses.to_le_bytes());
    for _ in 0..num_addresses {
        b.push(1); // ipv4
        b.extend_from_slice(&[127, 0, 0, 1]);
        b.extend_from_slice(&5000u16.to_le_bytes());
    }
    b.extend_from_slice(&[0u8; 32]);
    b.extend_from_slice(&[0u8; 32]);
    b
}

/// C07 (U12 client_new_any_token): a token that lists no server address parses and then panics the client
#[test]
fn c07_token_without_server_address() {
    let bytes = token_bytes(0, 0, 100);
    match ConnectToken::read(&mut std::io::Cursor::new(&bytes[..])) {
        Err(_) => {}
        Ok(token) => {
            let _ = NetcodeClient::new(Duration::ZERO, ClientAuthentication::Secure { connect_token: token });
        }
    }
}

/// C07 (U12 client_update_any_token): expire_timestamp < create_timestamp underflows in update
#[test]
fn c07_token_expiring_before_creation() {
    let bytes = token_bytes(1, 100, 50);
    let token = ConnectToken::read(&mut std::io::Cursor::new(&bytes[..])).unwrap();
    let mut c = NetcodeClient::new(Duration::ZERO, ClientAuthentication::Secure { connect_token: token }).unwrap();
    let _ = c.update(Duration::from_millis(16));
    assert!(c.is_disconnected() || c.is_connecting());
}

/// C16 (U11 roundtrip_keepalive_disconnect_denied): a sealed packet with an empty body and sequence number 0 is
/// 1 + 0 + 16 = 17 bytes long, but decode refused everything below 18 bytes: the very first ConnectionDenied a server
/// ever sends (global sequence 0) cannot be decoded by the client, which keeps requesting instead of learning the denial.
#[test]
fn c16_sealed_empty_packet_with_sequence_zero_roundtrips() {
    use renetcode::{NetcodeServer, ServerAuthentication, ServerConfig, ServerResult};
    let key = [7u8; 32];
    let addr: std::net::SocketAddr = "127.0.0.1:5000".parse().unwrap();
    let mut server = NetcodeServer::new(ServerConfig {
        current_time: Duration::ZERO,
        max_clients: 0, // full from the start: every request is denied
        protocol_id: 7,
        public_addresses: vec![addr],
        authentication: ServerAuthentication::Secure { private_key: key },
    });
    let token = ConnectToken::generate(Duration::ZERO, 7, 300, 1, 15, vec![addr], None, &key).unwrap();
    let mut c = NetcodeClient::new(Duration::ZERO, ClientAuthentication::Secure { connect_token: token }).unwrap();
    let (request, _) = c.update(Duration::from_millis(300)).expect("client sends a connection request");
    let mut request = request.to_vec();
    let client_addr: std::net::SocketAddr = "127.0.0.1:6000".parse().unwrap();
    let mut denied = match server.process_packet(client_addr, &mut request) {
        ServerResult::PacketToSend { payload, .. } => payload.to_vec(),
        other => panic!("expected a denial packet, got {:?}", other),
    };
    // (17 bytes while the server numbered its handshake replies from 0; 25 bytes since the nonce-space fix, defect 16)
    c.process_packet(&mut denied);
    assert_eq!(c.disconnect_reason(), Some(renetcode::DisconnectReason::ConnectionDenied));
}

/// sequence number (the AEAD nonce) carried in the clear by a sealed netcode datagram: prefix byte = type | (sequence bytes << 4)
fn nonce_of(datagram: &[u8]) -> (u8, u64) {
    let n = (datagram[0] >> 4) as usize;
    let mut seq = 0u64;
    for i in 0..n {
        seq |= (datagram[1 + i] as u64) << (8 * i);
    }
    (datagram[0] & 0xF, seq)
}

/// C17 (U19 request.handshake_replies_use_the_upper_nonce_half): the server seals the challenge with `global_sequence` and the session's
/// packets with the connection's own counter, both from 0 and both under the token's server-to-client key: the first challenge and the first
/// keep-alive of the first client carry the same nonce
#[test]
fn c17_server_does_not_reuse_a_nonce_between_handshake_and_session() {
    use renetcode::{NetcodeServer, ServerAuthentication, ServerConfig, ServerResult};
    let key = *b"an example very very secret key.";
    let addr: std::net::SocketAddr = "127.0.0.1:5000".parse().unwrap();
    let mut server = NetcodeServer::new(ServerConfig {
        current_time: Duration::ZERO,
        max_clients: 4,
        protocol_id: 7,
        public_addresses: vec![addr],
        authentication: ServerAuthentication::Secure { private_key: key },
    });
    let token = ConnectToken::generate(Duration::ZERO, 7, 30, 42, 15, vec![addr], None, &key).unwrap();
    let mut client = NetcodeClient::new(Duration::ZERO, ClientAuthentication::Secure { connect_token: token }).unwrap();
    let from: std::net::SocketAddr = "10.0.0.9:4000".parse().unwrap();

    let mut sealed_by_server: Vec<Vec<u8>> = Vec::new();
    let (request, _) = client.update(Duration::ZERO).unwrap();
    match server.process_packet(from, request) {
        ServerResult::PacketToSend { payload, .. } => {
            sealed_by_server.push(payload.to_vec());
            client.process_packet(payload);
        }
        other => panic!("expected a challenge, got {:?}", other),
    }
    let (response, _) = client.update(Duration::ZERO).unwrap();
    match server.process_packet(from, response) {
        ServerResult::ClientConnected { payload, .. } => {
            sealed_by_server.push(payload.to_vec());
            client.process_packet(payload);
        }
        other => panic!("expected a connection, got {:?}", other),
    }
    assert!(client.is_connected());
    for _ in 0..3 {
        let (_, packet) = server.generate_payload_packet(42, &[1, 2, 3]).unwrap();
        sealed_by_server.push(packet.to_vec());
    }
    // all of these are sealed under the same server-to-client key of that one connect token
    let nonces: Vec<(u8, u64)> = sealed_by_server.iter().map(|d| nonce_of(d)).collect();
    for i in 0..nonces.len() {
        for j in i + 1..nonces.len() {
            assert!(
                nonces[i].1 != nonces[j].1 || sealed_by_server[i] == sealed_by_server[j],
                "two different datagrams sealed under one key with the same nonce {}: packet types {} and {}",
                nonces[i].1, nonces[i].0, nonces[j].0
            );
        }
    }
}

/// connect-token bytes with explicit address records: 0 = a record of type NONE (one byte), 4 = IPv4 record, 6 = IPv6 record
fn token_bytes_with_records(count: u32, records: &[u8]) -> Vec<u8> {
    let mut b = Vec::new();
    b.extend_from_slice(&1u64.to_le_bytes());
    b.extend_from_slice(b"NETCODE 1.02\0");
    b.extend_from_slice(&7u64.to_le_bytes());
    b.extend_from_slice(&0u64.to_le_bytes());
    b.extend_from_slice(&100u64.to_le_bytes());
    b.extend_from_slice(&[0u8; 24]);
    b.extend_from_slice(&[0u8; 1024]);
    b.extend_from_slice(&15i32.to_le_bytes());
    b.extend_from_slice(&count.to_le_bytes());
    for (i, r) in records.iter().enumerate() {
        match r {
            0 => b.push(0),
            4 => {
                b.push(1);
                b.extend_from_slice(&[10, 0, 0, i as u8]);
                b.extend_from_slice(&5000u16.to_le_bytes());
            }
            _ => {
                b.push(2);
                b.extend_from_slice(&[i as u8; 16]);
                b.extend_from_slice(&5000u16.to_le_bytes());
            }
        }
    }
    b.extend_from_slice(&[3u8; 32]);
    b.extend_from_slice(&[4u8; 32]);
    b
}

/// C16 (U20 read_server_addresses.decoded_list_is_dense): a byte string that decodes must re-encode to bytes that decode to the same value.
/// An address record of type 0 (NONE) leaves a hole in the decoded list; `write` closes the hole, so the second decoding differs from the first.
#[test]
fn c16_token_bytes_that_decode_reencode_to_the_same_token() {
    let bytes = token_bytes_with_records(2, &[0, 4]);
    let first = match ConnectToken::read(&mut std::io::Cursor::new(&bytes[..])) {
        Err(_) => return, // refusing such bytes is fine
        Ok(t) => t,
    };
    let mut again = Vec::new();
    first.write(&mut again).unwrap();
    let second = ConnectToken::read(&mut std::io::Cursor::new(&again[..])).unwrap();
    assert_eq!(first.server_addresses, second.server_addresses);
    assert_eq!(first, second);
}
