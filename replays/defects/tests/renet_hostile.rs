// Replays of genuine defects found by the contract checks (DESIGN.md section 6), against the REAL renet crate
// through its public API only.  Each test fails (panics / asserts) before the corresponding "fix:" commit.
use renet::{ConnectionConfig, DefaultChannel, RenetClient};

fn slice_packet(kind: u8, seq: u64, channel: u8, message_id: u64, slice_index: u64, num_slices: u64, payload: &[u8]) -> Vec<u8> {
    let mut buf = vec![0u8; 1400];
    let len = {
        let mut b = octets::OctetsMut::with_slice(&mut buf);
        b.put_u8(kind).unwrap();
        b.put_varint(seq).unwrap();
        b.put_u8(channel).unwrap();
        b.put_varint(message_id).unwrap();
        b.put_varint(slice_index).unwrap();
        b.put_varint(num_slices).unwrap();
        b.put_varint(payload.len() as u64).unwrap();
        b.put_bytes(payload).unwrap();
        b.off()
    };
    buf.truncate(len);
    buf
}

fn empty_unreliable_packet(seq: u64) -> Vec<u8> {
    let mut buf = vec![0u8; 32];
    let len = {
        let mut b = octets::OctetsMut::with_slice(&mut buf);
        b.put_u8(1).unwrap();
        b.put_varint(seq).unwrap();
        b.put_u8(0).unwrap(); // DefaultChannel::Unreliable
        b.put_u16(0).unwrap();
        b.off()
    };
    buf.truncate(len);
    buf
}

fn connected_client() -> RenetClient {
    let mut c = RenetClient::new(ConnectionConfig::default());
    c.set_connected();
    c
}

/// C06 (U3 process_slice.index_out_of_range_refused): slice_index >= num_slices must not panic
#[test]
fn c06_slice_index_out_of_range_reliable() {
    let mut client = connected_client();
    let p = slice_packet(2, 0, 2, 0, 5, 2, &[7u8; 1200]);
    client.process_packet(&p); // panicked: index out of bounds
    // either processed or disconnected with a reason -- but it returned
    let _ = client.is_disconnected();
}

#[test]
fn c06_slice_index_out_of_range_unreliable() {
    let mut client = connected_client();
    let p = slice_packet(3, 0, 0, 0, 7, 3, &[7u8; 1200]);
    client.process_packet(&p);
    let _ = client.is_disconnected();
}

/// C06/C09 (U4 process_slice `memory_usage_bytes -= slice.num_slices * SLICE_SIZE`): a later slice announcing a
/// larger slice count than the one the reassembly buffer was reserved with makes the accounting wrap (panic in debug)
#[test]
fn c06_c09_slice_count_mismatch_reliable() {
    let mut client = connected_client();
    client.process_packet(&slice_packet(2, 0, 2, 0, 0, 2, &[1u8; 1200]));
    client.process_packet(&slice_packet(2, 1, 2, 0, 1, 100_000, &[2u8; 10]));
    let _ = client.is_disconnected();
}

#[test]
fn c06_c09_slice_count_mismatch_unreliable() {
    let mut client = connected_client();
    client.process_packet(&slice_packet(3, 0, 0, 0, 0, 2, &[1u8; 1200]));
    client.process_packet(&slice_packet(3, 1, 0, 0, 1, 100_000, &[2u8; 10]));
    let _ = client.is_disconnected();
}

/// C09/C02 (U4 process_slice.slices_of_done_message_ignored / clean_preserved): on a ReliableUnordered channel a
/// duplicated slice of a message that was already handed to the application (while an older message is still
/// missing) reserves reassembly memory that never comes back; enough of them exhaust the channel budget and
/// disconnect a connection whose traffic is within budget and whose application drains promptly.
#[test]
fn c09_duplicate_slices_after_consumption_leak_unordered() {
    let mut client = connected_client();
    let channel: u8 = DefaultChannel::ReliableUnordered.into();
    let mut seq = 0u64;
    // message id 0 is never delivered (lost, to be retransmitted later): the cursor stays at 0
    for message_id in 1..=3000u64 {
        let s0 = slice_packet(2, seq, channel, message_id, 0, 2, &[1u8; 1200]);
        seq += 1;
        let s1 = slice_packet(2, seq, channel, message_id, 1, 2, &[2u8; 1]);
        seq += 1;
        client.process_packet(&s0);
        client.process_packet(&s1);
        assert!(
            !client.is_disconnected(),
            "disconnected after {} messages although every message was drained at once: {:?}",
            message_id,
            client.disconnect_reason()
        );
        let m = client.receive_message(channel).expect("complete message is handed over at once");
        assert_eq!(m.len(), 1201);
        // the network duplicates the first slice (late retransmission)
        client.process_packet(&s0);
        assert!(
            !client.is_disconnected(),
            "disconnected after {} messages: {:?}",
            message_id,
            client.disconnect_reason()
        );
    }
}

/// C13/C08 (U1 add_pending_ack.at_most_64_ranges): packets arriving in descending order with gaps grow the pending
/// ack list without bound; the ack packet then no longer fits and serialization fails -> the connection drops itself
#[test]
fn c13_pending_acks_unbounded_on_descending_arrival() {
    let mut client = connected_client();
    let mut seq = 4000u64;
    for _ in 0..1000 {
        client.process_packet(&empty_unreliable_packet(seq));
        seq -= 2;
    }
    let packets = client.get_packets_to_send();
    assert!(!client.is_disconnected(), "disconnected: {:?}", client.disconnect_reason());
    for p in packets {
        assert!(p.len() <= 1300, "packet of {} bytes", p.len());
    }
}

/// C09 (U5 discard.every_stale_fragment_collected): the scan for stale unreliable fragments stopped at the first fresh
/// message id; a stale fragment with a higher id stayed accounted for as long as a lower id kept receiving (duplicate)
/// slices, so "stop counting after 3 s without progress" did not hold and in-budget messages were dropped.
#[test]
fn c09_stale_unreliable_fragment_behind_a_fresh_one_is_discarded() {
    use renet::{ChannelConfig, SendType};
    use std::time::Duration;
    let config = ConnectionConfig {
        available_bytes_per_tick: 60_000,
        server_channels_config: vec![ChannelConfig { channel_id: 0, max_memory_usage_bytes: 4800, send_type: SendType::Unreliable }],
        client_channels_config: vec![ChannelConfig { channel_id: 0, max_memory_usage_bytes: 4800, send_type: SendType::Unreliable }],
    };
    let mut client = RenetClient::new(config);
    client.set_connected();
    // t = 0: first slice of two 2-slice messages (ids 0 and 1): 2 x 2400 bytes reserved = the whole budget
    let first_of_0 = slice_packet(3, 0, 0, 0, 0, 2, &[1u8; 1200]);
    client.process_packet(&first_of_0);
    client.process_packet(&slice_packet(3, 1, 0, 1, 0, 2, &[2u8; 1200]));
    // t = 2.5 s: the network duplicates the first slice of message 0 (refreshes its timer)
    client.update(Duration::from_millis(2500));
    client.process_packet(&first_of_0);
    // t = 3.5 s: message 1 made no progress for 3.5 s and must stop counting
    client.update(Duration::from_millis(1000));
    // a complete 2-slice message (id 2) now fits the budget again
    client.process_packet(&slice_packet(3, 2, 0, 2, 0, 2, &[3u8; 1200]));
    client.process_packet(&slice_packet(3, 3, 0, 2, 1, 2, &[3u8; 10]));
    assert!(!client.is_disconnected());
    let m = client.receive_message(0u8).expect("in-budget message dropped: a stale fragment was still accounted after 3 s");
    assert_eq!(m.len(), 1210);
}
