
// ===== appended by /verif/engine/kani_run.py to a scratch copy of renetcode/src/server.rs (never to /repo) =====
// U21: the four one-line lookup helpers of the connection table (`iter().flatten().find(..)`, `iter().enumerate().find_map(..)`): iterator chains
// outside Verus' subset, which unit U19 uses through ASSUMED contracts.  These harnesses check exactly those contract clauses on the real functions
// for every table of N_SLOTS = 4 slots (any occupancy, any ids, any addresses): a BOUNDED stand-in (the functions are uniform in the table length,
// but that is not proved), labelled bounded and never counted as proved.
#[cfg(kani)]
#[allow(dead_code, unused_imports, unused_variables)]
pub(crate) mod verif_kani {
    use super::*;
    use std::net::{IpAddr, Ipv4Addr};

    const N_SLOTS: usize = 4;

    fn any_conn() -> Connection {
        Connection {
            confirmed: kani::any(),
            client_id: kani::any(),
            state: ConnectionState::Connected,
            send_key: [0u8; NETCODE_KEY_BYTES],
            receive_key: [0u8; NETCODE_KEY_BYTES],
            user_data: [0u8; NETCODE_USER_DATA_BYTES],
            addr: SocketAddr::new(IpAddr::V4(Ipv4Addr::from(kani::any::<[u8; 4]>())), kani::any()),
            last_packet_received_time: Duration::ZERO,
            last_packet_send_time: Duration::ZERO,
            timeout_seconds: 15,
            sequence: 0,
            expire_timestamp: 0,
            replay_protection: ReplayProtection::new(),
        }
    }

    fn any_table() -> [Option<Connection>; N_SLOTS] {
        [
            if kani::any() { Some(any_conn()) } else { None },
            if kani::any() { Some(any_conn()) } else { None },
            if kani::any() { Some(any_conn()) } else { None },
            if kani::any() { Some(any_conn()) } else { None },
        ]
    }

    fn id_connected(t: &[Option<Connection>; N_SLOTS], id: u64) -> bool {
        let mut i = 0;
        while i < N_SLOTS {
            if let Some(c) = &t[i] {
                if c.client_id == id {
                    return true;
                }
            }
            i += 1;
        }
        false
    }

    fn addr_connected(t: &[Option<Connection>; N_SLOTS], addr: SocketAddr) -> bool {
        let mut i = 0;
        while i < N_SLOTS {
            if let Some(c) = &t[i] {
                if c.addr == addr {
                    return true;
                }
            }
            i += 1;
        }
        false
    }

    // @harness table_slot_by_id_bounded unit=U21 props=C10 tier=quick kind=bounded timeout=900 :: BOUND 4-slot table: find_client_slot_by_id(t, id) is Some exactly when some slot holds a session with that id, and then names the index of such a slot (the contract U19 assumes)
    #[kani::proof]
    #[kani::unwind(6)]
    fn table_slot_by_id_bounded() {
        let t = any_table();
        let id: u64 = kani::any();
        match find_client_slot_by_id(&t, id) {
            Some(i) => {
                assert!(i < N_SLOTS);
                assert!(matches!(&t[i], Some(c) if c.client_id == id));
            }
            None => assert!(!id_connected(&t, id)),
        }
    }

    // @harness table_client_by_id_bounded unit=U21 props=C10 tier=quick kind=bounded timeout=900 :: BOUND 4-slot table: find_client_by_id / find_client_mut_by_id return a session of the table with that id exactly when there is one, and do not change the table
    #[kani::proof]
    #[kani::unwind(6)]
    fn table_client_by_id_bounded() {
        let mut t = any_table();
        let id: u64 = kani::any();
        let connected = id_connected(&t, id);
        match find_client_by_id(&t, id) {
            Some(c) => {
                assert!(connected && c.client_id == id);
                let mut from_table = false;
                let mut i = 0;
                while i < N_SLOTS {
                    if let Some(x) = &t[i] {
                        if std::ptr::eq(x, c) {
                            from_table = true;
                        }
                    }
                    i += 1;
                }
                assert!(from_table);
            }
            None => assert!(!connected),
        }
        let ids_before = [t[0].as_ref().map(|c| c.client_id), t[1].as_ref().map(|c| c.client_id), t[2].as_ref().map(|c| c.client_id), t[3].as_ref().map(|c| c.client_id)];
        match find_client_mut_by_id(&mut t, id) {
            Some(c) => assert!(connected && c.client_id == id),
            None => assert!(!connected),
        }
        let ids_after = [t[0].as_ref().map(|c| c.client_id), t[1].as_ref().map(|c| c.client_id), t[2].as_ref().map(|c| c.client_id), t[3].as_ref().map(|c| c.client_id)];
        assert!(ids_before == ids_after);
    }

    // @harness table_client_by_addr_bounded unit=U21 props=C10,C04 tier=quick kind=bounded timeout=900 :: BOUND 4-slot table: find_client_mut_by_addr returns (slot, session) with that address exactly when a session has it; the slot index is the session's own
    #[kani::proof]
    #[kani::unwind(6)]
    fn table_client_by_addr_bounded() {
        let mut t = any_table();
        let addr = SocketAddr::new(IpAddr::V4(Ipv4Addr::from(kani::any::<[u8; 4]>())), kani::any());
        let connected = addr_connected(&t, addr);
        let ids = [t[0].as_ref().map(|c| c.client_id), t[1].as_ref().map(|c| c.client_id), t[2].as_ref().map(|c| c.client_id), t[3].as_ref().map(|c| c.client_id)];
        let addrs = [t[0].as_ref().map(|c| c.addr), t[1].as_ref().map(|c| c.addr), t[2].as_ref().map(|c| c.addr), t[3].as_ref().map(|c| c.addr)];
        match find_client_mut_by_addr(&mut t, addr) {
            Some((slot, c)) => {
                assert!(connected && slot < N_SLOTS && c.addr == addr);
                assert!(addrs[slot] == Some(addr) && ids[slot] == Some(c.client_id));
            }
            None => assert!(!connected),
        }
    }
}
