
// ===== appended by /verif/engine/kani_run.py to a scratch copy of renetcode/src/client.rs (never to /repo) =====
// U12: NetcodeClient step contracts.  The harnesses build a client from an ARBITRARY ConnectToken value (every field
// symbolic), put it into an arbitrary protocol state with arbitrary timers, and check one call.  `Packet::decode` and
// `Packet::encode` are replaced by their contract views (proved in unit U11): decode answers anything, encode seals with the
// sequence it is given.  All harnesses are loop-free => complete for the whole symbolic domain (timers bounded as stated).
#[cfg(kani)]
#[allow(dead_code, unused_imports, unused_variables, static_mut_refs)]
pub(crate) mod verif_kani {
    use super::*;
    use crate::packet::Packet;
    use std::net::{IpAddr, Ipv4Addr, SocketAddr};

    fn any_addr() -> Option<SocketAddr> {
        if kani::any() {
            let ip: [u8; 4] = kani::any();
            Some(SocketAddr::new(IpAddr::V4(Ipv4Addr::from(ip)), kani::any()))
        } else {
            None
        }
    }

    /// any ConnectToken VALUE (not only those ConnectToken::generate builds): hostile tokens are parsed from bytes
    fn any_token() -> ConnectToken {
        let mut server_addresses = [None; 32];
        // the client only ever looks at entries 0 and server_addr_index + 1: three symbolic slots (0, i, i+1) cover every use
        server_addresses[0] = any_addr();
        let i: usize = kani::any();
        kani::assume(i < 31);
        server_addresses[i] = any_addr();
        server_addresses[i + 1] = any_addr();
        ConnectToken {
            client_id: kani::any(),
            version_info: kani::any(),
            protocol_id: kani::any(),
            create_timestamp: kani::any(),
            expire_timestamp: kani::any(),
            xnonce: kani::any(),
            server_addresses,
            client_to_server_key: kani::any(),
            server_to_client_key: kani::any(),
            private_data: [0u8; 1024],
            timeout_seconds: kani::any(),
        }
    }

    fn any_time() -> Duration {
        // bound: application clocks below 2^40 s (~35000 years); needed only so that `+=` on Duration cannot overflow
        let secs: u64 = kani::any();
        kani::assume(secs < (1u64 << 40));
        let nanos: u32 = kani::any();
        kani::assume(nanos < 1_000_000_000);
        Duration::new(secs, nanos)
    }

    fn any_state() -> ClientState {
        let k: u8 = kani::any();
        match k & 3 {
            0 => ClientState::SendingConnectionRequest,
            1 => ClientState::SendingConnectionResponse,
            2 => ClientState::Connected,
            _ => {
                let r: u8 = kani::any();
                ClientState::Disconnected(match r % 7 {
                    0 => DisconnectReason::ConnectTokenExpired,
                    1 => DisconnectReason::ConnectionTimedOut,
                    2 => DisconnectReason::ConnectionResponseTimedOut,
                    3 => DisconnectReason::ConnectionRequestTimedOut,
                    4 => DisconnectReason::ConnectionDenied,
                    5 => DisconnectReason::DisconnectedByClient,
                    _ => DisconnectReason::DisconnectedByServer,
                })
            }
        }
    }

    /// a client in any state the fields allow, with timers that respect "no timestamp lies in the future"
    fn any_client() -> Option<NetcodeClient> {
        let token = any_token();
        let now = any_time();
        let mut c = match NetcodeClient::new(now, ClientAuthentication::Secure { connect_token: token }) {
            Ok(c) => c,
            Err(_) => return None,
        };
        c.state = any_state();
        c.sequence = kani::any();
        kani::assume(c.sequence < (1u64 << 62));
        let t1 = any_time();
        let t2 = any_time();
        let t3 = any_time();
        kani::assume(t1 <= now && t2 <= now && t3 <= now);
        c.connect_start_time = t1;
        c.last_packet_received_time = t2;
        c.last_packet_send_time = if kani::any() { Some(t3) } else { None };
        c.server_addr_index = kani::any();
        kani::assume(c.server_addr_index < 32);
        c.challenge_token_sequence = kani::any();
        Some(c)
    }

    fn same_state(a: &ClientState, b: &ClientState) -> bool {
        a == b
    }

    // ---------------------------------------------------------------------------------------------------------------
    // @harness client_new_any_token unit=U12 props=C07 tier=quick kind=complete timeout=900 :: NetcodeClient::new returns (Ok or Err) for ANY ConnectToken value, e.g. one without a first server address
    #[kani::proof]
    #[kani::unwind(40)]
    fn client_new_any_token() {
        let token = any_token();
        let first = token.server_addresses[0];
        let id = token.client_id;
        let now = any_time();
        match NetcodeClient::new(now, ClientAuthentication::Secure { connect_token: token }) {
            Ok(c) => {
                assert!(first.is_some() && c.server_addr == first.unwrap());
                assert!(c.state == ClientState::SendingConnectionRequest && c.sequence == 0 && c.client_id == id);
            }
            Err(_) => assert!(first.is_none()),
        }
    }

    // ---------------------------------------------------------------------------------------------------------------
    // contract view of Packet::encode inside the client: records the sequence it is asked to seal with
    static mut SEALED: u32 = 0;
    static mut SEALED_SEQ: u64 = 0;
    static mut SEALED_WITH_C2S: bool = false;
    static mut EXPECT_KEY0: u8 = 0;

    pub fn stub_encode<'a>(p: &Packet<'a>, buffer: &mut [u8], _protocol_id: u64, crypto_info: Option<(u64, &[u8; 32])>) -> Result<usize, NetcodeError>
    where 'a: 'a,   // makes 'a early-bound, like the lifetime of `impl<'a> Packet<'a>` (Kani compares generic parameter counts)
    {
        unsafe {
            SEALED += 1;
            if let Some((s, k)) = crypto_info {
                SEALED_SEQ = s;
                SEALED_WITH_C2S = k[0] == EXPECT_KEY0;
            }
        }
        let n: usize = kani::any();
        kani::assume(n <= buffer.len());
        if kani::any() { Ok(n) } else { Err(NetcodeError::UnavailablePrivateKey) }
    }

    // @harness client_update_step unit=U12 props=C07,C17,C18 tier=quick kind=complete timeout=1500 :: NetcodeClient::update from ANY state/timers/token (clock < 2^40 s, tick < 2^32 s): returns; timeouts, expiry and next-address rules hold; a packet is produced only if >= 250 ms passed since the last one; it is sealed with the current sequence, which then increases
    #[kani::proof]
    #[kani::unwind(40)]
    #[kani::stub(crate::packet::Packet::encode, stub_encode)]
    fn client_update_step() {
        let Some(mut c) = any_client() else { return; };
        let secs: u32 = kani::any();
        let tick = Duration::new(secs as u64, 0) + Duration::from_millis(kani::any::<u16>() as u64);
        let state0 = match c.state {
            ClientState::SendingConnectionRequest => 0u8,
            ClientState::SendingConnectionResponse => 1,
            ClientState::Connected => 2,
            ClientState::Disconnected(_) => 3,
        };
        let reason0 = c.disconnect_reason();
        let seq0 = c.sequence;
        let now1 = c.current_time + tick;
        let timeout = c.connect_token.timeout_seconds;
        let last_recv = c.last_packet_received_time;
        let last_send = c.last_packet_send_time;
        let idx0 = c.server_addr_index;
        let next_addr = if idx0 + 1 < 32 { c.connect_token.server_addresses[idx0 + 1] } else { None };
        let timed_out = timeout > 0 && last_recv + Duration::from_secs(timeout as u64) < now1;
        unsafe { SEALED = 0; EXPECT_KEY0 = c.connect_token.client_to_server_key[0]; }
        let produced = c.update(tick).is_some();
        let sealed = unsafe { SEALED };
        assert!(c.current_time == now1);
        // C12-like finality at the netcode layer: a disconnected client stays disconnected with its reason, produces nothing
        if state0 == 3 {
            assert!(c.disconnect_reason() == reason0 && !produced && sealed == 0 && c.sequence == seq0);
        }
        // C18: a connected peer that was silent for longer than the token's timeout is disconnected at this update, not earlier
        if state0 == 2 {
            if timed_out {
                assert!(c.state == ClientState::Disconnected(DisconnectReason::ConnectionTimedOut) && !produced && sealed == 0);
            } else {
                assert!(c.state == ClientState::Connected);
            }
        }
        // C18: a connecting client that timed out moves to the next listed address and restarts its timers, or gives up
        if state0 <= 1 && !c.is_disconnected() && timed_out {
            assert!(next_addr.is_some() && c.server_addr == next_addr.unwrap() && c.server_addr_index == idx0 + 1);
            assert!(c.state == ClientState::SendingConnectionRequest && c.connect_start_time == now1 && c.last_packet_received_time == now1);
        }
        // send rate: at most one packet per 250 ms; one is produced when due and the client is alive and sealing succeeds
        if produced {
            assert!(sealed == 1 && !c.is_disconnected());
            assert!(c.sequence == seq0 + 1);                       // C17: the nonce counter strictly increases with every sealed packet
            assert!(unsafe { SEALED_SEQ } == seq0 && unsafe { SEALED_WITH_C2S });
            if let Some(t) = last_send {
                if !(state0 <= 1 && timed_out) { assert!(now1 - t >= Duration::from_millis(250)); }
            }
        } else {
            assert!(c.sequence == seq0);
        }
    }

    // ---------------------------------------------------------------------------------------------------------------
    // contract view of Packet::decode inside the client: any verdict, any packet kind
    static mut DECODE_OK: bool = false;
    static mut DECODE_KIND: u8 = 0;
    static PAYLOAD: [u8; 4] = [1, 2, 3, 4];

    pub fn stub_decode<'a>(
        _buffer: &'a mut [u8],
        _protocol_id: u64,
        _private_key: Option<&[u8; 32]>,
        _replay_protection: Option<&mut ReplayProtection>,
    ) -> Result<(u64, Packet<'a>), NetcodeError>
    where 'a: 'a,
    {
        unsafe {
            if !DECODE_OK {
                return Err(NetcodeError::CryptoError);
            }
            let p = match DECODE_KIND {
                1 => Packet::ConnectionDenied,
                2 => Packet::Challenge { token_sequence: kani::any(), token_data: [7u8; 300] },
                3 => Packet::Response { token_sequence: kani::any(), token_data: [7u8; 300] },
                4 => Packet::KeepAlive { client_index: kani::any(), max_clients: kani::any() },
                5 => Packet::Payload(&PAYLOAD),
                _ => Packet::Disconnect,
            };
            Ok((kani::any(), p))
        }
    }

    // @harness client_process_packet_step unit=U12 props=C04,C07,C18 tier=quick kind=complete timeout=1500 :: NetcodeClient::process_packet from ANY state: a datagram that does not decode changes no field (no state change, no timer refresh); a payload surfaces only in Connected and only from a decoded Payload packet; a replayable handshake packet (denied/challenge/response) that the current state ignores moves no timer and no field
    #[kani::proof]
    #[kani::unwind(40)]
    #[kani::stub(crate::packet::Packet::decode, stub_decode)]
    fn client_process_packet_step() {
        let Some(mut c) = any_client() else { return; };
        let ok: bool = kani::any();
        let kind: u8 = kani::any();
        kani::assume(kind >= 1 && kind <= 6);
        unsafe { DECODE_OK = ok; DECODE_KIND = kind; }
        let connected0 = c.state == ClientState::Connected;
        let disc0 = c.is_disconnected();
        let reason0 = c.disconnect_reason();
        let recv0 = c.last_packet_received_time;
        let send0 = c.last_packet_send_time;
        let seq0 = c.sequence;
        let idx0 = c.server_addr_index;
        let chal0 = c.challenge_token_sequence;
        let st0 = match c.state { ClientState::SendingConnectionRequest => 0u8, ClientState::SendingConnectionResponse => 1, ClientState::Connected => 2, _ => 3 };
        let mut datagram = [0u8; 32];
        let surfaced = c.process_packet(&mut datagram).is_some();
        let st1 = match c.state { ClientState::SendingConnectionRequest => 0u8, ClientState::SendingConnectionResponse => 1, ClientState::Connected => 2, _ => 3 };
        if !ok {
            // C07: not authentic for this session => nothing observable changes, no timeout is refreshed
            assert!(!surfaced && st1 == st0 && c.disconnect_reason() == reason0);
            assert!(c.last_packet_received_time == recv0 && c.last_packet_send_time == send0 && c.sequence == seq0);
            assert!(c.server_addr_index == idx0 && c.challenge_token_sequence == chal0);
        }
        // C04: a payload surfaces only on a connected session, from a packet that decoded under the session key
        if surfaced {
            assert!(ok && kind == 5 && connected0 && st1 == 2);
        }
        if ok && kind == 5 && connected0 {
            assert!(surfaced);
        }
        // a disconnected client is never revived by any packet
        if disc0 {
            assert!(c.disconnect_reason() == reason0 && !surfaced);
        }
        // C18: "forged or replayed packets do not postpone a timeout".  ConnectionDenied, Challenge and Response are not replay-protected
        // (Packet::decode consults the window for KeepAlive/Payload/Disconnect only), so a recorded copy decodes every time it is presented:
        // such a packet may move the receive timer only in a state whose arm acts on it -- and every such arm leaves that state, so a replay
        // cannot repeat it.  Everywhere else it is ignored: no timer, no state, no field.
        let acted = match (kind, st0) { (1, 0) | (1, 1) | (2, 0) => true, _ => false };
        if ok && kind <= 3 && !acted {
            assert!(c.last_packet_received_time == recv0 && c.last_packet_send_time == send0 && st1 == st0);
            assert!(c.challenge_token_sequence == chal0 && c.server_addr_index == idx0 && c.disconnect_reason() == reason0);
        }
        if ok && kind <= 3 && acted {
            assert!(st1 != st0);
        }
        // receiving never touches the nonce counter
        assert!(c.sequence == seq0);
    }

    // @harness client_payload_packet_nonce unit=U12 props=C13,C17 tier=quick kind=complete timeout=900 :: generate_payload_packet: refused above 1300 bytes or when not connected; otherwise sealed exactly once with (current sequence, client-to-server key) and the sequence increases
    #[kani::proof]
    #[kani::unwind(40)]
    #[kani::stub(crate::packet::Packet::encode, stub_encode)]
    fn client_payload_packet_nonce() {
        let Some(mut c) = any_client() else { return; };
        static BIG: [u8; 1400] = [0u8; 1400];
        let len: usize = kani::any();
        kani::assume(len <= 1400);
        let connected = c.state == ClientState::Connected;
        let seq0 = c.sequence;
        unsafe { SEALED = 0; EXPECT_KEY0 = c.connect_token.client_to_server_key[0]; }
        let ok = c.generate_payload_packet(&BIG[..len]).is_ok();
        let sealed = unsafe { SEALED };
        if len > 1300 || !connected {
            assert!(!ok && sealed == 0 && c.sequence == seq0);
        }
        if ok {
            assert!(sealed == 1 && unsafe { SEALED_SEQ } == seq0 && unsafe { SEALED_WITH_C2S } && c.sequence == seq0 + 1);
        } else {
            assert!(c.sequence == seq0);
        }
    }
}
