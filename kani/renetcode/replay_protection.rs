
// ===== appended by /verif/engine/kani_run.py to a scratch copy of renetcode/src/replay_protection.rs =====
#[cfg(kani)]
#[allow(dead_code)]
pub(crate) mod verif_kani {
    use super::*;
    /// field-wise equality of two windows (fields are private to this module)
    pub fn same_window(a: &ReplayProtection, b: &ReplayProtection) -> bool {
        // "for all slots" through one nondeterministic index (avoids a 2048-byte memcmp loop)
        let i: usize = kani::any();
        kani::assume(i < NETCODE_REPLAY_BUFFER_SIZE);
        a.most_recent_sequence == b.most_recent_sequence && a.received_packet[i] == b.received_packet[i]
    }
    pub fn most_recent(a: &ReplayProtection) -> u64 {
        a.most_recent_sequence
    }
}
