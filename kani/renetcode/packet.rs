
// ===== appended by /verif/engine/kani_run.py to a scratch copy of renetcode/src/packet.rs (never to /repo) =====
#[cfg(kani)]
#[allow(dead_code, unused_imports, unused_variables, static_mut_refs)]
pub(crate) mod verif_kani {
// Kani harness module appended to a scratch copy of the renetcode crate (never to /repo).
// It sits inside the crate so it reaches private items; the crate sources are untouched copies.
// Pre/post-conditions are plain assertions here (Kani contract attributes would have to be written
// on the functions in /repo).  AEAD is replaced by stubs that CHECK the callee's precondition
// (buffer.len() >= 16) and return a nondeterministic verdict: the callee-contract view of chacha20poly1305.
use super::*;
use crate::replay_protection::verif_kani::*;
use chacha20poly1305::aead::Error as CryptoError;

static mut DEC_CALLS: u32 = 0;
static mut DEC_LAST_SEQ: u64 = 0;
static mut DEC_LAST_LEN: usize = 0;
static mut DEC_LAST_AAD: [u8; 22] = [0; 22];
static mut DEC_AAD_LEN: usize = 0;
static mut DEC_VERDICT: bool = false;

/// contract view of `dencrypted_in_place`: requires buffer.len() >= 16 (tag), result nondeterministic
pub fn stub_decrypt(buffer: &mut [u8], sequence: u64, _private_key: &[u8; 32], aad: &[u8]) -> Result<(), CryptoError> {
    assert!(buffer.len() >= 16, "AEAD precondition: ciphertext shorter than the 16-byte tag");
    unsafe {
        DEC_CALLS += 1;
        DEC_LAST_SEQ = sequence;
        DEC_LAST_LEN = buffer.len();
        DEC_AAD_LEN = aad.len();
        if aad.len() == 22 {
            let mut i = 0;
            while i < 22 {
                DEC_LAST_AAD[i] = aad[i];
                i += 1;
            }
        }
        if DEC_VERDICT { Ok(()) } else { Err(CryptoError) }
    }
}

static mut ENC_CALLS: u32 = 0;
static mut ENC_LAST_SEQ: u64 = 0;
static mut ENC_LAST_LEN: usize = 0;

/// contract view of `encrypt_in_place`: requires buffer.len() >= 16; identity on the plaintext
pub fn stub_encrypt(buffer: &mut [u8], sequence: u64, _key: &[u8; 32], _aad: &[u8]) -> Result<(), CryptoError> {
    assert!(buffer.len() >= 16, "AEAD precondition: buffer shorter than the 16-byte tag");
    unsafe {
        ENC_CALLS += 1;
        ENC_LAST_SEQ = sequence;
        ENC_LAST_LEN = buffer.len();
    }
    Ok(())
}

// Contract view of the replay window inside `decode` (its own contract is proved for all inputs in unit U2, Verus):
// `already_received` answers anything; `advance_sequence` is only recorded.  What `decode` is checked for is the
// ORDER: window test before the AEAD, advance only after the AEAD accepted, nothing touched otherwise.
static mut RP_ASKED: u32 = 0;
static mut RP_ASKED_SEQ: u64 = 0;
static mut RP_ANSWER: bool = false;
static mut RP_ADVANCED: u32 = 0;
static mut RP_ADVANCED_SEQ: u64 = 0;
static mut RP_ADVANCED_AFTER_DEC: bool = false;

pub fn stub_already_received(_rp: &ReplayProtection, sequence: u64) -> bool {
    unsafe {
        RP_ASKED += 1;
        RP_ASKED_SEQ = sequence;
        assert!(DEC_CALLS == 0, "window must be consulted before the AEAD is invoked");
        RP_ANSWER
    }
}

pub fn stub_advance_sequence(_rp: &mut ReplayProtection, sequence: u64) {
    unsafe {
        RP_ADVANCED += 1;
        RP_ADVANCED_SEQ = sequence;
        RP_ADVANCED_AFTER_DEC = DEC_CALLS == 1 && DEC_VERDICT;
    }
}

// ------------------------------------------------------------------------------------------------
// U11-a  prefix byte and variable-length sequence: all u64, all 7 packet types (complete: loops are width-bounded)
// @harness prefix_sequence_roundtrip unit=U11 props=C16,C13 tier=quick kind=complete timeout=300 :: all u64 sequences x 7 packet types: prefix byte and variable-length sequence round trip, length classes 0..8
#[kani::proof]
#[kani::unwind(10)]
fn prefix_sequence_roundtrip() {
    let seq: u64 = kani::any();
    let ty: u8 = kani::any();
    kani::assume(ty <= 6);
    let n = sequence_bytes_required(seq);
    assert!(n <= 8);
    assert!(n == 8 || seq < (1u64 << (8 * n as u32)));
    assert!(n == 0 || seq >= (1u64 << (8 * (n as u32 - 1))));
    let p = encode_prefix(ty, seq);
    let (t2, n2) = decode_prefix(p);
    assert!(t2 == ty && n2 == n);
    let mut buf = [0u8; 8];
    let mut w = std::io::Cursor::new(&mut buf[..]);
    let written = write_sequence(&mut w, seq).unwrap();
    assert!(written == n);
    let mut r = std::io::Cursor::new(&buf[..]);
    let back = read_sequence(&mut r, n2).unwrap();
    assert!(back == seq);
}

// ------------------------------------------------------------------------------------------------
// U11-b  Packet::decode on a hostile datagram: every prefix byte, every announced sequence length, every
// datagram length 0..=N, any key, any window state.  Loop-free once the AEAD is stubbed.
const N_QUICK: usize = 48;

// @harness decode_hostile_datagram unit=U11 props=C04,C07,C17,C19 tier=quick kind=complete timeout=900 :: Packet::decode over every datagram of length 0..=48 (all 256 prefix bytes, all announced sequence lengths 0..15), any key / no key, any window answer, AEAD stubbed by its contract
#[kani::proof]
#[kani::unwind(24)]
#[kani::stub(crate::crypto::dencrypted_in_place, stub_decrypt)]
#[kani::stub(crate::replay_protection::ReplayProtection::already_received, stub_already_received)]
#[kani::stub(crate::replay_protection::ReplayProtection::advance_sequence, stub_advance_sequence)]
fn decode_hostile_datagram() {
    let mut buf: [u8; N_QUICK] = kani::any();
    let len: usize = kani::any();
    kani::assume(len <= N_QUICK);
    let protocol_id: u64 = kani::any();
    let key: [u8; 32] = kani::any();
    let mut rp = ReplayProtection::new();
    let verdict: bool = kani::any();
    let answer: bool = kani::any();
    unsafe { DEC_VERDICT = verdict; DEC_CALLS = 0; RP_ANSWER = answer; RP_ASKED = 0; RP_ADVANCED = 0; }
    let with_key: bool = kani::any();
    let with_window: bool = kani::any();
    let prefix = buf[0];
    let res = Packet::decode(&mut buf[..len], protocol_id, if with_key { Some(&key) } else { None }, if with_window { Some(&mut rp) } else { None });
    let calls = unsafe { DEC_CALLS };
    let (asked, advanced) = unsafe { (RP_ASKED, RP_ADVANCED) };
    assert!(calls <= 1 && asked <= 1 && advanced <= 1);
    // C07/C04: the window is advanced only after the AEAD accepted this very datagram
    if advanced == 1 {
        assert!(unsafe { RP_ADVANCED_AFTER_DEC });
        assert!(asked == 1 && !answer && unsafe { RP_ASKED_SEQ == RP_ADVANCED_SEQ });
    }
    // a sequence the window reports as already received never reaches the AEAD nor the application
    if asked == 1 && answer {
        assert!(calls == 0 && advanced == 0 && res.is_err());
    }
    match res {
        Err(_) => {
            if !(calls == 1 && verdict) {
                assert!(advanced == 0);
            }
        }
        Ok((seq, ref packet)) => {
            let ty = prefix & 0xF;
            if ty == 0 {
                assert!(calls == 0 && asked == 0 && advanced == 0);
                assert!(matches!(packet, Packet::ConnectionRequest { .. }));
                assert!(len >= 1 + 13 + 8 + 8 + 24 + 1024);   // C19: a request is at least 1078 bytes
            } else {
                // C04/C17: nothing is accepted without the AEAD having been asked, with the decoded sequence as nonce
                assert!(with_key && calls == 1 && verdict);
                assert!(unsafe { DEC_LAST_SEQ } == seq);
                // AAD = version || protocol id || prefix byte
                let aad = unsafe { DEC_LAST_AAD };
                assert!(unsafe { DEC_AAD_LEN } == 22);
                assert!(aad[21] == prefix);
                assert!(aad[13..21] == protocol_id.to_le_bytes());
                assert!(&aad[..13] == b"NETCODE 1.02\0");
                // ciphertext handed over = everything after the sequence bytes
                let seq_len = (prefix >> 4) as usize;
                assert!(unsafe { DEC_LAST_LEN } == len - 1 - seq_len);
                // replay protection applies to exactly KeepAlive / Payload / Disconnect
                if ty >= 4 && with_window {
                    assert!(asked == 1 && !answer && advanced == 1);
                    assert!(unsafe { RP_ADVANCED_SEQ } == seq);
                } else {
                    assert!(asked == 0 && advanced == 0);
                }
            }
        }
    }
    if calls == 1 && !verdict {
        assert!(res.is_err());
    }
}


// ------------------------------------------------------------------------------------------------
// U11-c  Packet::encode: exact datagram length for every packet kind (one harness per kind: a symbolic choice between
// the kinds makes CBMC copy the 1.1 kB enum symbolically and run out of memory), every u64 sequence number,
// payloads of every length 0..=1300 (loop-free: the AEAD is stubbed by its contract).
// C13: every netcode datagram fits the 1400-byte carrier.  C19: challenge <= 333 bytes, denial <= 25 < 1078.
static PAYLOAD_SRC: [u8; 1300] = [0u8; 1300];

// (a macro, not a helper function: passing the buffer as `&mut [u8]` and the packet by reference made the
// CBMC formula 50x larger than using the local array directly)
macro_rules! check_sealed_encode {
    ($packet:expr, $out:ident, $body:expr, $kind:expr) => {{
        let seq: u64 = kani::any();
        let key: [u8; 32] = kani::any();
        let protocol_id: u64 = kani::any();
        unsafe { ENC_CALLS = 0; }
        let r = $packet.encode(&mut $out, protocol_id, Some((seq, &key)));
        let n = sequence_bytes_required(seq);
        let len = r.unwrap();   // serialization never fails when the datagram fits the buffer
        assert!(len == 1 + n + $body + 16);
        assert!(len <= 1400);
        assert!(unsafe { ENC_CALLS } == 1);
        // C17: sealed exactly once, with the given sequence as nonce, over body + tag
        assert!(unsafe { ENC_LAST_SEQ } == seq);
        assert!(unsafe { ENC_LAST_LEN } == $body + 16);
        // (the prefix byte written at offset 0 is checked by the full round-trip harnesses: reading the buffer back
        //  after symbolic-offset writes is what makes CBMC expensive, so it is not repeated for every kind)
        len
    }};
}

// @harness encode_len_keepalive unit=U11 props=C13,C16,C17 tier=quick kind=complete timeout=600 :: encode(KeepAlive), every u64 sequence and field value: Ok(1 + seq_bytes + 8 + 16), sealed once with (sequence, key)
#[kani::proof]
#[kani::unwind(10)]
#[kani::stub(crate::crypto::encrypt_in_place, stub_encrypt)]
fn encode_len_keepalive() {
    let packet = Packet::KeepAlive { client_index: kani::any(), max_clients: kani::any() };
    let mut out = [0u8; 64];
    check_sealed_encode!(packet, out, 8, 4);
}

// @harness encode_len_disconnect_denied unit=U11 props=C13,C16,C17,C19 tier=quick kind=complete timeout=600 :: encode(Disconnect | ConnectionDenied): Ok(1 + seq_bytes + 16) <= 25 bytes
#[kani::proof]
#[kani::unwind(10)]
#[kani::stub(crate::crypto::encrypt_in_place, stub_encrypt)]
fn encode_len_disconnect_denied() {
    let mut out = [0u8; 64];
    if kani::any() {
        let len = check_sealed_encode!(Packet::Disconnect, out, 0, 6);
        assert!(len <= 25);
    } else {
        let len = check_sealed_encode!(Packet::ConnectionDenied, out, 0, 1);
        assert!(len <= 25 && len < 1078);
    }
}

// @harness encode_len_challenge unit=U11 props=C13,C16,C17,C19 tier=quick kind=complete timeout=600 :: encode(Challenge): Ok(1 + seq_bytes + 308 + 16) <= 333 < 1078 (smaller than any request)
#[kani::proof]
#[kani::unwind(10)]
#[kani::stub(crate::crypto::encrypt_in_place, stub_encrypt)]
fn encode_len_challenge() {
    let token_data: [u8; NETCODE_CHALLENGE_TOKEN_BYTES] = kani::any();
    let packet = Packet::Challenge { token_sequence: kani::any(), token_data };
    let mut out = [0u8; 340];
    let len = check_sealed_encode!(packet, out, 308, 2);
    assert!(len <= 333 && len < 1078);
}

// @harness encode_len_response unit=U11 props=C13,C16,C17 tier=quick kind=complete timeout=600 :: encode(Response): Ok(1 + seq_bytes + 308 + 16)
#[kani::proof]
#[kani::unwind(10)]
#[kani::stub(crate::crypto::encrypt_in_place, stub_encrypt)]
fn encode_len_response() {
    let token_data: [u8; NETCODE_CHALLENGE_TOKEN_BYTES] = kani::any();
    let packet = Packet::Response { token_sequence: kani::any(), token_data };
    let mut out = [0u8; 340];
    check_sealed_encode!(packet, out, 308, 3);
}

// @harness encode_len_payload unit=U11 props=C13,C16,C17 tier=quick kind=complete timeout=900 :: encode(Payload(p)) for EVERY payload length 0..=1300 and every u64 sequence into the 1400-byte buffer: Ok(1 + seq_bytes + len + 16) <= 1325, never an error
#[kani::proof]
#[kani::unwind(10)]
#[kani::stub(crate::crypto::encrypt_in_place, stub_encrypt)]
fn encode_len_payload() {
    let plen: usize = kani::any();
    kani::assume(plen <= 1300);
    let packet = Packet::Payload(&PAYLOAD_SRC[..plen]);
    let mut out = [0u8; 1400];
    let len = check_sealed_encode!(packet, out, plen, 5);
    assert!(len <= 1325);
}

// @harness encode_len_request unit=U11 props=C13,C16,C19 tier=quick kind=complete timeout=900 :: encode(ConnectionRequest) = 1078 bytes exactly, not sealed, prefix byte 0
#[kani::proof]
#[kani::unwind(10)]
#[kani::stub(crate::crypto::encrypt_in_place, stub_encrypt)]
fn encode_len_request() {
    let packet = Packet::ConnectionRequest { version_info: *NETCODE_VERSION_INFO, protocol_id: kani::any(), expire_timestamp: kani::any(), xnonce: [0; 24], data: [0; 1024] };
    let mut out = [0u8; 1100];
    unsafe { ENC_CALLS = 0; }
    let r = packet.encode(&mut out, kani::any(), None);
    assert!(r.unwrap() == 1078);
    assert!(unsafe { ENC_CALLS } == 0 && out[0] == 0);
}

// ------------------------------------------------------------------------------------------------
// U11-d  decode(encode(p)) == (sequence, p) with the AEAD as identity, per packet kind (complete for the fixed-size
// kinds; payload bounded to 16 bytes = bounded stand-in for 0..=1300, never counted as proved).
pub fn stub_decrypt_identity(buffer: &mut [u8], _sequence: u64, _private_key: &[u8; 32], _aad: &[u8]) -> Result<(), CryptoError> {
    assert!(buffer.len() >= 16);
    Ok(())
}

// @harness roundtrip_keepalive_disconnect_denied unit=U11 props=C16 tier=quick kind=complete timeout=600 :: decode(encode(p, s)) == (s, p) for KeepAlive (all field values) / Disconnect / ConnectionDenied, every u64 sequence
#[kani::proof]
#[kani::unwind(10)]
#[kani::stub(crate::crypto::encrypt_in_place, stub_encrypt)]
#[kani::stub(crate::crypto::dencrypted_in_place, stub_decrypt_identity)]
fn roundtrip_keepalive_disconnect_denied() {
    let seq: u64 = kani::any();
    let key: [u8; 32] = kani::any();
    let protocol_id: u64 = kani::any();
    let client_index: u32 = kani::any();
    let max_clients: u32 = kani::any();
    let which: u8 = kani::any();
    let mut out = [0u8; 64];
    if which == 0 {
        let len = Packet::KeepAlive { client_index, max_clients }.encode(&mut out, protocol_id, Some((seq, &key))).unwrap();
        let (s2, back) = Packet::decode(&mut out[..len], protocol_id, Some(&key), None).unwrap();
        assert!(s2 == seq);
        assert!(matches!(back, Packet::KeepAlive { client_index: ci, max_clients: mc } if ci == client_index && mc == max_clients));
    } else if which == 1 {
        let len = Packet::Disconnect.encode(&mut out, protocol_id, Some((seq, &key))).unwrap();
        let (s2, back) = Packet::decode(&mut out[..len], protocol_id, Some(&key), None).unwrap();
        assert!(s2 == seq && matches!(back, Packet::Disconnect));
    } else {
        let len = Packet::ConnectionDenied.encode(&mut out, protocol_id, Some((seq, &key))).unwrap();
        let (s2, back) = Packet::decode(&mut out[..len], protocol_id, Some(&key), None).unwrap();
        assert!(s2 == seq && matches!(back, Packet::ConnectionDenied));
    }
}

// Body-level round trips (Packet::write -> Packet::read at concrete offsets): complete for every field value.  Together
// with prefix_sequence_roundtrip (prefix + sequence for all u64), decode_hostile_datagram (decode hands exactly
// buffer[1+n .. len-16] to read, nonce = decoded sequence) and encode_len_* (encode seals exactly body + tag after 1+n
// header bytes) they give decode(encode(p)) = p for these kinds; the composition step itself is an argument, not a check.
// @harness body_roundtrip_challenge_response unit=U11 props=C16 tier=quick kind=complete timeout=600 :: Packet::read(kind, Packet::write(p)) == p for Challenge / Response with every token byte content and sequence
#[kani::proof]
#[kani::unwind(10)]
fn body_roundtrip_challenge_response() {
    let token_data: [u8; NETCODE_CHALLENGE_TOKEN_BYTES] = kani::any();
    let token_sequence: u64 = kani::any();
    let mut buf = [0u8; 308];
    let i: usize = kani::any();
    kani::assume(i < NETCODE_CHALLENGE_TOKEN_BYTES);
    if kani::any() {
        let mut w = std::io::Cursor::new(&mut buf[..]);
        Packet::Challenge { token_sequence, token_data }.write(&mut w).unwrap();
        assert!(w.position() == 308);
        match Packet::read(PacketType::Challenge, &buf[..]).unwrap() {
            Packet::Challenge { token_sequence: ts, token_data: td } => assert!(ts == token_sequence && td[i] == token_data[i]),
            _ => assert!(false, "read another packet kind"),
        }
    } else {
        let mut w = std::io::Cursor::new(&mut buf[..]);
        Packet::Response { token_sequence, token_data }.write(&mut w).unwrap();
        assert!(w.position() == 308);
        match Packet::read(PacketType::Response, &buf[..]).unwrap() {
            Packet::Response { token_sequence: ts, token_data: td } => assert!(ts == token_sequence && td[i] == token_data[i]),
            _ => assert!(false, "read another packet kind"),
        }
    }
}

// @harness body_roundtrip_request unit=U11 props=C16 tier=quick kind=complete timeout=900 :: Packet::read(ConnectionRequest, Packet::write(p)) == p for every field value and every byte of the 1024-byte private token
#[kani::proof]
#[kani::unwind(10)]
fn body_roundtrip_request() {
    let data: [u8; 1024] = kani::any();
    let xnonce: [u8; 24] = kani::any();
    let version_info: [u8; 13] = kani::any();
    let protocol_id: u64 = kani::any();
    let expire_timestamp: u64 = kani::any();
    let mut buf = [0u8; 1077];
    let mut w = std::io::Cursor::new(&mut buf[..]);
    Packet::ConnectionRequest { version_info, protocol_id, expire_timestamp, xnonce, data }.write(&mut w).unwrap();
    assert!(w.position() == 1077);
    let i: usize = kani::any();
    kani::assume(i < 1024);
    match Packet::read(PacketType::ConnectionRequest, &buf[..]).unwrap() {
        Packet::ConnectionRequest { version_info: v, protocol_id: p, expire_timestamp: e, xnonce: x, data: d } => {
            assert!(p == protocol_id && e == expire_timestamp);
            assert!(d[i] == data[i] && x[i % 24] == xnonce[i % 24] && v[i % 13] == version_info[i % 13]);
        }
        _ => assert!(false, "read another packet kind"),
    }
}

// @harness roundtrip_payload_bounded unit=U11 props=C16 tier=quick kind=bounded timeout=900 :: BOUND payload length 1..=16 bytes: decode(encode(Payload(p), s)) == (s, Payload(p)) for every u64 sequence and every byte content
#[kani::proof]
#[kani::unwind(20)]
#[kani::stub(crate::crypto::encrypt_in_place, stub_encrypt)]
#[kani::stub(crate::crypto::dencrypted_in_place, stub_decrypt_identity)]
fn roundtrip_payload_bounded() {
    let seq: u64 = kani::any();
    let key: [u8; 32] = kani::any();
    let protocol_id: u64 = kani::any();
    let data: [u8; 16] = kani::any();
    let plen: usize = kani::any();
    kani::assume(plen >= 1 && plen <= 16);
    let packet = Packet::Payload(&data[..plen]);
    let mut out = [0u8; 64];
    let len = packet.encode(&mut out, protocol_id, Some((seq, &key))).unwrap();
    let (seq2, back) = Packet::decode(&mut out[..len], protocol_id, Some(&key), None).unwrap();
    assert!(seq2 == seq);
    match back {
        Packet::Payload(p) => {
            assert!(p.len() == plen);
            let i: usize = kani::any();
            kani::assume(i < plen);
            assert!(p[i] == data[i]);
        }
        _ => assert!(false, "decoded another packet kind"),
    }
}

} // mod verif_kani
