
// ===== appended by /verif/engine/kani_run.py to a scratch copy of renetcode/src/packet.rs (never to /repo) =====
#[cfg(kani)]
#[allow(dead_code, unused_imports, unused_variables, static_mut_refs)]
pub(crate) mod verif_kani {
// Kani harness module appended to a scratch copy of the renetcode crate (never to /repo).
// It sits inside the crate so it reaches private items; the crate sources are untouched copies.
// Pre/post-conditions are plain assertions here (Kani contract attributes would have to be written
// on the functions in /repo).  AEAD is replaced by stubs that CHECK the callee's precondition
// (buffer.len() >= 16) and return a nondeterministic verdict: the callee-contract view of chacha20poly1305.
use super::*;
use crate::replay_protection::verif_kani::*;
use chacha20poly1305::aead::Error as CryptoError;

static mut DEC_CALLS: u32 = 0;
static mut DEC_LAST_SEQ: u64 = 0;
static mut DEC_LAST_LEN: usize = 0;
static mut DEC_LAST_AAD: [u8; 22] = [0; 22];
static mut DEC_AAD_LEN: usize = 0;
static mut DEC_VERDICT: bool = false;

/// contract view of `dencrypted_in_place`: requires buffer.len() >= 16 (tag), result nondeterministic
pub fn stub_decrypt(buffer: &mut [u8], sequence: u64, _private_key: &[u8; 32], aad: &[u8]) -> Result<(), CryptoError> {
    assert!(buffer.len() >= 16, "AEAD precondition: ciphertext shorter than the 16-byte tag");
    unsafe {
        DEC_CALLS += 1;
        DEC_LAST_SEQ = sequence;
        DEC_LAST_LEN = buffer.len();
        DEC_AAD_LEN = aad.len();
        if aad.len() == 22 {
            let mut i = 0;
            while i < 22 {
                DEC_LAST_AAD[i] = aad[i];
                i += 1;
            }
        }
        if DEC_VERDICT { Ok(()) } else { Err(CryptoError) }
    }
}

static mut ENC_CALLS: u32 = 0;
static mut ENC_LAST_SEQ: u64 = 0;
static mut ENC_LAST_LEN: usize = 0;

/// contract view of `encrypt_in_place`: requires buffer.len() >= 16; identity on the plaintext
pub fn stub_encrypt(buffer: &mut [u8], sequence: u64, _key: &[u8; 32], _aad: &[u8]) -> Result<(), CryptoError> {
    assert!(buffer.len() >= 16, "AEAD precondition: buffer shorter than the 16-byte tag");
    unsafe {
        ENC_CALLS += 1;
        ENC_LAST_SEQ = sequence;
        ENC_LAST_LEN = buffer.len();
    }
    Ok(())
}

// Contract view of the replay window inside `decode` (its own contract is proved for all inputs in unit U2, Verus):
// `already_received` answers anything; `advance_sequence` is only recorded.  What `decode` is checked for is the
// ORDER: window test before the AEAD, advance only after the AEAD accepted, nothing touched otherwise.
static mut RP_ASKED: u32 = 0;
static mut RP_ASKED_SEQ: u64 = 0;
static mut RP_ANSWER: bool = false;
static mut RP_ADVANCED: u32 = 0;
static mut RP_ADVANCED_SEQ: u64 = 0;
static mut RP_ADVANCED_AFTER_DEC: bool = false;

pub fn stub_already_received(_rp: &ReplayProtection, sequence: u64) -> bool {
    unsafe {
        RP_ASKED += 1;
        RP_ASKED_SEQ = sequence;
        assert!(DEC_CALLS == 0, "window must be consulted before the AEAD is invoked");
        RP_ANSWER
    }
}

pub fn stub_advance_sequence(_rp: &mut ReplayProtection, sequence: u64) {
    unsafe {
        RP_ADVANCED += 1;
        RP_ADVANCED_SEQ = sequence;
        RP_ADVANCED_AFTER_DEC = DEC_CALLS == 1 && DEC_VERDICT;
    }
}

// ------------------------------------------------------------------------------------------------
// U11-a  prefix byte and variable-length sequence: all u64, all 7 packet types (complete: loops are width-bounded)
// @harness prefix_sequence_roundtrip unit=U11 props=C16,C13 tier=quick kind=complete timeout=300 :: all u64 sequences x 7 packet types: prefix byte and variable-length sequence round trip, length classes 0..8
#[kani::proof]
#[kani::unwind(10)]
fn prefix_sequence_roundtrip() {
    let seq: u64 = kani::any();
    let ty: u8 = kani::any();
    kani::assume(ty <= 6);
    let n = sequence_bytes_required(seq);
    assert!(n <= 8);
    assert!(n == 8 || seq < (1u64 << (8 * n as u32)));
    assert!(n == 0 || seq >= (1u64 << (8 * (n as u32 - 1))));
    let p = encode_prefix(ty, seq);
    let (t2, n2) = decode_prefix(p);
    assert!(t2 == ty && n2 == n);
    let mut buf = [0u8; 8];
    let mut w = std::io::Cursor::new(&mut buf[..]);
    let written = write_sequence(&mut w, seq).unwrap();
    assert!(written == n);
    let mut r = std::io::Cursor::new(&buf[..]);
    let back = read_sequence(&mut r, n2).unwrap();
    assert!(back == seq);
}

// ------------------------------------------------------------------------------------------------
// U11-b  Packet::decode on a hostile datagram: every prefix byte, every announced sequence length, every
// datagram length 0..=N, any key, any window state.  Loop-free once the AEAD is stubbed.
const N_QUICK: usize = 48;

// @harness decode_hostile_datagram unit=U11 props=C04,C07,C17,C19 tier=quick kind=complete timeout=900 :: Packet::decode over every datagram of length 0..=48 (all 256 prefix bytes, all announced sequence lengths 0..15), any key / no key, any window answer, AEAD stubbed by its contract
#[kani::proof]
#[kani::unwind(24)]
#[kani::stub(crate::crypto::dencrypted_in_place, stub_decrypt)]
#[kani::stub(crate::replay_protection::ReplayProtection::already_received, stub_already_received)]
#[kani::stub(crate::replay_protection::ReplayProtection::advance_sequence, stub_advance_sequence)]
fn decode_hostile_datagram() {
    let mut buf: [u8; N_QUICK] = kani::any();
    let len: usize = kani::any();
    kani::assume(len <= N_QUICK);
    let protocol_id: u64 = kani::any();
    let key: [u8; 32] = kani::any();
    let mut rp = ReplayProtection::new();
    let verdict: bool = kani::any();
    let answer: bool = kani::any();
    unsafe { DEC_VERDICT = verdict; DEC_CALLS = 0; RP_ANSWER = answer; RP_ASKED = 0; RP_ADVANCED = 0; }
    let with_key: bool = kani::any();
    let with_window: bool = kani::any();
    let prefix = buf[0];
    let res = Packet::decode(&mut buf[..len], protocol_id, if with_key { Some(&key) } else { None }, if with_window { Some(&mut rp) } else { None });
    let calls = unsafe { DEC_CALLS };
    let (asked, advanced) = unsafe { (RP_ASKED, RP_ADVANCED) };
    assert!(calls <= 1 && asked <= 1 && advanced <= 1);
    // C07/C04: the window is advanced only after the AEAD accepted this very datagram
    if advanced == 1 {
        assert!(unsafe { RP_ADVANCED_AFTER_DEC });
        assert!(asked == 1 && !answer && unsafe { RP_ASKED_SEQ == RP_ADVANCED_SEQ });
    }
    // a sequence the window reports as already received never reaches the AEAD nor the application
    if asked == 1 && answer {
        assert!(calls == 0 && advanced == 0 && res.is_err());
    }
    match res {
        Err(_) => {
            if !(calls == 1 && verdict) {
                assert!(advanced == 0);
            }
        }
        Ok((seq, ref packet)) => {
            let ty = prefix & 0xF;
            if ty == 0 {
                assert!(calls == 0 && asked == 0 && advanced == 0);
                assert!(matches!(packet, Packet::ConnectionRequest { .. }));
                assert!(len >= 1 + 13 + 8 + 8 + 24 + 1024);   // C19: a request is at least 1078 bytes
            } else {
                // C04/C17: nothing is accepted without the AEAD having been asked, with the decoded sequence as nonce
                assert!(with_key && calls == 1 && verdict);
                assert!(unsafe { DEC_LAST_SEQ } == seq);
                // AAD = version || protocol id || prefix byte
                let aad = unsafe { DEC_LAST_AAD };
                assert!(unsafe { DEC_AAD_LEN } == 22);
                assert!(aad[21] == prefix);
                assert!(aad[13..21] == protocol_id.to_le_bytes());
                assert!(&aad[..13] == b"NETCODE 1.02\0");
                // ciphertext handed over = everything after the sequence bytes
                let seq_len = (prefix >> 4) as usize;
                assert!(unsafe { DEC_LAST_LEN } == len - 1 - seq_len);
                // replay protection applies to exactly KeepAlive / Payload / Disconnect
                if ty >= 4 && with_window {
                    assert!(asked == 1 && !answer && advanced == 1);
                    assert!(unsafe { RP_ADVANCED_SEQ } == seq);
                } else {
                    assert!(asked == 0 && advanced == 0);
                }
            }
        }
    }
    if calls == 1 && !verdict {
        assert!(res.is_err());
    }
}

} // mod verif_kani
