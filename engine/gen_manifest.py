#!/usr/bin/env python3
"""Generates /verif/MANIFEST.json from the unit registry (which units carry obligations for which property)
and the per-property claim texts below.  Run after adding/removing units."""
import glob
import json
import os
import re
import subprocess
import sys

ROOT = os.path.dirname(os.path.dirname(os.path.abspath(__file__)))
sys.path.insert(0, os.path.join(ROOT, 'engine'))
import kani_run as KR  # noqa

CLAIMS = {
    'C01': ('Receiver side proved for every history of authentic packets (any loss/duplication/reordering): the ordered channel hands over exactly '
            'the submitted byte strings in id order, each once (invariants acc/auth of ReceiveChannelReliable + SliceConstructor, all operations, unbounded). '
            'Sender bookkeeping and the resend loop body are under contract too (units U6/U9), and RenetClient::{new, new_from_server, from_channels} are proved verbatim to build '
            'each configured channel with its configured kind, budget and direction (U14).',
            'RenetClient::{process_packet, send_message, receive_message} are proved verbatim (U15): a decodable packet reaches exactly the channel it names, every (id, bytes) pair of it is taken over or already done, '
            'nothing else changes; send_message stores the bytes once under the next id of the named channel. RenetClient::get_packets_to_send (U16): the record filed under each sent packet\'s sequence number names exactly the message ids / slice that packet carried, and every packet is labelled with a channel of the send order of the matching kind. The record invariant records_ok the Ack arm relies on is established and kept, not assumed: no record at construction (U14), every record written by get_packets_to_send satisfies it (U16, from the reliable channel\'s contract: what a packet carries names queued messages of the kind it carries them as, U9/U17), process_packet, send_message and receive_message keep it (U15), update keeps it (lemma over U18\'s contract). Not decided: the liveness sentence (bounded ticks).'),
    'C02': ('Unordered reliable receive: `done` is monotone, a message is stored only if its id is not done, receive_message removes exactly what it returns, '
            'and returns Some whenever a complete message is buffered; the cursor loop is proved with invariant and decreases. A ReliableUnordered configuration entry yields an '
            'unordered receive channel (RenetClient::from_channels, verbatim, U14).',
            'Sender side (U6/U9/U17, the same struct serves both reliable kinds): a duplicate slice acknowledgement changes nothing, sending releases nothing. Not decided: liveness.'),
    'C03': ('Reassembly equals the submitted bytes for every length and every arrival order with duplicates (one quantified statement over all messages m: '
            'agrees(m) is preserved, a result appears only when all slices arrived and then equals m); buffered bytes per id stay authentic. Sender: every unreliable slice packet '
            'carries the id opened for its message, ids of one flush are fresh and never shared by two messages (U7).',
            'Channel-id routing of slices and messages in RenetClient::process_packet is proved verbatim (U15: only the named channel changes; an authentic unreliable slice never costs the connection). Every packet a send channel hands out carries that channel\'s own id (U7, U17), and every packet of RenetClient::get_packets_to_send is labelled with a channel of the send order of the matching kind (U16).'),
    'C04': ('Replay window: for all u64 sequences, a sequence in the accepted set is always reported as received and a fresh one less than 256 behind is accepted '
            '(Verus, ghost accepted set). Packet::decode (Kani, complete for datagrams 0..=48 bytes, all prefix bytes): window consulted before the AEAD, advanced only '
            'after the AEAD accepted that datagram, AAD = version||protocol id||prefix, nonce = decoded sequence, ciphertext = whole remainder.',
            'Assumed: AEAD idealisation (chacha20poly1305 is stubbed by its contract). Sentinel: sequence 2^64-1 is the EMPTY marker and excluded. '
            'Server side (U19): a payload is reported only for a connected session at the sending address, from a datagram Packet::decode accepted under that session\'s key, only if that session\'s replay window did not hold the datagram\'s sequence number, and the window then records it (at most once). Not decided: update_client.'),
    'C06': ('No precondition on wire-controlled arguments: SliceConstructor, both receive channels (as listed in the evidence) and the ack list return for every input, '
            'without index/overflow/unreachable failures, keep memory == sum of what is stored <= max.',
            'RenetClient::process_packet is proved verbatim with no precondition on the bytes (U15): it returns for every input; undecodable bytes, an unknown channel id or a channel error only move the connection '
            'to Disconnected with the matching reason; the client invariant (every channel invariant while alive) is preserved. The Ack arm is under contract too: no panic for any decoded range list (BTreeMap::range precondition start <= end, every unwrap justified by the record invariant). '
            'Assumed there: the loop over BTreeMap::range as a summary (rule D18), the floating-point rtt estimate cut out (rule D19), the record invariant records_ok is a precondition there, established at construction and kept by every public operation of RenetClient (U14/U15/U16, lemma for update; round 4). Not decided: RenetServer::process_packet_from beyond its routing frame.'),
    'C07': ('Packet::decode returns for every datagram of length 0..=48 with all 256 prefix bytes and announced sequence lengths 0..15, with and without key (Kani, complete '
            'for that length range; AEAD stubbed with its precondition checked); a datagram the AEAD did not accept leaves the replay window untouched; '
            'ReplayProtection has no precondition on the sequence (Verus).',
            'Server (U19, Verus): a datagram NetcodeServer::process_packet_internal refuses refreshes no session\'s time-out and changes no session (C10 frame clauses). '
            'Tokens (U20, Verus): ConnectToken::read, PrivateConnectToken::read/decode and read_server_addresses have no precondition on the bytes: they return for every input (all index, slice and arithmetic obligations discharged). Client harnesses are listed in the evidence when unit U12 is present.'),
    'C08': ('The pending-ack list never contains a sequence that was not added (view(final) subset of view(old)+{q}), stays sorted/disjoint/non-adjacent for any arrival '
            'order and is trimmed exactly up to the horizon by acked_largest (Verus, unbounded).',
            'Every decodable non-Ack packet handed to RenetClient::process_packet has its sequence recorded by add_pending_ack (U15). The Ack arm of RenetClient::process_packet (U15): exactly the records whose sequence lies inside a received half-open range are removed (none outside), acknowledgements only release or mark messages of reliable send channels (nothing is added or altered), '
            'our own pending list is only trimmed. Assumed: BTreeMap::range summary (D18), records_ok (that a record names the ids/slices of the packet it was written for is established in get_packets_to_send by code not under that contract). '
            'Record contents (U16, RenetClient::get_packets_to_send): the record filed under a packet\'s sequence number names exactly the message ids / the slice that packet carried (map/collect specified through vstd), records of other sequence numbers are untouched: a released id is one the acknowledged packet carried. records_ok is established and kept by every public operation (round 4: U14, U15, U16, U17, U9), no longer a history assumption.'),
    'C09': ('Accounting invariant memory_usage_bytes == sum of stored message lengths + reserved reassembly buffers <= max, preserved by every operation of the reliable '
            'receive channel from every state, including the offset state inside process_slice; duplicates of done messages reserve nothing (clean()).',
            'RenetClient::update (U18, verbatim around an assumed values_mut induction, rule D18) applies the 3-second discard to every unreliable receive channel with the advanced clock. '
            'A duplicate of a message already taken over never fails for memory (U4). Not decided: the end-to-end "never disconnected within budget" sentence as a whole; other channel structs when their units are not listed in the evidence.'),
    'C13': ('pending_acks.len() <= 64 after every add_pending_ack for any arrival order (Verus); every netcode packet kind encodes to exactly 1+n+body+16 <= 1400 bytes, '
            'payloads of every length 0..=1300, request = 1078 bytes (Kani, complete).',
            'renet: Packet::to_bytes fails only when the buffer is shorter than the wire length and writes exactly that many bytes; a message-carrying packet that satisfies the channels\' packing bound is at most 1300 bytes, '
            'an Ack packet with at most 64 well-formed ranges at most 1041 bytes (Verus lemmas over the wire format). RenetClient::get_packets_to_send is proved verbatim (U16): every payload it returns is the serialization of one sendable packet and at most 1300 bytes long, '
            'packets are numbered consecutively, and serialization never fails (the connection status is unchanged). '
            'The reliable channel\'s whole get_packets_to_send is proved around its loop (U17): prologue, final flush, and a checked step function showing that the loop body\'s contract (U9) carries the loop invariant from one iteration to the next; '
            'assumed there: only the induction over BTreeMap::iter_mut (rule D18, same assumption as D6); '
            'size assumptions that keep counters below 2^62 during one tick (per channel: at most 2^40 queued messages and 2^41 buffered bytes; packet sequence below 2^61; at most 256 send channels).'),
    'C16': ('Netcode prefix/sequence round trip for all u64 and all packet types, full encode->decode round trip for KeepAlive/Disconnect/Denied, body-level write->read '
            'round trips for Challenge/Response/Request (Kani, complete); ack list: denotes exactly the received set, newest 64 ranges (Verus). '
            'renet message layer (Verus, unbounded): the wire format is a pair of spec functions wire/parse with the proved lemma parse(wire(p) ++ tail) = (p, tail) for every packet '
            'the format can carry (all five kinds, any number of messages/ranges, all varint widths); the real Packet::from_bytes is proved to compute parse exactly (accepts, value, bytes consumed, '
            'and refuses only what parse refuses), everything it returns lies in the round-trip domain, and the real Packet::to_bytes is proved verbatim to write exactly wire(p) for all five kinds (including the delta-coded Ack arm over iter().rev()).',
            'Assumed: octets cursor/varint model (3 axioms: length, decode(encode v ++ t) = v, decoded value < 2^62). Bounded stand-in (not counted as proved): netcode payload round trip for lengths 1..=16. '
            'Connect tokens (Verus, U20, unbounded, real code of token.rs/serialize.rs): ConnectToken::write / PrivateConnectToken::write / write_server_addresses write exactly the wire form (spec function) of their argument; '
            'the readers return t and consume exactly the written bytes on every input of the form wire(t) ++ tail with t a token the library builds (1..=32 IPv4/IPv6 addresses in the first slots), and everything they return is such a token '
            '(so its re-serialization reads back as the same value); PrivateConnectToken::encode/decode are inverse under the idealised AEAD; generate builds only such tokens. '
            'KNOWN FINDING (genuine, not repaired, see known_findings.txt): generate accepts IPv6 socket addresses with a scope id / flow label, which the format cannot carry -- the one obligation stating that every address of a built token is representable fails and is reported as KNOWN-FINDING. '
            'Assumed for tokens: io::Read/io::Write stream model, little-endian meaning of to/from_le_bytes, std::net constructors/accessors, the Cursor glue of encode/decode, the filter/count chain (D19).'),
    'C17': ('Usage contract of the AEAD in Packet::encode/decode: sealed exactly once with (sequence, key), AAD binds version, protocol id and prefix byte, nonce is the '
            'decoded sequence, ciphertext is everything after the sequence bytes (Kani, complete).',
            'Server (Verus, U19): NetcodeServer::new starts global_sequence at 2^63 and the invariant global_sequence >= 2^63 is preserved; every handshake reply (challenge, denied) is sealed with a nonce of the upper half, '
            'the first packet of a session with the session\'s own counter (lower half, history assumption < 2^63): the two classes never share a nonce under the server-to-client key they both use. '
            'Assumed: the AEAD itself. generate_payload_packet / update_client / disconnect seal with the session counter, and every keep-alive, payload packet and first session packet consumes the counter value it was sealed with (the counter is one past it afterwards; verbatim, U19).'),
    'C19': ('Size relation: decode yields ConnectionRequest only from >= 1078 bytes; Challenge encodes to <= 333 and ConnectionDenied to <= 25 bytes, both < 1078 (Kani, complete). '
            'Control flow (Verus, U19, verbatim): process_packet_internal / handle_connection_request answer a datagram with at most one datagram, addressed to the sender, of at most 333 bytes, and only for a request whose token is authentic, '
            'unexpired and not presented from another address before; a half-open session is answered (denial of a full server) only after its response echoed a challenge this server sealed for that session\'s client id; every error path returns no datagram.',
            'Assumed: AEAD idealisation; encode lengths as proved by the U11 harnesses; one-line iterator chains by assumed functions. Not decided: update_client (keep-alive / disconnect packets to connected clients, not unproven addresses).'),
}

CLAIMS.update({
    'C05': ('NetcodeServer::{handle_connection_request, find_or_add_connect_token_entry, process_packet_internal} proved verbatim (Verus, U19): a request is answered only if it names this netcode version and this protocol id, its private token opens under the '
            'server key/protocol id/expiry it names, the clock is before the expiry, the address is not connected, and the token was not presented from another address before (token table: one entry per MAC, '
            'first address wins; a remembered token is overwritten only when no slot of the table is free and no entry is older); ClientConnected is reported only for a half-open session at that address whose response echoes a challenge this server sealed for the same client id and user data, which are the ones reported.',
            'Assumed: AEAD idealisation (token_authentic / challenge_authentic / sealed_under are uninterpreted: opening succeeds only for what the key sealed); one-line iterator chains replaced by assumed functions '
            '(host list test, free-slot search, find_client_*); history assumptions (counters not wrapped). Token side (U20, verbatim): the associated data sealed into and required from a private token is version || protocol id || expiry (get_additional_data, PrivateConnectToken::encode/decode), a private token comes out of decode only if the AEAD opened the data under the given key, nonce and that associated data, and ConnectToken::generate seals a private part with the same client id, keys, addresses and the given user data. '
            'Not decided: the wrong-host clause beyond the assumed host-list function; update/update_client time-outs.'),
    'C10': ('Server invariant table_unique (connected clients have pairwise distinct ids and pairwise distinct addresses) is preserved by process_packet_internal and handle_connection_request (Verus, U19, verbatim); '
            'ClientConnected adds exactly one new session in a free slot with an id and address not connected before; ClientDisconnected removes exactly the named session; any other outcome leaves the set of sessions and their keys as they were; '
            'a payload is attributed to the session of the sending address; a request never touches the table of connected clients.',
            'update_client and disconnect remove exactly the named session and report exactly that id and address; generate_payload_packet addresses the session registered under the id; client_addr / user_data / is_client_connected answer for the one session registered under that id; set_max_clients changes only the limit. '
            'Bounded stand-in (U21, Kani, NOT counted as proved): the four lookup helpers find_client_{by_id, mut_by_id, slot_by_id, mut_by_addr}, which U19 uses through assumed contracts, satisfy exactly those contract clauses on every 4-slot table. '
            'Assumed: find_client_* / free-slot search (one-line iterator chains) by their evident contracts; AEAD idealisation. NetcodeServer::update drops a half-open session exactly when its token expired (loop body proved, D6; values_mut induction and HashMap::retain assumed, D18/D19). the bound max_clients (the table length is fixed at construction; lowering the limit is outside the property).'),
    'C14': ('Per channel call: payload bytes put into packets (plus the pending small-message batch) equal the decrease of available_bytes, which never grows; '
            'a reliable message or slice that does not fit stays queued untouched, an unreliable message that does not fit is dropped whole (Verus: SendChannelUnreliable::get_packets_to_send '
            'verbatim with loop invariants; body of the reliable send loop outlined by rule D6).',
            'Assumed: rule D6 (the outlined loop body is proved for an arbitrary element and loop state; that BTreeMap::iter_mut visits each entry once is std\'s protocol). '
            'RenetClient::get_packets_to_send (U16, verbatim) threads one available_bytes through all channels in channel_send_order: the message bytes of all packets of a tick stay within available_bytes_per_tick; the reliable channel\'s whole function is proved in U17 (loop induction assumed, rule D18). RenetClient::from_channels (U14) builds channel_send_order in configuration order: the i-th entry is the i-th configured send channel (channels are served in configuration order).'),
    'C15': ('Per call of the reliable send loop body for an arbitrary message and any current_time >= last_sent: a small message is not re-sent before resend_time and is sent '
            '(timestamp = now, appended to the batch, budget charged) once it elapsed and the budget allows; every slice packet emitted is unacknowledged and due, its transmission time is recorded; '
            'timestamps change only to now; acknowledged slices/messages are never emitted (process_*_ack removes the entry or sets the flag: U6).',
            'The 3-second horizon: RenetClient::update (U18) forgets the record of a sent packet only when it is at least 3 s old and keeps every younger record unchanged. '
            'Assumed: D6/D18 iteration protocol; time is monotone (last_sent <= current_time). The ids recorded for a sent packet are the ids it carried (U16, records_written). Not decided: '
            '"promptly" for slices is only the per-slice statement above, not a bound over ticks.'),
})

CLAIMS.update({
    'C11': ('RenetServer routing frame: send_message / receive_message / process_packet_from / get_packets_to_send / disconnect change at most connections[client_id] '
            '(every other entry identical, domain unchanged, event queue unchanged) and apply the per-connection operation exactly once to that entry; the bodies of the '
            'broadcast loops (rule D6) send to every visited client exactly once, except the excluded id, and never leave the loop early.',
            'Assumed: D6 iteration protocol (values_mut/iter_mut visit each entry once); the per-connection operations are uninterpreted deterministic functions here. '
            'Not decided: "never delays, drops or corrupts traffic of other clients" as a history statement; it reduces to the frame conditions plus ownership (type system).'),
    'C12': ('RenetClient status setters never leave Disconnected and never change the first reason (set_connected, set_connecting, disconnect, disconnect_due_to_transport, '
            'disconnect_with_reason: full frame: nothing but the status changes). RenetServer: ClientConnected{id} is queued only when id was absent, ClientDisconnected{id, reason} only when '
            'present, with the stored first reason or Transport; get_event is FIFO; no other operation touches the id set or the queue; disconnect_all loop body keeps first reasons.',
            'RenetClient::{process_packet, send_message, receive_message} leave a disconnected client exactly as it was and only ever move the status to Disconnected (U15). RenetClient::get_packets_to_send returns nothing and changes nothing once disconnected, and never changes the status itself (U16); '
            'the per-id alternation Connected, Disconnected, ... follows from the add/remove contracts by induction over calls (argument, not a checked obligation).'),
    'C18': ('Step contracts (client: Kani, complete over any token value, any state, any timers below 2^40 s; server: Verus, U19): client update disconnects a connected client exactly when no packet arrived for more than '
            'timeout_seconds, moves a timed-out connecting client to the next listed address or gives up, produces at most one packet per 250 ms; only a datagram that decoded refreshes '
            'last_packet_received_time, and a replayable handshake packet (denied/challenge/response are not replay-protected) that the current state ignores moves no timer and no field (forged/replayed packets do not postpone a timeout).',
            'Server: update_client drops a session only when it was marked disconnected or nothing arrived for more than its timeout_seconds, and sends its keep-alive to that session\'s address; an accepted payload refreshes that session\'s receive time, and a session that completes its handshake starts connected with a fresh receive time. '
            'NetcodeServer::update expires half-open sessions exactly at their token expiry. Not decided: everything phrased as eventually / within bounded time and the two-endpoint composition: '
            'contracts are the wrong tool for that half.'),
})

NOT_APPLICABLE = {
    'C20': 'property about real UDP sockets and two crates kept in lock-step across an I/O history; no contract within reach can express it.',
}

PENDING = {  # properties whose units are not built yet: listed as not_applicable with that reason until they are
    'C11': 'unit U8/U10 (RenetServer routing frame) not built yet in this tree',
    'C12': 'unit U8 (status setters, server event queue) not built yet in this tree',
    'C14': 'units U7/U9 (per-channel bandwidth accounting) not built yet in this tree',
    'C15': 'units U6/U9 (resend timing of the reliable send channel) not built yet in this tree',
    'C18': 'unit U12 (NetcodeClient step contracts) not built yet in this tree; the liveness half is not decidable by contracts',
}


def units_by_prop():
    by = {}
    for p in sorted(glob.glob(os.path.join(ROOT, 'contracts', '*.rs'))):
        head = open(p).readline()
        m = re.match(r'//@unit\s+(\S+)\s+props=(\S+)', head)
        if m:
            for pr in m.group(2).split(','):
                by.setdefault(pr, []).append((m.group(1), 'verus'))
    for u in KR.registry():
        for pr in u['props']:
            by.setdefault(pr, []).append((u['name'], 'kani'))
    return by


def main():
    by = units_by_prop()
    checks = []
    na = []
    for i in range(1, 21):
        pid = 'C%02d' % i
        if pid in NOT_APPLICABLE:
            na.append(dict(property_id=pid, reason=NOT_APPLICABLE[pid]))
            continue
        if pid not in by or pid not in CLAIMS:
            na.append(dict(property_id=pid, reason=PENDING.get(pid, 'no unit carries obligations for it')))
            continue
        units = by[pid]
        engines = sorted(set(e for _, e in units))
        text, note = CLAIMS[pid]
        checks.append(dict(
            property_id=pid,
            quick_cmd='bin/check %s --tier quick' % pid,
            thorough_cmd='bin/check %s --tier thorough' % pid,
            evidence_file='evidence/%s.json' % pid,
            replay_cmd_template='bin/check %s --replay {path}' % pid,
            engine='+'.join(engines),
            level_claimed=dict(category='proof', text=text + ' Units: ' + ', '.join('%s(%s)' % u for u in units) + '.',
                               design_ref='DESIGN.md section 4, ' + pid),
            level_note=note + ' Trusted base: Verus/Z3, Kani/CBMC, vstd std specs, the shims and assumed std specs listed in the evidence, '
                       'extraction rules D1-D26 (DESIGN.md 2.1), 64-bit usize.',
            technique='contract-based deductive verification: Verus contracts woven onto functions extracted verbatim from /repo'
                      + (' + Kani harnesses on the real crate asserting pre/post-conditions (complete over their stated symbolic domain, or labelled bounded stand-ins that are never counted as proved: see level_note and the evidence)' if 'kani' in engines else ''),
        ))
    try:
        fixes = subprocess.check_output(['git', '-C', '/repo', 'log', '--format=%h %s', '--grep=^fix:'], text=True).strip().split('\n')
    except Exception:
        fixes = []
    known = []
    try:
        for line in open(os.path.join(ROOT, 'known_findings.txt')):
            m = re.match(r'known:\s+property=(C\d+)\s+obligation=(.+?)\s+::\s+(.*)$', line.rstrip('\n'))
            if m:
                known.append('%s %s -- %s' % (m.group(1), m.group(2), m.group(3)[:220]))
    except Exception:
        pass
    man = dict(
        version=1,
        setup_cmd='true',
        hooks=dict(
            guard='none',
            enable='no hooks: Verus sees text extracted from /repo on every run; Kani runs in a scratch copy of the crates with harness modules appended',
            baseline_off_cmd='cd /repo && cargo test --workspace --no-fail-fast --offline',
            source_commits=[],
            add_only=True,
        ),
        engines=[
            dict(name='verus-weave', path='engine/weave.py + engine/verus_run.py', serves_properties=sorted(p for p, us in by.items() if any(e == 'verus' for _, e in us)),
                 kind_free_text='mechanical extraction of real functions + contract weaving, discharged by Verus 0.2026.09.13 (Z3)'),
            dict(name='kani-harness', path='engine/kani_run.py + kani/renetcode/*.rs', serves_properties=sorted(p for p, us in by.items() if any(e == 'kani' for _, e in us)),
                 kind_free_text='Kani 0.68 / CBMC 6.11 harnesses in a scratch copy of the real crate; complete vs bounded stated per harness'),
        ],
        checks=checks,
        not_applicable=na,
        notes='Genuine defects found by the checks and repaired with "fix:" commits in /repo: ' + '; '.join(fixes) +
              '. Known findings (genuine, not repaired; the check prints KNOWN-FINDING and exits 0): ' + ('; '.join(known) or 'none') +
              '. See known_findings.txt and DESIGN.md section 6. Exit codes: 0 held, 1 violation, 2 undecided (tool limit / lost anchor), never an alarm.',
    )
    with open(os.path.join(ROOT, 'MANIFEST.json'), 'w') as f:
        json.dump(man, f, indent=1)
    print('claimed:', [c['property_id'] for c in checks])
    print('not applicable:', [n['property_id'] for n in na])


if __name__ == '__main__':
    main()
