"""Minimal Rust-aware scanner: tokenises Rust source well enough to match braces,
locate items by name and split a fn into signature and body.  No external deps.

Token = (kind, start, end) over the source string.  kinds:
  ws, lc (line comment), bc (block comment), str, char, life (lifetime), id, num, p (punct)
"""
import re

ID_START = re.compile(r'[A-Za-z_]')
ID_CONT = re.compile(r'[A-Za-z0-9_]')


class ScanError(Exception):
    pass


def tokenize(s):
    toks = []
    i, n = 0, len(s)
    while i < n:
        c = s[i]
        if c.isspace():
            j = i + 1
            while j < n and s[j].isspace():
                j += 1
            toks.append(('ws', i, j)); i = j; continue
        if s.startswith('//', i):
            j = s.find('\n', i)
            if j < 0:
                j = n
            toks.append(('lc', i, j)); i = j; continue
        if s.startswith('/*', i):
            depth, j = 1, i + 2
            while j < n and depth:
                if s.startswith('/*', j):
                    depth += 1; j += 2
                elif s.startswith('*/', j):
                    depth -= 1; j += 2
                else:
                    j += 1
            toks.append(('bc', i, j)); i = j; continue
        # raw strings r"..", r#".."#, br".."
        m = re.match(r'b?r(#*)"', s[i:i + 40])
        if m:
            hashes = m.group(1)
            close = '"' + hashes
            j = s.find(close, i + m.end())
            if j < 0:
                raise ScanError('unterminated raw string at %d' % i)
            j += len(close)
            toks.append(('str', i, j)); i = j; continue
        if c == '"' or (c == 'b' and i + 1 < n and s[i + 1] == '"'):
            j = i + (2 if c == 'b' else 1)
            while j < n and s[j] != '"':
                if s[j] == '\\':
                    j += 1
                j += 1
            j += 1
            toks.append(('str', i, j)); i = j; continue
        if c == "'" or (c == 'b' and i + 1 < n and s[i + 1] == "'"):
            k = i + (2 if c == 'b' else 1)
            # char literal or lifetime?
            if c == "'" and k < n and ID_START.match(s[k]):
                # could be lifetime 'a or char 'a'
                j = k
                while j < n and ID_CONT.match(s[j]):
                    j += 1
                if j < n and s[j] == "'" and j - k == 1:
                    toks.append(('char', i, j + 1)); i = j + 1; continue
                toks.append(('life', i, j)); i = j; continue
            j = k
            if j < n and s[j] == '\\':
                j += 2
                while j < n and s[j] != "'":
                    j += 1
            else:
                j += 1
            j += 1
            toks.append(('char', i, j)); i = j; continue
        if ID_START.match(c):
            j = i + 1
            while j < n and ID_CONT.match(s[j]):
                j += 1
            toks.append(('id', i, j)); i = j; continue
        if c.isdigit():
            j = i + 1
            while j < n and (ID_CONT.match(s[j]) or (s[j] == '.' and j + 1 < n and s[j + 1].isdigit())):
                j += 1
            toks.append(('num', i, j)); i = j; continue
        toks.append(('p', i, i + 1)); i += 1
    return toks


OPEN = {'{': '}', '(': ')', '[': ']'}
CLOSE = {'}': '{', ')': '(', ']': '['}


class Src:
    def __init__(self, text, path='<mem>'):
        self.text = text
        self.path = path
        self.toks = tokenize(text)
        # code tokens = indices of non-ws, non-comment tokens
        self.code = [k for k, t in enumerate(self.toks) if t[0] not in ('ws', 'lc', 'bc')]
        self._match = None

    def tok_text(self, k):
        t = self.toks[k]
        return self.text[t[1]:t[2]]

    def is_p(self, k, ch):
        t = self.toks[k]
        return t[0] == 'p' and self.text[t[1]] == ch

    def matches(self):
        """map open-token-index -> close-token-index (and reverse) for {}, (), []"""
        if self._match is None:
            m = {}
            st = []
            for k in self.code:
                t = self.toks[k]
                if t[0] != 'p':
                    continue
                ch = self.text[t[1]]
                if ch in OPEN:
                    st.append((ch, k))
                elif ch in CLOSE:
                    if not st or st[-1][0] != CLOSE[ch]:
                        raise ScanError('%s: unbalanced %r at offset %d' % (self.path, ch, t[1]))
                    o = st.pop()[1]
                    m[o] = k
                    m[k] = o
            if st:
                raise ScanError('%s: unclosed %r' % (self.path, st[-1][0]))
            self._match = m
        return self._match

    def line_of(self, off):
        return self.text.count('\n', 0, off) + 1

    # ---- navigation over code tokens --------------------------------------
    def next_code(self, k):
        """index of next code token after token index k (or None)"""
        import bisect
        p = bisect.bisect_right(self.code, k)
        return self.code[p] if p < len(self.code) else None

    def prev_code(self, k):
        import bisect
        p = bisect.bisect_left(self.code, k) - 1
        return self.code[p] if p >= 0 else None

    def depth_map(self):
        """brace depth ({} only) at each code token (depth before the token)"""
        d = {}
        depth = 0
        for k in self.code:
            if self.is_p(k, '}'):
                depth -= 1
            d[k] = depth
            if self.is_p(k, '{'):
                depth += 1
        return d


def skip_generics(src, k):
    """k indexes a '<' token; return index of matching '>' (handles nesting, ->, >>)."""
    depth = 0
    while k is not None:
        if src.is_p(k, '<'):
            depth += 1
        elif src.is_p(k, '>'):
            pk = src.prev_code(k)
            if not (pk is not None and src.is_p(pk, '-') and src.toks[pk][2] == src.toks[k][1]):
                depth -= 1
                if depth == 0:
                    return k
        elif src.is_p(k, '(') or src.is_p(k, '[') or src.is_p(k, '{'):
            k = src.matches()[k]
        k = src.next_code(k)
    raise ScanError('unbalanced generics')


def item_start_with_attrs(src, k):
    """Given token index k of the first keyword token of an item (e.g. `pub` or `fn`),
    walk backwards over attributes `#[...]`, doc comments and visibility to find the start
    offset including them.  Returns (start_offset_incl_attrs, start_offset_of_item)."""
    item_off = src.toks[k][1]
    j = k - 1
    start = item_off
    while j >= 0:
        t = src.toks[j]
        if t[0] == 'ws':
            j -= 1; continue
        if t[0] in ('lc', 'bc'):
            txt = src.text[t[1]:t[2]]
            if txt.startswith('///') or txt.startswith('/**') or txt.startswith('//!'):
                start = t[1]; j -= 1; continue
            # ordinary comment directly above the item: keep going only if contiguous
            start_candidate = t[1]
            j -= 1
            start = start_candidate
            continue
        if t[0] == 'p' and src.text[t[1]] == ']':
            o = src.matches()[j]
            po = src.prev_code(o)
            if po is not None and src.is_p(po, '#'):
                start = src.toks[po][1]
                j = po - 1
                continue
            # inner attribute #![..]
            if po is not None and src.is_p(po, '!'):
                ppo = src.prev_code(po)
                if ppo is not None and src.is_p(ppo, '#'):
                    break
        break
    return start, item_off


VIS = ('pub',)


def find_items(src, kind, name, within=None):
    """Yield (kw_tok, name_tok) for `kind name` (kind in struct/enum/const/fn/type/static/trait/mod)
    whose tokens lie within token range `within` = (lo, hi) exclusive (or whole file)."""
    lo, hi = within if within else (-1, len(src.toks))
    for idx, k in enumerate(src.code):
        if k <= lo or k >= hi:
            continue
        t = src.toks[k]
        if t[0] == 'id' and src.text[t[1]:t[2]] == kind:
            nk = src.next_code(k)
            if nk is not None and src.toks[nk][0] == 'id' and src.tok_text(nk) == name:
                yield k, nk


def item_first_token(src, kw):
    """walk back from keyword over `pub`, `pub(crate)`, `const`, `unsafe`, `async`, `extern "C"`"""
    k = kw
    while True:
        pk = src.prev_code(k)
        if pk is None:
            return k
        tt = src.tok_text(pk)
        if src.toks[pk][0] == 'id' and tt in ('pub', 'const', 'unsafe', 'async', 'default'):
            k = pk; continue
        if src.is_p(pk, ')'):
            o = src.matches()[pk]
            po = src.prev_code(o)
            if po is not None and src.tok_text(po) == 'pub':
                k = po; continue
        return k


def item_end(src, kw):
    """token index of the last token of the item starting at keyword kw: either `;` at
    nesting 0 or the closing `}` of the first top-level `{`."""
    k = src.next_code(kw)
    while k is not None:
        if src.is_p(k, '(') or src.is_p(k, '['):
            k = src.matches()[k]
        elif src.is_p(k, '<'):
            # generics only directly after name / impl; otherwise comparisons can't occur in item headers
            k = skip_generics(src, k)
        elif src.is_p(k, '{'):
            return src.matches()[k]
        elif src.is_p(k, ';'):
            return k
        k = src.next_code(k)
    raise ScanError('item end not found')


def find_impl_blocks(src, type_name, trait=None):
    """Yield (impl_kw_tok, open_brace_tok, close_brace_tok) for `impl[<..>] [Trait for] type_name[<..>] {`."""
    for k in src.code:
        t = src.toks[k]
        if t[0] == 'id' and src.tok_text(k) == 'impl':
            # collect header tokens up to '{'
            j = src.next_code(k)
            hdr = []
            if j is not None and src.is_p(j, '<'):
                j = src.next_code(skip_generics(src, j))
            gens = []
            while j is not None and not src.is_p(j, '{'):
                if src.is_p(j, '<'):
                    e = skip_generics(src, j)
                    hdr.append('<>')
                    gens.append((len(hdr) - 1, ''.join(src.text[src.toks[j][1]:src.toks[e][2]].split())))
                    j = src.next_code(e)
                    continue
                hdr.append(src.tok_text(j))
                j = src.next_code(j)
            if j is None:
                continue
            # hdr like ['Packet','<>'] or ['From','<>','for','SerializationError'] or ['fmt','::','Display','for','X']
            if 'where' in hdr:
                hdr = hdr[:hdr.index('where')]
            if 'for' in hdr:
                fi = hdr.index('for')
                tr = [h for h in hdr[:fi] if h != '<>']
                ty = [h for h in hdr[fi + 1:] if h != '<>']
            else:
                tr = None
                ty = [h for h in hdr if h != '<>']
            tyname = ty[-1] if ty else None
            trname = tr[-1] if tr else None
            if trait and '<' in trait and 'for' in hdr:
                # `trait=From<TokenGenerationError>`: the generic argument of the trait must match as well
                want_name, want_gen = trait.split('<', 1)
                want_gen = '<' + ''.join(want_gen.split())
                got = [g for (pos, g) in gens if pos < hdr.index('for')]
                g = got[-1][1:-1] if got else None
                w = want_gen[1:-1]
                if tyname == type_name and trname == want_name and g is not None and (g == w or g.endswith('::' + w) or w.endswith('::' + g)):
                    yield k, j, src.matches()[j]
                continue
            if tyname == type_name and trname == trait:
                yield k, j, src.matches()[j]


def split_fn(src, kw):
    """For fn keyword token kw return dict with token indices:
    first (start incl. vis), name, lparen, rparen, body_open, body_close, ret (arrow tok or None)."""
    first = item_first_token(src, kw)
    name = src.next_code(kw)
    k = src.next_code(name)
    if src.is_p(k, '<'):
        k = src.next_code(skip_generics(src, k))
    if not src.is_p(k, '('):
        raise ScanError('fn: expected ( after name')
    lparen = k
    rparen = src.matches()[k]
    k = src.next_code(rparen)
    arrow = None
    while k is not None:
        if src.is_p(k, '-'):
            nk = src.next_code(k)
            if src.is_p(nk, '>') and arrow is None:
                arrow = k
                k = src.next_code(nk)
                continue
        if src.is_p(k, '<'):
            k = src.next_code(skip_generics(src, k)); continue
        if src.is_p(k, '(') or src.is_p(k, '['):
            k = src.next_code(src.matches()[k]); continue
        if src.is_p(k, '{'):
            return dict(first=first, kw=kw, name=name, lparen=lparen, rparen=rparen, arrow=arrow,
                        body_open=k, body_close=src.matches()[k])
        if src.is_p(k, ';'):
            return dict(first=first, kw=kw, name=name, lparen=lparen, rparen=rparen, arrow=arrow,
                        body_open=None, body_close=k)
        k = src.next_code(k)
    raise ScanError('fn body not found')
