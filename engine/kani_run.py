"""Kani route: copies the crate(s) from /repo's working tree into a scratch directory outside /repo and /verif,
appends the harness module, runs `cargo kani` (offline) on the selected harnesses and parses the per-check results.

A harness is `complete` (loop-free or width-bounded loops over a full symbolic domain: counts as a proof of its
assertions) or `bounded` (stated bound; reported as bounded and never counted as proved).
"""
import json
import os
import re
import shutil
import subprocess
import tempfile
import time

REPO = os.environ.get('VERIF_REPO', '/repo')
VERIF = os.path.dirname(os.path.dirname(os.path.abspath(__file__)))

# name -> metadata.  `tier`: 'quick' harnesses run in both tiers, 'thorough' only in the thorough tier.
HARNESSES = {
    'U11': dict(
        crate='renetcode', title='netcode packet/prefix/sequence codecs (renetcode/src/packet.rs)',
        props=['C04', 'C07', 'C13', 'C16', 'C17', 'C19'],
        functions=['sequence_bytes_required', 'encode_prefix', 'decode_prefix', 'write_sequence', 'read_sequence',
                   'get_additional_data', 'Packet::encode', 'Packet::decode', 'Packet::read', 'Packet::write',
                   'ChallengeToken::decode'],
        harnesses=[],
    ),
    'U12': dict(
        crate='renetcode', title='NetcodeClient state machine (renetcode/src/client.rs)',
        props=['C04', 'C07', 'C17', 'C18', 'C13'],
        functions=['NetcodeClient::{new,process_packet,generate_payload_packet,update,update_internal_state,generate_packet,disconnect}'],
        harnesses=[],
    ),
    'U21': dict(
        crate='renetcode', title='connection-table lookup helpers of renetcode/src/server.rs (BOUNDED: 4-slot tables)',
        props=['C04', 'C10'],
        functions=['find_client_by_id', 'find_client_mut_by_id', 'find_client_slot_by_id', 'find_client_mut_by_addr'],
        harnesses=[],
    ),
}


def _load_harness_table():
    """harness metadata lives next to the harness source as `// @harness name props=.. tier=.. kind=complete|bounded timeout=.. :: text`"""
    for crate in ('renetcode',):
        d = os.path.join(VERIF, 'kani', crate)
        if not os.path.isdir(d):
            continue
        for fn in sorted(os.listdir(d)):
            if not fn.endswith('.rs'):
                continue
            for line in open(os.path.join(d, fn)):
                m = re.match(r'//\s*@harness\s+(\w+)\s+unit=(\w+)\s+props=(\S+)\s+tier=(\w+)\s+kind=(\w+)\s+timeout=(\d+)\s*::\s*(.*)$', line.strip())
                if m:
                    name, unit, props, tier, kind, timeout, text = m.groups()
                    HARNESSES[unit]['harnesses'].append(dict(name=name, props=props.split(','), tier=tier, kind=kind, timeout=int(timeout),
                                                             text=text, crate=crate, module=fn[:-3]))


_load_harness_table()


def registry():
    return [dict(engine='kani', name=u, props=d['props'], path=None, title=d['title']) for u, d in HARNESSES.items() if d['harnesses']]


def input_hash(crates, hs):
    import hashlib
    h = hashlib.sha256()
    for c in crates:
        for base in (os.path.join(REPO, c), os.path.join(VERIF, 'kani', c)):
            for root, dirs, files in os.walk(base):
                dirs[:] = sorted(d for d in dirs if d != 'target')
                for fn in sorted(files):
                    if fn.endswith(('.rs', '.toml')):
                        p = os.path.join(root, fn)
                        h.update(os.path.relpath(p, base).encode())
                        with open(p, 'rb') as f:
                            h.update(f.read())
    with open(os.path.join(REPO, 'Cargo.lock'), 'rb') as f:
        h.update(f.read())
    h.update(repr(sorted((x['name'], x['timeout']) for x in hs)).encode())
    with open(os.path.abspath(__file__), 'rb') as f:
        h.update(f.read())
    return h.hexdigest()


def make_scratch(crates):
    tmp = tempfile.mkdtemp(prefix='verif-kani-', dir='/tmp')
    for c in crates:
        shutil.copytree(os.path.join(REPO, c), os.path.join(tmp, c), ignore=shutil.ignore_patterns('target'))
    shutil.copy(os.path.join(REPO, 'Cargo.lock'), os.path.join(tmp, 'Cargo.lock'))
    with open(os.path.join(tmp, 'Cargo.toml'), 'w') as f:
        f.write('[workspace]\nmembers = [%s]\nresolver = "2"\n' % ', '.join('"%s"' % c for c in crates))
    os.makedirs(os.path.join(tmp, '.cargo'))
    with open(os.path.join(tmp, '.cargo', 'config.toml'), 'w') as f:
        f.write('[net]\noffline = true\n')
    for c in crates:
        d = os.path.join(VERIF, 'kani', c)
        for fn in sorted(os.listdir(d)):
            if fn.endswith('.rs'):
                # the harness text becomes a child module of the file it inspects (reaches that file's private items)
                with open(os.path.join(d, fn)) as hf, open(os.path.join(tmp, c, 'src', fn), 'a') as f:
                    f.write(hf.read())
    return tmp


CHECK_RE = re.compile(r'^Check (\d+): (\S+)\s*$')


def parse_kani_output(text):
    """returns list of per-harness dicts: name, checks(total), failed[list], status, time"""
    res = []
    cur = None
    chk = None
    for line in text.split('\n'):
        m = re.match(r'^Checking harness (\S+?)\.\.\.', line)
        if m:
            cur = dict(name=m.group(1), total=0, failed=[], status=None, unreachable=0, undetermined=0)
            res.append(cur)
            chk = None
            continue
        if cur is None:
            continue
        m = CHECK_RE.match(line)
        if m:
            chk = dict(id=m.group(2))
            cur['total'] += 1
            continue
        if chk is not None:
            s = line.strip()
            if s.startswith('- Status:'):
                chk['status'] = s.split(':', 1)[1].strip()
                if chk['status'] == 'FAILURE':
                    cur['failed'].append(chk)
                elif chk['status'] == 'UNREACHABLE':
                    cur['unreachable'] += 1
                elif chk['status'] == 'UNDETERMINED':
                    cur['undetermined'] += 1
            elif s.startswith('- Description:'):
                chk['description'] = s.split(':', 1)[1].strip().strip('"')
            elif s.startswith('- Location:'):
                chk['location'] = s.split(':', 1)[1].strip()
        m = re.match(r'^VERIFICATION:- (\w+)', line)
        if m:
            cur['status'] = m.group(1)
        m = re.match(r'^Verification Time: ([\d.]+)s', line)
        if m:
            cur['time_s'] = float(m.group(1))
    return res


def inline_stubs_for_playback(tmp, h):
    """Kani's `#[kani::stub(ORIG, STUB)]` is not applied in a native run.  For the replay, the scratch copy is edited so that the body of every
    stubbed function of this harness becomes a call to its stub (same signature by construction): the native run then follows the same code as
    the verified one -- the real code with the named callees (AEAD, replay window, codec) replaced by their contract stubs.  Returns the list of
    replaced functions, or None if something could not be located."""
    import sys as _sys
    _sys.path.insert(0, os.path.dirname(os.path.abspath(__file__)))
    import rustscan as RS
    hmod = h['module'].split('::')[-1]
    hfile = os.path.join(tmp, h['crate'], 'src', hmod + '.rs')
    text = open(hfile).read()
    m = re.search(r'((?:\s*#\[[^\n]*\]\n)+)\s*(?:pub\s+)?fn %s\s*\(' % re.escape(h['name']), text)
    if not m:
        return None
    pairs = re.findall(r'#\[kani::stub\(([\w:]+),\s*(\w+)\)\]', m.group(1))
    done = []
    for orig, stub in pairs:
        parts = orig.replace('crate::', '').split('::')
        fname = parts[-1]
        tname = parts[-2] if len(parts) == 3 else None
        f = os.path.join(tmp, h['crate'], 'src', parts[0] + '.rs')
        try:
            src = RS.Src(open(f).read(), f)
        except Exception:
            return None
        cands = []
        if tname:
            for _, o, c in RS.find_impl_blocks(src, tname, None):
                for kw, nm in RS.find_items(src, 'fn', fname, within=(o, c)):
                    cands.append(kw)
        else:
            depth = src.depth_map()
            cands = [kw for kw, nm in RS.find_items(src, 'fn', fname) if depth[kw] == 0]
        if len(cands) != 1:
            return None
        parts_fn = RS.split_fn(src, cands[0])
        params = src.text[src.toks[parts_fn['lparen']][2]:src.toks[parts_fn['rparen']][1]]
        args, depth_p, cur = [], 0, ''
        for ch in params:
            if ch in '(<[':
                depth_p += 1
            elif ch in ')>]':
                depth_p -= 1
            if ch == ',' and depth_p == 0:
                args.append(cur)
                cur = ''
            else:
                cur += ch
        if cur.strip():
            args.append(cur)
        names = []
        for a in args:
            a = a.strip()
            if re.match(r'^(&\s*(\'\w+\s+)?(mut\s+)?)?self$', a) or a.startswith('self:') or a.startswith('mut self'):
                names.append('self')
            else:
                names.append(re.sub(r'^mut\s+', '', a.split(':', 1)[0].strip()))
        a0, b0 = src.toks[parts_fn['body_open']][2], src.toks[parts_fn['body_close']][1]
        new = src.text[:a0] + ' crate::%s::verif_kani::%s(%s) ' % (hmod, stub, ', '.join(names)) + src.text[b0:]
        with open(f, 'w') as fh:
            fh.write(new)
        done.append('%s -> %s' % (orig, stub))
    return done


def concrete_playback(tmp, env, base, h, workdir):
    """The harness failed: ask Kani for the counterexample as a unit test (values of every kani::any()), add it next to the harness in the
    scratch copy and run it natively (`cargo kani playback`): the real code, compiled by rustc, on the counterexample.  Kani's stubs are not
    active in a native run, so a counterexample that depends on a stub's nondeterministic answer may not reproduce; that is reported as such."""
    out = dict(failing_input=None, replay_test=None, replay_result=None)
    full = '%s::verif_kani::%s' % (h['module'], h['name'])
    c = base + ['-Z', 'concrete-playback', '--concrete-playback=print', '--harness-timeout', '%ds' % h['timeout'], '--harness', full]
    try:
        p = subprocess.run(c, cwd=tmp, env=env, stdout=subprocess.PIPE, stderr=subprocess.STDOUT, text=True, timeout=h['timeout'] + 300)
    except subprocess.TimeoutExpired:
        out['replay_result'] = 'counterexample extraction timed out'
        return out
    # Kani prints the test between ``` fences; its doc comment repeats the (possibly multi-line) assertion text, so only the code is kept
    m = re.search(r'(#\[test\]\s*fn (kani_concrete_playback_%s_\d+)\(\) \{.*?\n\}\n)' % re.escape(h['name']), p.stdout, re.S)
    if not m:
        out['replay_result'] = 'Kani produced no concrete counterexample for this failure'
        return out
    src = os.path.join(tmp, h['crate'], 'src', h['module'].split('::')[-1] + '.rs')
    text = open(src).read().rstrip()
    text = re.sub(r'\}\s*//[^\n]*$', '}', text)          # a trailing `} // mod verif_kani`
    if not text.endswith('}'):
        out['replay_result'] = 'could not place the generated test next to the harness'
        return out
    with open(src, 'w') as f:
        f.write(text[:-1] + '\n' + m.group(1) + '}\n')
    test_src, test_name = m.group(1), m.group(2)
    out['replay_test'] = test_src
    vals = re.search(r'let concrete_vals: Vec<Vec<u8>> = vec!\[(.*?)\];', test_src, re.S)
    out['failing_input'] = 'values of the kani::any() calls of harness %s, in call order (comment = decoded value):\n%s' % (
        h['name'], vals.group(1).strip() if vals else '?')
    inlined = None
    try:
        inlined = inline_stubs_for_playback(tmp, h)
    except Exception as e:  # the replay is a convenience: never let it break the verdict
        inlined = None
    out['stubs_compiled_in'] = inlined
    try:
        q = subprocess.run(['cargo', 'kani', 'playback', '-Z', 'concrete-playback', '-p', h['crate'], '--', test_name], cwd=tmp, env=env,
                           stdout=subprocess.PIPE, stderr=subprocess.STDOUT, text=True, timeout=1200)
        txt = q.stdout
    except subprocess.TimeoutExpired:
        out['replay_result'] = 'native replay timed out'
        return out
    os.makedirs(workdir, exist_ok=True)
    with open(os.path.join(workdir, 'playback_%s.txt' % h['name']), 'w') as f:
        f.write(txt)
    pan = re.search(r"panicked at ([^\n]*)\n([^\n]*)", txt)
    if 'test result: FAILED' in txt and pan:
        how = 'native run of the counterexample' if not inlined else 'native run of the counterexample, with the callees this harness stubs compiled in as those stubs: ' + '; '.join(inlined)
        out['replay_result'] = 'REPRODUCED on the real code (%s): panicked at %s: %s' % (how, pan.group(1).strip(), pan.group(2).strip())
        out['reproduced'] = True
    elif 'test result: ok' in txt:
        out['replay_result'] = 'not reproduced natively (the counterexample depends on a stubbed callee: Kani stubs are inactive in a native run)'
    else:
        out['replay_result'] = 'native replay inconclusive: ' + ' '.join(txt.split('\n')[-6:])[:400]
    return out


def run_unit(u, tier, workdir, prop=None):
    t0 = time.time()
    unit = HARNESSES[u['name']]
    # all harnesses of the unit for this tier are run (and cached) together; the caller filters failures by property
    hs = [h for h in unit['harnesses'] if (tier == 'thorough' or h['tier'] == 'quick')]
    res = dict(unit=u['name'], title=unit['title'], status='undecided', failures=[], functions=[], notes=[], harnesses=[h['name'] for h in hs],
               trusted=['AEAD (chacha20poly1305) replaced by precondition-checking stubs with nondeterministic verdict',
                        'Kani stubs for OS randomness'], samples=[], bounded_notes=[])
    if not hs:
        res['status'] = 'verified'
        res['notes'].append('no harness of this unit carries %s in tier %s' % (prop, tier))
        res['wall_s'] = 0.0
        return res
    crates = sorted(set(h['crate'] for h in hs))
    # Result cache keyed by the SHA-256 of everything the verdict depends on (crate sources from /repo's working tree,
    # harness sources, harness selection).  A hit means byte-identical inputs; VERIF_NO_CACHE=1 disables it.
    key = input_hash(crates, hs)
    res['input_sha256'] = key
    cpath = os.path.join(VERIF, 'work', 'cache', 'kani-%s-%s.json' % (u['name'], key[:32]))
    if os.path.exists(cpath) and not os.environ.get('VERIF_NO_CACHE'):
        with open(cpath) as f:
            cached = json.load(f)
        cached['cache'] = 'hit (inputs byte-identical to the run of %s, which took %.0f s)' % (cached.get('ran_at'), cached.get('wall_s', 0))
        cached['wall_s_original'] = cached.get('wall_s')
        cached['wall_s'] = time.time() - t0
        return cached
    tmp = make_scratch(crates)
    try:
        base = ['cargo', 'kani', '-p', crates[0], '-Z', 'stubbing', '-Z', 'function-contracts', '-Z', 'unstable-options',
                '--output-format', 'regular', '--exact']
        res['checker_cmd'] = 'cd <scratch copy of %s> && CARGO_NET_OFFLINE=true %s --harness <each of %s>' % (
            '+'.join(crates), ' '.join(base), ','.join(h['name'] for h in hs))
        env = dict(os.environ, CARGO_NET_OFFLINE='true', CARGO_TARGET_DIR=os.path.join(tmp, 'target'))
        # 1. build once
        pb = subprocess.run([x for x in base if x != '--exact'] + ['--only-codegen'], cwd=tmp, env=env, stdout=subprocess.PIPE, stderr=subprocess.STDOUT, text=True, timeout=1800)
        out = pb.stdout
        # 2. one process per harness, in parallel (each CBMC run is single-threaded)
        import concurrent.futures as cf

        def limit_mem():
            # CBMC can exhaust memory on blown-up formulas; never let one harness take the machine down
            import resource
            lim = int(os.environ.get('VERIF_KANI_MEM_GB', '14')) * (1 << 30)
            resource.setrlimit(resource.RLIMIT_AS, (lim, lim))

        def one(h):
            c = base + ['--harness-timeout', '%ds' % h['timeout'], '--harness', '%s::verif_kani::%s' % (h['module'], h['name'])]
            try:
                p = subprocess.run(c, cwd=tmp, env=env, stdout=subprocess.PIPE, stderr=subprocess.STDOUT, text=True, timeout=h['timeout'] + 300,
                                   preexec_fn=limit_mem)
                return p.stdout
            except subprocess.TimeoutExpired as e:
                o = e.stdout.decode(errors='replace') if isinstance(e.stdout, bytes) else (e.stdout or '')
                return o + '\nTIMEOUT %s\n' % h['name']

        if pb.returncode == 0:
            with cf.ThreadPoolExecutor(max_workers=int(os.environ.get('VERIF_KANI_JOBS', '6'))) as ex:
                for o in ex.map(one, hs):
                    out += '\n' + o
        os.makedirs(workdir, exist_ok=True)
        with open(os.path.join(workdir, 'kani_output.txt'), 'w') as f:
            f.write(out)
        parsed = {h['name'].split('::')[-1]: h for h in parse_kani_output(out)}
        if 'error: could not compile' in out or 'error[E' in out:
            res['notes'].append('harness crate failed to compile (changed signatures?): ' + '; '.join(
                l for l in out.split('\n') if l.startswith('error'))[:600])
        undec = False
        for h in hs:
            ph = parsed.get(h['name'])
            row = dict(function='verif_kani::' + h['name'], mode='kani harness', success=False, smt_ms=None, rlimit=None,
                       obligations=0, bounded=(h['kind'] != 'complete'), props=h['props'])
            if ph is None or ph.get('status') is None:
                undec = True
                res['notes'].append('harness %s produced no verdict (timeout / resource limit / compile error)' % h['name'])
                res['functions'].append(row)
                continue
            row['obligations'] = ph['total']
            row['smt_ms'] = int(ph.get('time_s', 0) * 1000)
            row['success'] = ph['status'] == 'SUCCESSFUL'
            res['functions'].append(row)
            res['samples'].append('kani %s (%s): %s -- %d checks, %s' % (h['name'], h['kind'], h['text'], ph['total'], ph['status']))
            if h['kind'] != 'complete':
                res['bounded_notes'].append('%s: BOUNDED stand-in (%s); not counted as proved' % (h['name'], h['text']))
            if ph['undetermined']:
                undec = True
            for c in ph['failed']:
                desc = c.get('description', '')
                loc = c.get('location', '')
                if 'unwinding assertion' in desc:
                    undec = True
                    res['notes'].append('%s: unwinding assertion failed (%s): bound too small -> undecided' % (h['name'], loc))
                    continue
                site = re.sub(r':\d+:\d+', '', loc)
                res['failures'].append(dict(
                    kind='kani_check_failed', message=desc, fn='verif_kani::' + h['name'], props=h['props'],
                    obligation='%s:%s:%s@%s' % (u['name'], h['name'], re.sub(r'[^A-Za-z0-9_ .<>=!+*/&|-]+', '', desc)[:80], site),
                    repo_site=loc, rendered='Check %s\n - Description: %s\n - Location: %s\n' % (c.get('id'), desc, loc)))
        # counterexamples: one native replay per failed harness
        if res['failures'] and not os.environ.get('VERIF_NO_PLAYBACK'):
            by_h = {}
            for f in res['failures']:
                by_h.setdefault(f['fn'].split('::')[-1], []).append(f)
            for h in hs:
                if h['name'] in by_h:
                    pb_res = concrete_playback(tmp, env, base, h, workdir)
                    for f in by_h[h['name']]:
                        f['replay_test'] = pb_res.get('replay_test')
                        f['replay_result'] = pb_res.get('replay_result')
                        f['counterexample'] = pb_res.get('failing_input')
                        if pb_res.get('reproduced'):
                            f['failing_input'] = pb_res.get('failing_input')
        # de-duplicate
        seen, uniq = set(), []
        for f in res['failures']:
            if f['obligation'] not in seen:
                seen.add(f['obligation'])
                uniq.append(f)
        res['failures'] = uniq
        if uniq:
            res['status'] = 'failed'
        elif undec:
            res['status'] = 'undecided'
        else:
            res['status'] = 'verified'
    finally:
        shutil.rmtree(tmp, ignore_errors=True)
    res['wall_s'] = time.time() - t0
    res['woven_functions'] = [dict(qual=f, file=unit['crate'], line=0, contracted=True, safety=unit['props']) for f in unit['functions']]
    res['ran_at'] = time.strftime('%Y-%m-%dT%H:%M:%S')
    res['cache'] = 'miss'
    if res['status'] in ('verified', 'failed'):
        os.makedirs(os.path.dirname(cpath), exist_ok=True)
        with open(cpath, 'w') as f:
            json.dump(res, f)
    return res


if __name__ == '__main__':
    import sys
    r = run_unit(dict(name=sys.argv[1]), sys.argv[2] if len(sys.argv) > 2 else 'quick', os.path.join(VERIF, 'work', 'kani_' + sys.argv[1]),
                 sys.argv[3] if len(sys.argv) > 3 else None)
    print(json.dumps(r, indent=1))
