"""Runs Verus on one woven unit and turns its diagnostics into named obligations.

run_unit(unit_template_path, workdir, canary=False) -> dict with
  status: 'verified' | 'failed' | 'undecided'
  failures: [ {obligation, kind, message, fn, props, label, repo_site, text, rendered} ]
  functions: [ {qual, success, smt_ms, rlimit, obligations} ]
  ... timing, scan of assumptions, rules, hashes
"""
import json
import os
import re
import subprocess
import sys
import time

sys.path.insert(0, os.path.dirname(os.path.abspath(__file__)))
import weave as W

VERUS = os.environ.get('VERUS', 'verus')

DEFINITE = (
    'postcondition not satisfied',
    'precondition not satisfied',
    'precondition not met',      # e.g. `index in bounds for this access` on array/slice indexing
    'assertion failed',
    'possible arithmetic underflow/overflow',
    'possible division by zero',
    'invariant not satisfied',
    'decreases not satisfied',
    'unreachable',
    'possible bit shift underflow/overflow',
    'recommendation not met',  # ignored below (level note)
    'cannot prove',
    'assertion not satisfied',
    'loop invariant',
    'might not be allowed',
)
TOOL_LIMIT = ('resource limit', 'rlimit', 'timed out', 'could not finish', 'not all errors may have been reported')


def scan_assumptions(text):
    pats = {
        'assume(': r'\bassume\s*\(',
        'admit(': r'\badmit\s*\(',
        'external_body': r'external_body',
        'assume_specification': r'assume_specification',
        'external_type_specification': r'external_type_specification',
        'uninterp spec fn': r'\buninterp\s+spec\s+fn',
        'external (attribute)': r'verifier::external\b',
    }
    res = {}
    lines = text.split('\n')
    for name, p in pats.items():
        rx = re.compile(p)
        hits = []
        for i, l in enumerate(lines):
            code = l.split('//')[0]
            if rx.search(code):
                hits.append(i + 1)
        if hits:
            res[name] = len(hits)
    return res


def air_obligation_counts(logdir, crate):
    """count `(location` markers (one per individually reported proof obligation per exit path)
    in the final AIR, per function of this crate"""
    counts = {}
    if not os.path.isdir(logdir):
        return counts
    for fn in os.listdir(logdir):
        if not fn.endswith('-final.air'):
            continue
        cur = None
        with open(os.path.join(logdir, fn), errors='replace') as f:
            for line in f:
                if line.startswith(';; Function-'):
                    m = re.match(r';; Function-(\w+) (\S+)', line)
                    cur = m.group(2) if m and m.group(1) in ('Def', 'Termination', 'Decrease') else None
                    # Function-Def = body check (exec/proof); others (Specs/Axioms/Decl) carry no obligations
                    if m and m.group(1) == 'Def':
                        cur = m.group(2)
                elif cur is not None:
                    c = line.count('(location')
                    if c:
                        counts[cur] = counts.get(cur, 0) + c
    return counts


def run_unit(unit_path, workdir, canary=False, rlimit=None, extra_mutation=None, threads=None):
    t0 = time.time()
    res = dict(unit=os.path.basename(unit_path)[:-3], status='undecided', failures=[], functions=[], notes=[],
               canary=canary)
    try:
        info = W.weave(unit_path)
    except (W.WeaveError, Exception) as e:  # ScanError too
        res['notes'].append('weave: %s: %s' % (type(e).__name__, e))
        res['wall_s'] = time.time() - t0
        return res
    res['unit'] = info['unit']
    res['title'] = info['title']
    res['props'] = info['props']
    res['rules'] = info['rules']
    res['hashes'] = info['hashes']
    res['lost_anchors'] = info['lost']
    res['includes'] = info['includes']
    res['stubs'] = info['stubs']
    text = info['text']
    origin = info['origin']
    if extra_mutation:
        text = extra_mutation(text)
    if canary:
        # insert `proof { assert(false); }`-style canary: at the entry of every contracted function body
        lines = text.split('\n')
        ins = []
        for f in info['functions']:
            if not f['contracted']:
                continue
            # body opens at the first line within [out_start, out_end] that is exactly the `{` emitted after the spec
            for ln in range(f['out_start'] - 1, f['out_end']):
                if lines[ln].lstrip().startswith('{') and origin[ln]['kind'] == 'repo' and ln > f['out_start'] - 1:
                    ins.append((ln, f['qual']))
                    break
        for ln, q in sorted(ins, reverse=True):
            l = lines[ln]
            k = l.index('{')
            lines[ln] = l[:k + 1] + ' proof { assert(false); } /*canary*/' + l[k + 1:]
        text = '\n'.join(lines)
        res['canary_sites'] = [q for _, q in ins]
    os.makedirs(workdir, exist_ok=True)
    crate = info['unit'].lower() + ('_canary' if canary else '')
    src = os.path.join(workdir, crate + '.rs')
    with open(src, 'w') as f:
        f.write(text)
    logdir = os.path.join(workdir, crate + '.log')
    subprocess.run(['rm', '-rf', logdir])
    cmd = [VERUS, src, '--error-format=json', '--output-json', '--time', '--multiple-errors', '30',
           '--triggers-mode', 'silent', '--no-report-long-running']
    if not canary:
        cmd += ['--log', 'air-final', '--log-dir', logdir]
    rlimit = rlimit or info.get('rlimit')
    if rlimit:
        cmd += ['--rlimit', str(rlimit)]
    if threads:
        cmd += ['--num-threads', str(threads)]
    res['checker_cmd'] = ' '.join(cmd)
    try:
        p = subprocess.run(cmd, stdout=subprocess.PIPE, stderr=subprocess.PIPE, text=True, timeout=900, cwd=workdir)
    except subprocess.TimeoutExpired:
        res['notes'].append('verus timed out after 900 s')
        res['wall_s'] = time.time() - t0
        return res
    res['verus_rc'] = p.returncode
    out_json = None
    try:
        out_json = json.loads(p.stdout)
    except Exception:
        res['notes'].append('no JSON on verus stdout: %r' % p.stdout[:300])
    diags = []
    for line in p.stderr.split('\n'):
        line = line.strip()
        if line.startswith('{'):
            try:
                diags.append(json.loads(line))
            except Exception:
                pass
    res['wall_s'] = time.time() - t0
    fnmap = info['functions']

    def fn_at(line):
        for f in fnmap:
            if f['out_start'] <= line <= f['out_end']:
                return f
        return None

    hard_errors = []
    failures = []
    tool_limits = []
    srclines = text.split('\n')
    for d in diags:
        lvl = d.get('level')
        msg = d.get('message', '')
        if lvl not in ('error',):
            if lvl == 'note' and any(t in msg.lower() for t in ('resource limit', 'rlimit')):
                tool_limits.append(msg)
            continue
        if msg.startswith('aborting due to'):
            continue
        low = msg.lower()
        spans = d.get('spans', [])
        in_file = [s for s in spans if os.path.basename(s.get('file_name', '')) == os.path.basename(src)]
        if any(t in low for t in ('resource limit', 'rlimit exceeded', 'timed out')):
            tool_limits.append(msg)
            continue
        definite = any(t in low for t in DEFINITE) and d.get('code') is None
        if not definite or not in_file:
            hard_errors.append(msg + ' @ ' + ';'.join('%s:%s' % (s.get('file_name'), s.get('line_start')) for s in spans))
            continue
        # attribute: prefer a span on a labelled template line; else a span on a repo line
        labelled = None
        repo_span = None
        tmpl_span = None
        for s in in_file:
            o = origin[s['line_start'] - 1] if 0 < s['line_start'] <= len(origin) else None
            if o is None:
                continue
            if o['kind'] == 'tmpl':
                # search the labelled line: the span's first line or any line within the span
                for ln in range(s['line_start'], min(s['line_end'], s['line_start'] + 40) + 1):
                    oo = origin[ln - 1]
                    if oo.get('label'):
                        labelled = (oo, ln)
                        break
                if labelled is None:
                    tmpl_span = (o, s['line_start'])
            elif o['kind'] == 'repo' and repo_span is None:
                repo_span = (o, s['line_start'], s)
        primary = in_file[0]
        for s in in_file:
            if s.get('is_primary'):
                primary = s
        f = fn_at(primary['line_start'])
        fnq = f['qual'] if f else (origin[primary['line_start'] - 1].get('fn') or '?')
        kind = re.sub(r'[^a-z]+', '_', low).strip('_')[:40]
        fail = dict(kind=kind, message=msg, fn=fnq, rendered=d.get('rendered', '')[:4000])
        if labelled:
            oo, ln = labelled
            fail['label'] = oo['label']
            fail['props'] = oo['props']
            fail['obligation'] = '%s:%s:%s' % (info['unit'], fnq, oo['label'])
            fail['clause'] = srclines[ln - 1].strip()
        elif repo_span and primary is repo_span[2] or (repo_span and not tmpl_span):
            o, ln, s = repo_span
            fail['props'] = f['safety'] if f else info['props']
            site = re.sub(r'\s+', ' ', srclines[ln - 1].strip())
            frag = ''
            try:
                t = s['text'][0]
                frag = t['text'][t['highlight_start'] - 1:t['highlight_end'] - 1].strip()
            except Exception:
                pass
            fail['repo_site'] = '%s:%d' % (o['file'], o['line'])
            fail['site_text'] = site
            fail['fragment'] = frag
            fail['obligation'] = '%s:%s:%s@`%s`' % (info['unit'], fnq, kind, frag or site)
        else:
            o, ln = tmpl_span if tmpl_span else (origin[primary['line_start'] - 1], primary['line_start'])
            fail['props'] = f['safety'] if f else info['props']
            # proof-step (hint) assertion without a label: belongs to every property of the function's contract
            if f:
                allp = set()
                for k in range(f['out_start'] - 1, f['out_end']):
                    for pp in origin[k].get('props', []) or []:
                        allp.add(pp)
                if allp:
                    fail['props'] = sorted(allp)
            fail['obligation'] = '%s:%s:proof_step@%s:%d' % (info['unit'], fnq, o.get('file'), o.get('line', 0))
            fail['clause'] = srclines[ln - 1].strip()
        failures.append(fail)
    # de-duplicate
    seen = set()
    uniq = []
    for fl in failures:
        key = fl['obligation']
        if key in seen:
            continue
        seen.add(key)
        uniq.append(fl)
    # A function whose hint anchors were lost (the statement a proof hint was attached to is gone or changed) cannot be judged:
    # a failed obligation there may just be the missing hint.  Such failures make the unit UNDECIDED (exit 2), never an alarm.
    lost_fns = set(f['qual'] for f in fnmap if f.get('lost'))
    undecided_fails = [fl for fl in uniq if fl['fn'] in lost_fns]
    uniq = [fl for fl in uniq if fl['fn'] not in lost_fns]
    res['undecided_failures'] = [dict(obligation=fl['obligation'], message=fl['message']) for fl in undecided_fails]
    if undecided_fails:
        res['notes'].append('hint anchor lost in %s: %d failed obligation(s) there are not judged (undecided)' % (sorted(lost_fns), len(undecided_fails)))
    res['failures'] = uniq
    res['hard_errors'] = hard_errors
    res['tool_limits'] = tool_limits
    counts = air_obligation_counts(logdir, crate) if not canary else {}
    subprocess.run(['rm', '-rf', logdir])
    funcs = []
    if out_json:
        vr = out_json.get('verification-results', {})
        res['verus_verified'] = vr.get('verified')
        res['verus_errors'] = vr.get('errors')
        res['encountered_vir_error'] = vr.get('encountered-vir-error')
        tm = out_json.get('times-ms', {})
        res['smt_ms'] = tm.get('smt', {}).get('total')
        res['verus_total_ms'] = tm.get('total')
        for mod in tm.get('smt', {}).get('smt-run-module-times', []):
            for fb in mod.get('function-breakdown', []):
                name = fb['function']
                short = name.split('::', 1)[1] if '::' in name else name
                funcs.append(dict(function=short, mode=fb.get('mode:'), success=fb.get('success'), smt_ms=fb.get('time'),
                                  rlimit=fb.get('rlimit'), obligations=counts.get(name, 0)))
    res['functions'] = funcs
    res['woven_functions'] = [dict(qual=f['qual'], file=f['file'], line=f['line'], contracted=f['contracted'],
                                   safety=f['safety']) for f in fnmap]
    res['items'] = info['items']
    res['assumption_scan'] = scan_assumptions(text)
    res['woven_file'] = src
    res['woven_lines'] = len(srclines)
    if hard_errors or out_json is None or (out_json and out_json.get('verification-results', {}).get('encountered-vir-error')):
        res['status'] = 'undecided'
    elif uniq:
        res['status'] = 'failed'
    elif undecided_fails:
        res['status'] = 'undecided'
    elif tool_limits:
        res['status'] = 'undecided'
    elif out_json and out_json['verification-results'].get('success'):
        res['status'] = 'verified'
    else:
        res['status'] = 'undecided'
        res['notes'].append('verus reported failure without a classifiable diagnostic')
    return res


if __name__ == '__main__':
    r = run_unit(sys.argv[1], os.path.join(W.VERIF, 'work'), canary='--canary' in sys.argv)
    r.pop('hashes', None)
    for f in r['failures']:
        f.pop('rendered', None)
    print(json.dumps(r, indent=1))
