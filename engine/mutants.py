"""Sanity mutants (thorough tier): small semantic changes applied to the *woven text* of a unit in memory (never to /repo).
Each must make Verus report at least one failed obligation; a mutant that still verifies means the contracts are too weak
to notice that change ("survived").  This guards the contracts themselves, it is not part of any property's proof."""
import os
import re
import sys

sys.path.insert(0, os.path.dirname(os.path.abspath(__file__)))
import verus_run as VR

# unit -> list of (name, regex on the woven text (first match replaced), replacement)
MUTANTS = {
    'U1': [
        ('cap_65', r'if self\.pending_acks\.len\(\) > 64 \{', 'if self.pending_acks.len() > 65 {'),
        ('merge_skipped', r'self\.pending_acks\[index\]\.end == self\.pending_acks\[next_index\]\.start', 'self.pending_acks[index].end > self.pending_acks[next_index].start'),
        ('trim_off_by_one', r'range\.start = largest_ack \+ 1;', 'range.start = largest_ack;'),
        ('extend_wrong_side', r'range\.end = sequence \+ 1;', 'range.end = sequence;'),
    ],
    'U2': [
        ('ge_to_gt', r'if self\.received_packet\[index\] >= sequence \{', 'if self.received_packet[index] > sequence {'),
        ('most_recent_min', r'if sequence > self\.most_recent_sequence \{', 'if sequence < self.most_recent_sequence {'),
        ('window_off_by_one', r'sequence <= self\.most_recent_sequence - NETCODE_REPLAY_BUFFER_SIZE as u64', 'sequence < self.most_recent_sequence - NETCODE_REPLAY_BUFFER_SIZE as u64'),
    ],
    'U3': [
        ('no_dup_guard', r'if !self\.received\[slice_index\] \{', 'if true {'),
        ('wrong_offset', r'let start = slice_index \* SLICE_SIZE;', 'let start = slice_index * SLICE_SIZE + 0 * 1; let start = if slice_index > 0 { start - 1 } else { start };'),
        ('complete_early', r'if self\.num_received_slices == self\.num_slices \{', 'if self.num_received_slices + 1 >= self.num_slices {'),
        ('last_slice_len_unchecked', r'if bytes\.len\(\) > SLICE_SIZE \{', 'if bytes.len() > SLICE_SIZE + 1 {'),
    ],
    'U4': [
        ('old_message_not_discarded', r'if message_id < self\.oldest_pending_message_id \{', 'if message_id + 1 < self.oldest_pending_message_id {'),
        ('memory_not_released', r'self\.oldest_pending_message_id \+= 1;\n(\s+)self\.memory_usage_bytes -= message\.len\(\);', r'self.oldest_pending_message_id += 1;'),
        ('unordered_dedupe_dropped', r'if !received_messages\.contains\(&message_id\) \{', 'if true {'),
        ('budget_check_off', r'if self\.memory_usage_bytes \+ message_len > self\.max_memory_usage_bytes \{', 'if self.memory_usage_bytes > self.max_memory_usage_bytes {'),
        ('cursor_skips', r'self\.oldest_pending_message_id \+= 1;\n(\s+)self\.memory_usage_bytes', r'self.oldest_pending_message_id += 2;\n\1self.memory_usage_bytes'),
    ],
    'U5': [
        ('timestamp_on_completion', r'self\.slices_last_received\.remove\(&slice\.message_id\);', ''),
        ('discard_after_off', r'if current_time - \*last_received >= DISCARD_AFTER \{', 'if current_time - *last_received > DISCARD_AFTER {'),
        ('budget_check_dropped', r'if self\.memory_usage_bytes \+ message_len > self\.max_memory_usage_bytes \{', 'if false {'),
        ('memory_not_released_on_discard', r'self\.memory_usage_bytes -= slice\.num_slices \* SLICE_SIZE;', ''),
        ('message_counted_twice', r'self\.memory_usage_bytes \+= message\.len\(\);\n(\s+)self\.messages\.push_back\(message\);', r'self.memory_usage_bytes += message.len(); self.memory_usage_bytes += message.len();\n\1self.messages.push_back(message);'),
    ],
    'U9': [
        ('sliced_message_joins_the_small_batch', r'(let start_index = \*next_slice_to_send;)', r'(*small_messages).push((message_id, message.clone())); \1'),
        ('resend_early', r'if current_time - \*last_sent < resend_time \{', 'if current_time - *last_sent > resend_time {'),
        ('acked_slice_resent', r'if acked\[i\] \{', 'if false {'),
        ('budget_not_charged_small', r'\*available_bytes -= message\.len\(\) as u64;', ''),
        ('slice_budget_check', r'if \*available_bytes < SLICE_SIZE as u64 \{', 'if *available_bytes < 0 {'),
        ('timestamp_not_recorded', r'last_sent\[i\] = Some\(current_time\);', ''),
        ('wrong_payload', r'let start = i \* SLICE_SIZE;', 'let start = 0;'),
        ('sequence_not_advanced', r'(slice,\n\s+\}\);\n\s+)\*packet_sequence \+= 1;', r'\1'),
    ],
    'U6': [
        ('dup_slice_ack_counts', r'if acked\[slice_index\] \{', 'if false {'),
        ('release_early', r'if \*num_acked_slices == \*num_slices \{', 'if *num_acked_slices + 1 >= *num_slices {'),
        ('budget_ignored', r'if self\.memory_usage_bytes \+ message\.len\(\) > self\.max_memory_usage_bytes \{', 'if false {'),
        ('id_reused', r'self\.next_reliable_message_id \+= 1;', 'self.next_reliable_message_id += 0;'),
        ('slice_threshold', r'if message\.len\(\) > SLICE_SIZE \{', 'if message.len() >= SLICE_SIZE {'),
    ],
    'U14': [
        ('reliable_send_channel_built_with_id_zero', r'SendChannelReliable::new\(channel_config\.channel_id, resend_time,', 'SendChannelReliable::new(0, resend_time,'),
        ('unordered_built_ordered', r'ReceiveChannelReliable::new\(channel_config\.max_memory_usage_bytes, false\)', 'ReceiveChannelReliable::new(channel_config.max_memory_usage_bytes, true)'),
        ('lists_swapped', r'config\.client_channels_config,(\s+)config\.server_channels_config,', r'config.server_channels_config,\1config.client_channels_config,'),
        ('budget_ignored', r'ReceiveChannelUnreliable::new\(channel_config\.channel_id, channel_config\.max_memory_usage_bytes\)', 'ReceiveChannelUnreliable::new(channel_config.channel_id, 0)'),
        ('send_order_wrong_kind', r'channel_send_order\.push\(ChannelOrder::Reliable\(channel_config\.channel_id\)\);', 'channel_send_order.push(ChannelOrder::Unreliable(channel_config.channel_id));'),
    ],
    'U19': [
        ('version_check_dropped', r'if version_info != \*NETCODE_VERSION_INFO \{', 'if false {'),
        ('oldest_entry_overrides_free_slot', r'if !empty_entry && e\.time < min \{', 'if e.time < min {'),
        ('token_reuse_check_after_full_check', r'if !self\.find_or_add_connect_token_entry\(connect_token_entry\) \{', 'if !self.find_or_add_connect_token_entry(connect_token_entry) && false {'),
        ('expiry_off_by_one', r'if self\.current_time\.as_secs\(\) >= expire_timestamp \{', 'if self.current_time.as_secs() > expire_timestamp + 1 {'),
        ('challenge_not_matched', r'if challenge_token\.client_id != pending\.client_id \|\| challenge_token\.user_data != pending\.user_data \{', 'if false {'),
        ('reply_to_other_address', r'(self\.global_sequence \+= 1;\s+return Ok\(ServerResult::PacketToSend \{\s+)addr,', r'\1addr: self.public_addresses[0],'),
        ('global_sequence_from_zero', r'global_sequence: 1 << 63,', 'global_sequence: 0,'),
        ('session_packet_with_global_sequence', r'let len = packet\.encode\(&mut self\.out, self\.protocol_id, Some\(\(pending\.sequence, &pending\.send_key\)\)\)\?;', 'let len = packet.encode(&mut self.out, self.protocol_id, Some((self.global_sequence, &pending.send_key)))?;'),
        ('disconnect_wrong_slot', r'let client = self\.clients\[slot\]\.take\(\)\.unwrap\(\);', 'let client = self.clients[slot].clone().unwrap();'),
        ('timeout_comparison_flipped', r'\+ Duration::from_secs\(client\.timeout_seconds as u64\) < self\.current_time\)', '+ Duration::from_secs(client.timeout_seconds as u64) > self.current_time)'),
        ('mac_match_last_wins_address_ignored', r'return entry\.address == new_entry\.address;', 'return true;'),
        ('pending_expiry_off_by_one', r'current_time\.as_secs\(\) > client\.expire_timestamp', 'current_time.as_secs() >= client.expire_timestamp'),
        ('pending_receive_time_not_refreshed', r'(Some\(&mut pending\.replay_protection\),\s+\)\?;\s+)pending\.last_packet_received_time = self\.current_time;', r'\1'),
        ('connected_receive_time_not_refreshed', r'client\.last_packet_received_time = self\.current_time;', ''),
        ('session_decoded_without_replay_window', r'Some\(&client\.receive_key\),\s+Some\(&mut client\.replay_protection\),', 'Some(&client.receive_key), None,'),
        ('payload_counter_not_advanced', r'(Some\(\(client\.sequence, &client\.send_key\)\)\)\?;\s+)client\.sequence \+= 1;', r'\1'),
    ],
    'U20': [
        ('port_not_written', r'writer\.write_all\(&host\.port\(\)\.to_le_bytes_m\(\)\)\?;', ''),
        ('count_off_by_one', r'count_some_unverified\(server_addresses\) as u32;', 'count_some_unverified(server_addresses) as u32 + 1;'),
        ('v6_type_byte_wrong', r'writer\.write_all\(&NETCODE_ADDRESS_IPV6\.to_le_bytes_m\(\)\)\?;', 'writer.write_all(&NETCODE_ADDRESS_IPV4.to_le_bytes_m())?;'),
        ('token_fields_swapped_on_write', r'writer\.write_all\(&self\.create_timestamp\.to_le_bytes_m\(\)\)\?;\s+writer\.write_all\(&self\.expire_timestamp\.to_le_bytes_m\(\)\)\?;', 'writer.write_all(&self.expire_timestamp.to_le_bytes_m())?; writer.write_all(&self.create_timestamp.to_le_bytes_m())?;'),
        ('version_not_checked', r'if &version_info != NETCODE_VERSION_INFO \{', 'if false {'),
        ('aad_protocol_id_dropped', r'buffer\[13\.\.21\]\.copy_from_slice\(&protocol_id\.to_le_bytes_m\(\)\);', 'buffer[13..21].copy_from_slice(&expire_timestamp.to_le_bytes_m());'),
        ('decode_ignores_expiry_in_aad', r'(pub fn decode\([\s\S]*?)let aad = get_additional_data\(protocol_id, expire_timestamp\);', r'\1let aad = get_additional_data(protocol_id, 0);'),
        ('encode_ignores_protocol_in_aad', r'(pub fn encode\([\s\S]*?)let aad = get_additional_data\(protocol_id, expire_timestamp\);', r'\1let aad = get_additional_data(0, expire_timestamp);'),
        ('generate_fills_from_the_back', r'server_addresses_arr\[i\] = Some\(addr\);', 'server_addresses_arr[31 - i] = Some(addr);'),
        ('private_keys_swapped_on_write', r'(writer\.write_all\(&self\.client_id\.to_le_bytes_m\(\)\)\?;\s+writer\.write_all\(&self\.timeout_seconds[\s\S]*?)writer\.write_all\(&self\.client_to_server_key\)\?;\s+writer\.write_all\(&self\.server_to_client_key\)\?;', r'\1writer.write_all(&self.server_to_client_key)?; writer.write_all(&self.client_to_server_key)?;'),
        ('read_port_before_address', r'let mut ip = \[0u8; 4\];\s+src\.read_exact\(&mut ip\)\?;\s+let port = read_u16\(src\)\?;', 'let port = read_u16(src)?; let mut ip = [0u8; 4]; src.read_exact(&mut ip)?;'),
        ('read_unknown_type_skipped', r'_ => return Err\(io_error_unverified\(\)\),', '_ => {}'),
        ('generate_expiry_is_creation_time', r'let expire_timestamp = current_time\.as_secs\(\) \+ expire_seconds;', 'let expire_timestamp = current_time.as_secs();'),
        ('generate_seals_with_other_expiry', r'private_connect_token\.encode\(&mut private_data, protocol_id, expire_timestamp, &xnonce, private_key\)\?;', 'private_connect_token.encode(&mut private_data, protocol_id, 0, &xnonce, private_key)?;'),
        ('read_u32_reads_two_bytes', r'(pub fn read_u32[\s\S]*?)let mut buffer = \[0u8; 4\];\s+src\.read_exact\(&mut buffer\)\?;', r'\1let mut buffer = [0u8; 4]; src.read_exact(&mut buffer[..2])?;'),
    ],
    'U10': [
        ('broadcast_skipped_when_events_pending', r'(pub fn broadcast_message<[^{]*\{[^{]*\{\s*)let channel_id = channel_id\.into\(\);', r'\1if self.events.len() > 3 { return; } let channel_id = channel_id.into();'),
        ('broadcast_except_excludes_nobody', r'broadcast_except_summary\(&mut self\.connections, except_id, channel_id, message\);', 'broadcast_summary(&mut self.connections, channel_id, message);'),
        ('send_to_other_client', r'(pub fn send_message<[\s\S]*?)self\.connections\.get_mut\(&client_id\)', r'\1self.connections.get_mut(&(client_id ^ 1))'),
    ],
    'U18': [
        ('horizon_shortened', r'let DISCARD_AFTER: Duration = Duration::from_secs\(3\);', 'let DISCARD_AFTER: Duration = Duration::from_secs(2);'),
        ('comparison_flipped', r'if self\.current_time - sent_packet\.sent_at >= DISCARD_AFTER \{', 'if self.current_time - sent_packet.sent_at < DISCARD_AFTER {'),
        ('time_not_advanced', r'self\.current_time \+= duration;', ''),
        ('discard_with_old_time', r'discard_all_summary\(&mut self\.receive_unreliable_channels, self\.current_time\);', 'discard_all_summary(&mut self.receive_unreliable_channels, Duration::ZERO);'),
    ],
    'U17': [
        ('step_drops_carried_ids', r'lemma_rloop_step_carried\(pre\.packets, post\.packets, pre\.small, post\.small, pre\.seq, channel_id, message_id, um, current_time, resend_time, m0\);', ''),
        ('final_flush_labelled_with_channel_zero', r'channel_id: self\.channel_id,(\s+messages: std::mem::take\(&mut small_messages\),)', r'channel_id: 0,\1'),
        ('final_flush_dropped', r'if !small_messages\.is_empty\(\) \{', 'if false {'),
        ('flush_sequence_not_advanced', r'(messages: std::mem::take\(&mut small_messages\),\s*\}\);\s*)\*packet_sequence \+= 1;', r'\1'),
        ('early_return_leaks_budget', r'if self\.unacked_messages\.is_empty\(\) \{\s+return vec!\[\];', 'if self.unacked_messages.is_empty() { *available_bytes = 0; return vec![];'),
        ('step_drops_invariant', r'lemma_rloop_step\(pre, post, seq0, avail0, steps, channel_id, message_id, um, current_time, resend_time\);', ''),
    ],
    'U16': [
        ('record_skips_first_id', r'messages\.iter\(\)\.map\(', 'messages.iter().skip(1).map('),
        ('slice_record_wrong_index', r'slice_index: slice\.slice_index,', 'slice_index: slice.slice_index / 2,'),
        ('record_filed_under_next_sequence', r'(Packet::SmallUnreliable \{ sequence, \.\. \} => \{\s+self\.sent_packets\.insert\(\s+)\*sequence,', r'\1*sequence + 1,'),
        ('unreliable_channel_looked_up_under_another_id', r'self\.send_unreliable_channels\.get_mut\(channel_id\)\.unwrap\(\);', 'self.send_unreliable_channels.get_mut(&(*channel_id ^ 1)).unwrap();'),
        ('budget_doubled', r'let mut available_bytes = self\.available_bytes_per_tick;', 'let mut available_bytes = self.available_bytes_per_tick * 2;'),
        ('ack_sequence_not_advanced', r'self\.packet_sequence \+= 1;(\s+)packets\.push\(ack_packet\);', r'\1packets.push(ack_packet);'),
        ('buffer_too_small', r'let mut buffer = \[0u8; 1400\];', 'let mut buffer = [0u8; 1200];'),
        ('send_when_disconnected', r'(pub fn get_packets_to_send\(&mut self\)[\s\S]*?)if self\.is_disconnected\(\) \{', r'\1if false {'),
        ('ack_always', r'if !self\.pending_acks\.is_empty\(\) \{', 'if true {'),
        ('payload_truncated', r'serialized_packets\.push\(buffer\[\.\.len\]\.to_vec\(\)\);', 'serialized_packets.push(buffer[..len / 2].to_vec());'),
    ],
    'U15': [
        ('ack_range_widened', r'collect_acked_in_range\(&self\.sent_packets, range, &mut new_acks\);', 'collect_acked_in_range(&self.sent_packets, range.start..range.end + 1, &mut new_acks);'),
        ('slice_ack_wrong_index', r'reliable_channel\.process_slice_message_ack\(message_id, slice_index\);', 'reliable_channel.process_slice_message_ack(message_id, slice_index + 1);'),
        ('ack_of_ack_skipped_guard', r'self\.acked_largest\(largest_acked_packet\);', 'self.acked_largest(largest_acked_packet + 1);'),
        ('ack_not_recorded', r'self\.add_pending_ack\(packet\.sequence\(\)\);', ''),
        ('routed_to_fixed_channel', r'self\.receive_reliable_channels\.get_mut\(&channel_id\) else', 'self.receive_reliable_channels.get_mut(&0) else'),
        ('slice_error_ignored', r'if let Err\(error\) = channel\.process_slice\(slice\) \{\s+self\.disconnect_with_reason\(DisconnectReason::ReceiveChannelError \{ channel_id, error \}\);\s+\}', 'let _ignored = channel.process_slice(slice);'),
        ('first_message_skipped', r'for \(message_id, message\) in itM: messages', 'for (message_id, message) in itM: messages.into_iter().skip(1)'),
        ('send_error_ignored', r'if let Err\(error\) = reliable_channel\.send_message\(message\.into\(\)\) \{\s+self\.disconnect_with_reason\(DisconnectReason::SendChannelError \{ channel_id, error \}\);\s+\}', 'let _ignored = reliable_channel.send_message(message.into());'),
        ('receive_when_disconnected', r'(pub fn receive_message<I: Into<u8>>[\s\S]*?)if self\.is_disconnected\(\) \{', r'\1if false {'),
        ('undecodable_packet_ignored', r'self\.disconnect_with_reason\(DisconnectReason::PacketDeserialization\(err\)\);', ''),
    ],
    'U13': [
        ('ack_gap_off_by_one', r'let range_end = \(previous_range_start - gap\) - 2;', 'let range_end = (previous_range_start - gap) - 1;'),
        ('slice_limit_tightened', r'num_slices > 1_000_000 \{(\s+)return Err', r'num_slices > 999_999 {\1return Err'),
        ('type_byte_wrong', r'b\.put_u8\(3\)\?;', 'b.put_u8(2)?;'),
        ('count_not_written', r'b\.put_u16\(messages\.len\(\) as u16\)\?;', 'b.put_u16(0)?;'),
        ('fields_swapped', r'b\.put_varint\(slice\.slice_index as u64\)\?;(\s+)b\.put_varint\(slice\.num_slices as u64\)\?;', r'b.put_varint(slice.num_slices as u64)?;\1b.put_varint(slice.slice_index as u64)?;'),
        ('empty_reliable_slice_accepted', r'if payload\.is_empty\(\) \{', 'if false {'),
        ('ack_enc_gap_off_by_one', r'let gap = previous_range_start - range\.end - 1;', 'let gap = previous_range_start - range.end;'),
        ('ack_enc_count_wrong', r'b\.put_varint\(it\.len\(\) as u64\)\?;', 'b.put_varint(it.len() as u64 + 1)?;'),
        ('ack_enc_size_not_minus_one', r'let range_size = \(range\.end - 1\) - range\.start;', 'let range_size = range.end - range.start;'),
        ('first_range_inclusive_end', r'ack_ranges\.push\(first_range_start\.\.first_range_end \+ 1\);', 'ack_ranges.push(first_range_start..first_range_end);'),
    ],
    'U7': [
        ('slice_labelled_with_channel_zero', r'(packets\.push\(Packet::UnreliableSlice \{\s+sequence: \*packet_sequence,\s+)channel_id: self\.channel_id,', r'\1channel_id: 0,'),
        ('budget_not_charged', r'\*available_bytes -= message\.len\(\) as u64;', ''),
        ('pack_threshold', r'if small_messages_bytes \+ serialized_size > SLICE_SIZE \{', 'if small_messages_bytes > SLICE_SIZE {'),
        ('memory_not_released', r'self\.memory_usage_bytes -= message\.len\(\);', ''),
        ('slice_end_wrong', r'let end = if slice_index == num_slices - 1 \{ message\.len\(\) \}', 'let end = if slice_index == num_slices { message.len() }'),
        ('sequence_reused', r'(slice,\n\s+\}\);\n\s+)\*packet_sequence \+= 1;', r'\1'),
        ('slice_id_constant', r'message_id: self\.sliced_message_id,', 'message_id: 0,'),
        ('slice_id_not_advanced', r'self\.sliced_message_id \+= 1;', ''),
    ],
}


def run_for_unit(u, workdir):
    res = []
    if not MUTANTS.get(u['name']):
        return res
    # obligations that already fail on the unmutated tree (known findings): a mutant counts as killed only by a NEW failure
    base = VR.run_unit(u['path'], os.path.join(workdir, 'mutant_base'))
    baseline = set(f['obligation'] for f in base.get('failures', []))
    for (name, rx, repl) in MUTANTS.get(u['name'], []):
        pat = re.compile(rx)

        def mut(text, pat=pat, repl=repl):
            new, n = pat.subn(repl, text, count=1)
            return new if n else text + '\n// MUTANT-NOT-APPLIED\n'

        r = VR.run_unit(u['path'], os.path.join(workdir, 'mutant_' + name), extra_mutation=mut)
        applied = True
        try:
            with open(r['woven_file']) as f:
                applied = 'MUTANT-NOT-APPLIED' not in f.read()
        except Exception:
            pass
        if not applied:
            out = 'not_applied'
        elif r['status'] == 'failed' and set(f['obligation'] for f in r.get('failures', [])) - baseline:
            out = 'killed'
        elif r['status'] in ('verified', 'failed'):
            out = 'survived'
        else:
            out = 'undecided'
        res.append(dict(name=name, result=out, failed_obligations=[f['obligation'] for f in r.get('failures', []) if f['obligation'] not in baseline][:4],
                        notes=(r.get('hard_errors') or [])[:1]))
    return res


if __name__ == '__main__':
    import glob
    import json
    root = os.path.dirname(os.path.dirname(os.path.abspath(__file__)))
    for p in sorted(glob.glob(os.path.join(root, 'contracts', '*.rs'))):
        head = open(p).readline()
        m = re.match(r'//@unit\s+(\S+)', head)
        if m and (len(sys.argv) < 2 or m.group(1) in sys.argv[1:]):
            out = run_for_unit(dict(name=m.group(1), path=p), os.path.join(root, 'work', 'mutants'))
            for o in out:
                print(m.group(1), o['name'], o['result'], o['failed_obligations'][:2], o['notes'])
