"""Weaver: builds one Verus file from a unit template (/verif/contracts/<unit>.rs), shims and
items extracted *mechanically* from /repo's working tree.

Everything executable in the output comes from /repo (modulo the D-rules below, applied by
this tool and listed in the evidence); everything from the template is specification text.

D-rules implemented here (see DESIGN.md 2.1):
  D1  drop `log::<level>!(...)` macro calls (statement -> nothing, expression -> `()`)
  D2  drop attributes and doc comments in front of extracted items
  D4  `for (&k, v) in E {`  ->  `for (k, v) in E { let k = *k;`
  D5  `for i in A..B {` containing `continue` -> while loop with hoisted increment
  D6  loop-body outlining (directive //@outline)
  D9  parameter pattern `_: T` -> `_argN: T`
  D10 zero-argument closure `|| EXPR` gets a spec header: `|| -> (r: T) ensures .. { EXPR }`
  D12 named struct fields get `pub` (visibility only)
  D13 function-local `const N: T = E;` -> `let N: T = E;`
  D11 `impl Into<T>`-style generic conversions: not rewritten (functions using them are handled by shims)
"""
import hashlib
import os
import re
import sys

sys.path.insert(0, os.path.dirname(os.path.abspath(__file__)))
from rustscan import Src, ScanError, find_items, find_impl_blocks, item_first_token, item_end, split_fn, skip_generics

REPO = os.environ.get('VERIF_REPO', '/repo')
VERIF = os.path.dirname(os.path.dirname(os.path.abspath(__file__)))


class WeaveError(Exception):
    """lost item / malformed template: the check is undecided (exit 2)"""


LABEL_RE = re.compile(r'//\s*@(C\d+(?:\s*,\s*C\d+)*)\s+([\w.\-]+)')


class Out:
    """accumulates output text with per-line origin"""

    def __init__(self):
        self.lines = []  # text
        self.origin = []  # dict(kind, file, line, fn, label, props)
        self._partial = ''
        self._porigin = None

    def emit(self, text, kind, file, first_line, fn=None):
        """text may contain newlines; origin line increases with each newline"""
        parts = text.split('\n')
        for idx, part in enumerate(parts):
            if idx > 0:
                self._flush()
            if part.strip() and (self._porigin is None or not self._partial.strip()):
                self._porigin = dict(kind=kind, file=file, line=first_line + idx, fn=fn)
            elif self._porigin is None:
                self._porigin = dict(kind=kind, file=file, line=first_line + idx, fn=fn)
            self._partial += part

    def _flush(self):
        o = self._porigin or dict(kind='none', file=None, line=0, fn=None)
        m = LABEL_RE.search(self._partial)
        if m and o['kind'] == 'tmpl':
            o['props'] = [p.strip() for p in m.group(1).split(',')]
            o['label'] = m.group(2)
        self.lines.append(self._partial)
        self.origin.append(o)
        self._partial = ''
        self._porigin = None

    def finish(self):
        if self._partial or self._porigin:
            self._flush()
        return '\n'.join(self.lines) + '\n'


# ----------------------------------------------------------------------------------------
# extraction helpers

_src_cache = {}


def load_repo(rel):
    p = os.path.join(REPO, rel)
    if p not in _src_cache:
        try:
            with open(p) as f:
                txt = f.read()
        except OSError as e:
            raise WeaveError('cannot read %s: %s' % (p, e))
        try:
            _src_cache[p] = Src(txt, rel)
            _src_cache[p].matches()
        except ScanError as e:
            raise WeaveError('cannot scan %s: %s' % (rel, e))
    return _src_cache[p]


def strip_attrs_and_docs(text):
    """D2 on the text of one item (attributes/doc comments *inside* struct/enum bodies too)."""
    s = Src(text)
    out = []
    pos = 0
    k = 0
    toks = s.toks
    n = len(toks)
    while k < n:
        t = toks[k]
        txt = text[t[1]:t[2]]
        if t[0] in ('lc', 'bc') and (txt.startswith('///') or txt.startswith('/**') or txt.startswith('//!')):
            out.append(text[pos:t[1]])
            pos = t[2]
        elif t[0] == 'p' and txt == '#':
            nk = s.next_code(k)
            if nk is not None and s.is_p(nk, '['):
                e = s.matches()[nk]
                out.append(text[pos:t[1]])
                pos = toks[e][2]
                k = e
        k += 1
    out.append(text[pos:])
    return ''.join(out)


def publicise_fields(text):
    """D12: give every named field of a struct `pub` visibility (visibility only; Verus treats a
    struct with a private field as opaque in the contracts of pub functions)."""
    s = Src(text)
    ob = None
    for k in s.code:
        if s.is_p(k, '{'):
            ob = k
            break
        if s.is_p(k, '(') or s.is_p(k, ';'):
            return text
    if ob is None:
        return text
    cb = s.matches()[ob]
    ins = []
    k = s.next_code(ob)
    expect_field = True
    while k is not None and k < cb:
        if expect_field and s.toks[k][0] == 'id':
            if s.tok_text(k) != 'pub':
                ins.append(s.toks[k][1])
            expect_field = False
        if s.is_p(k, '(') or s.is_p(k, '[') or s.is_p(k, '{'):
            k = s.matches()[k]
        elif s.is_p(k, '<'):
            k = skip_generics(s, k)
        elif s.is_p(k, ','):
            expect_field = True
        k = s.next_code(k)
    for off in reversed(ins):
        text = text[:off] + 'pub ' + text[off:]
    return text


def publicise_item(text):
    """D12: item visibility becomes `pub` (visibility only)"""
    m = re.match(r'\s*pub\s*\(\s*(crate|super)\s*\)', text)
    if m:
        return text[:m.start()] + 'pub' + text[m.end():]
    if re.match(r'\s*pub\b', text):
        return text
    return 'pub ' + text


def extract_item(rel, kind, name):
    src = load_repo(rel)
    depth = src.depth_map()
    hits = [(kw, nm) for kw, nm in find_items(src, kind, name) if depth[kw] == 0 or True]
    # prefer top-level (depth 0) definitions; consts inside fns are depth>0
    top = [h for h in hits if depth[h[0]] == 0]
    if kind == 'const' and not top:
        top = hits
    if len(top) != 1:
        raise WeaveError('%s: expected exactly one `%s %s`, found %d' % (rel, kind, name, len(top)))
    kw, _ = top[0]
    first = item_first_token(src, kw)
    end = item_end(src, kw)
    a, b = src.toks[first][1], src.toks[end][2]
    text = src.text[a:b]
    return text, src.line_of(a)


def locate_fn(rel, type_name, fn_name, trait=None):
    src = load_repo(rel)
    cands = []
    if type_name:
        for _, o, c in find_impl_blocks(src, type_name, trait):
            depth_inside = None
            for kw, nm in find_items(src, 'fn', fn_name, within=(o, c)):
                # only direct children of the impl block
                d = 0
                k = src.next_code(o)
                # compute depth of kw relative to impl block
                m = src.matches()
                j = src.next_code(o)
                direct = True
                while j is not None and j < kw:
                    if src.is_p(j, '{'):
                        if m[j] > kw:
                            direct = False
                            break
                        j = src.next_code(m[j])
                        continue
                    j = src.next_code(j)
                if direct:
                    cands.append(kw)
    else:
        depth = src.depth_map()
        for kw, nm in find_items(src, 'fn', fn_name):
            if depth[kw] == 0:
                cands.append(kw)
    if len(cands) != 1:
        raise WeaveError('%s: expected exactly one fn %s::%s, found %d' % (rel, type_name or '', fn_name, len(cands)))
    kw = cands[0]
    parts = split_fn(src, kw)
    a = src.toks[parts['first']][1]
    b = src.toks[parts['body_close']][2]
    return src.text[a:b], src.line_of(a)


# ----------------------------------------------------------------------------------------
# transformations on one fn text.  All edits are expressed as (start, end, replacement, origin)
# on the original text so repo line numbers stay exact.

LOG_LEVELS = ('trace', 'debug', 'info', 'warn', 'error')


class FnWeaver:
    def __init__(self, text, rel, first_line, qual, tmpl_file):
        self.text = text
        self.rel = rel
        self.first_line = first_line
        self.qual = qual
        self.tmpl_file = tmpl_file
        self.src = Src(text, rel)
        self.parts = None
        for k in self.src.code:
            if self.src.toks[k][0] == 'id' and self.src.tok_text(k) == 'fn':
                self.parts = split_fn(self.src, k)
                break
        if self.parts is None:
            raise WeaveError('no fn in extracted text of ' + qual)
        self.edits = []  # (start, end, [(text, kind, file, line)])
        self.rules = set()
        self.lost = []

    def line_at(self, off):
        return self.first_line + self.text.count('\n', 0, off)

    # -- D1
    def drop_logs(self):
        s = self.src
        for k in s.code:
            if s.toks[k][0] == 'id' and s.tok_text(k) == 'log':
                a = s.next_code(k)
                b = s.next_code(a) if a is not None else None
                c = s.next_code(b) if b is not None else None
                d = s.next_code(c) if c is not None else None
                e = s.next_code(d) if d is not None else None
                if (a is not None and s.is_p(a, ':') and s.is_p(b, ':') and s.toks[c][0] == 'id'
                        and s.tok_text(c) in LOG_LEVELS and s.is_p(d, '!') and e is not None and s.is_p(e, '(')):
                    close = s.matches()[e]
                    # refuse side-effecting arguments: any call other than .len()/.packet_type() style getters
                    inner = ''.join(s.text[s.toks[t_i][1]:s.toks[t_i][2]] if s.toks[t_i][0] != 'str' else '""'
                                    for t_i in range(e + 1, close))      # string literals (the format text) are not code
                    for m in re.finditer(r'([A-Za-z_][A-Za-z0-9_]*)\s*\(', inner):
                        if m.group(1) not in ('len', 'packet_type'):
                            raise WeaveError('%s: log:: call with call `%s(` in its arguments; rule D1 refuses' % (self.qual, m.group(1)))
                    nxt = s.next_code(close)
                    start = s.toks[k][1]
                    if nxt is not None and s.is_p(nxt, ';'):
                        end = s.toks[nxt][2]
                        repl = ''
                    else:
                        end = s.toks[close][2]
                        repl = '()'
                    # keep the newlines so that line numbers are preserved
                    nl = s.text[start:end].count('\n')
                    self.edits.append((start, end, [(repl + '\n' * nl, 'repo', self.rel, self.line_at(start))]))
                    self.rules.add('D1')

    # -- D12 on the fn itself
    def publicise(self):
        m = re.match(r'\s*pub\s*\(\s*(crate|super)\s*\)', self.text)
        if m:
            self.edits.append((m.start(), m.end(), [('pub', 'repo', self.rel, self.first_line)]))
            self.rules.add('D12')
        elif not re.match(r'\s*pub\b', self.text):
            self.edits.append((0, 0, [('pub ', 'repo', self.rel, self.first_line)]))
            self.rules.add('D12')

    # -- stub: keep the real signature, replace the body (callee known by contract only)
    def stub_body(self):
        p = self.parts
        a = self.src.toks[p['body_open']][2]
        b = self.src.toks[p['body_close']][1]
        self.edits.append((a, b, [(' unimplemented!() ', 'repo', self.rel, self.line_at(a))]))

    # -- D13: `const NAME: T = EXPR;` inside a function body -> `let NAME: T = EXPR;`
    # (Verus evaluates const initialisers in spec mode and rejects exec calls such as Duration::from_secs there;
    #  a local const of a pure constructor call and a let binding of the same expression denote the same value)
    def local_consts_to_let(self):
        s = self.src
        p = self.parts
        k = s.next_code(p['body_open'])
        while k is not None and k < p['body_close']:
            if s.toks[k][0] == 'id' and s.tok_text(k) == 'const':
                nk = s.next_code(k)
                nn = s.next_code(nk) if nk is not None else None
                if nk is not None and s.toks[nk][0] == 'id' and nn is not None and s.is_p(nn, ':'):
                    t = s.toks[k]
                    self.edits.append((t[1], t[2], [('let', 'repo', self.rel, self.line_at(t[1]))]))
                    self.rules.add('D13')
            k = s.next_code(k)

    # -- D9
    def rename_underscore_params(self):
        s = self.src
        p = self.parts
        k = s.next_code(p['lparen'])
        n = 0
        depth = 0
        prev = p['lparen']
        while k is not None and k < p['rparen']:
            if s.is_p(k, '(') or s.is_p(k, '[') or s.is_p(k, '{'):
                k = s.matches()[k]
            elif s.is_p(k, '<'):
                k = skip_generics(s, k)
            elif s.toks[k][0] == 'id' and s.tok_text(k) == '_' and (s.is_p(prev, '(') or s.is_p(prev, ',')):
                nk = s.next_code(k)
                if nk is not None and s.is_p(nk, ':'):
                    t = s.toks[k]
                    self.edits.append((t[1], t[2], [('_arg%d' % n, 'repo', self.rel, self.line_at(t[1]))]))
                    n += 1
                    self.rules.add('D9')
            prev = k
            k = s.next_code(k)

    # -- return naming
    def name_ret(self, name):
        s = self.src
        p = self.parts
        if p['arrow'] is None:
            raise WeaveError('%s: //@ret given but fn has no return type' % self.qual)
        gt = s.next_code(p['arrow'])
        a = s.toks[gt][2]
        # return type extends up to `where` or body_open
        k = s.next_code(gt)
        end_tok = p['body_open']
        j = k
        while j is not None and j < p['body_open']:
            if s.toks[j][0] == 'id' and s.tok_text(j) == 'where':
                end_tok = j
                break
            if s.is_p(j, '<'):
                j = skip_generics(s, j)
            elif s.is_p(j, '(') or s.is_p(j, '['):
                j = s.matches()[j]
            j = s.next_code(j)
        last = s.prev_code(end_tok)
        b = s.toks[last][2]
        ln = self.line_at(a)
        self.edits.append((a, a, [(' (%s:' % name, 'repo', self.rel, ln)]))
        self.edits.append((b, b, [(')', 'repo', self.rel, self.line_at(b))]))

    # -- spec between signature and body
    def add_spec(self, lines, tline):
        p = self.parts
        off = self.src.toks[p['body_open']][1]
        segs = [('\n', 'repo', self.rel, self.line_at(off))]
        segs.append(('\n'.join(lines) + '\n', 'tmpl', self.tmpl_file, tline))
        self.edits.append((off, off, segs))

    def add_entry(self, lines, tline):
        p = self.parts
        off = self.src.toks[p['body_open']][2]
        segs = [('\n', 'repo', self.rel, self.line_at(off)), ('\n'.join(lines) + '\n', 'tmpl', self.tmpl_file, tline)]
        self.edits.append((off, off, segs))

    def add_loop_end(self, n, lines, tline):
        """proof block just before the closing brace of the body of loop n"""
        ls = self.loops()
        if n < 1 or n > len(ls):
            self.lost.append('loop %d of %s (function has %d loops)' % (n, self.qual, len(ls)))
            return
        kw, ob = ls[n - 1]
        cb = self.src.matches()[ob]
        off = self.src.toks[cb][1]
        self.edits.append((off, off, [('\n'.join(lines) + '\n', 'tmpl', self.tmpl_file, tline)]))

    def add_after_loop(self, n, lines, tline):
        """proof block right after the closing brace of loop n (the statement position following the loop)"""
        ls = self.loops()
        if n < 1 or n > len(ls):
            self.lost.append('loop %d of %s (function has %d loops)' % (n, self.qual, len(ls)))
            return
        kw, ob = ls[n - 1]
        cb = self.src.matches()[ob]
        off = self.src.toks[cb][2]
        self.edits.append((off, off, [('\n' + '\n'.join(lines) + '\n', 'tmpl', self.tmpl_file, tline)]))

    def hoist_exit(self, n, carry):
        """D14: inside loop n, the innermost block that ends in the first `return;` of the loop body is moved behind the loop:
               { STMTS return; }   becomes   { __hoistN = Some((vars)); break; }
        with `let mut __hoistN: Option<(types)> = None;` declared before the loop and
               if let Some((vars)) = __hoistN { STMTS return; }
        right after it.  `carry` = [(name, type)...] are the loop-local values STMTS uses.  Same behaviour provided STMTS uses nothing
        else that is local to the loop body: the block ran as the last thing before leaving the function, it still does."""
        ls = self.loops()
        if n < 1 or n > len(ls):
            self.lost.append('loop %d of %s (function has %d loops)' % (n, self.qual, len(ls)))
            return
        s = self.src
        kw, ob = ls[n - 1]
        cb = s.matches()[ob]
        # first `return` token inside the loop body
        k = s.next_code(ob)
        ret = None
        while k is not None and k < cb:
            if s.toks[k][0] == 'id' and s.tok_text(k) == 'return':
                ret = k
                break
            k = s.next_code(k)
        if ret is None:
            self.lost.append('hoistexit: no return in loop %d of %s' % (n, self.qual))
            return
        semi = s.next_code(ret)
        if not s.is_p(semi, ';'):
            self.lost.append('hoistexit: `return` with a value in loop %d of %s' % (n, self.qual))
            return
        # innermost enclosing block
        m = s.matches()
        blk_open = None
        j = s.prev_code(ret)
        depth = 0
        while j is not None and j > ob:
            if s.is_p(j, '}') or s.is_p(j, ')') or s.is_p(j, ']'):
                j = s.prev_code(m[j])          # skip nested closed groups
                continue
            if s.is_p(j, '{'):
                blk_open = j
                break
            j = s.prev_code(j)
        if blk_open is None:
            blk_open = ob
        blk_close = m[blk_open]
        if s.next_code(semi) != blk_close:
            self.lost.append('hoistexit: `return;` is not the last statement of its block in loop %d of %s' % (n, self.qual))
            return
        a, b = s.toks[blk_open][2], s.toks[blk_close][1]
        stmts = self.text[a:s.toks[ret][1]]
        names = ', '.join(x for x, _ in carry)
        types = ', '.join(t for _, t in carry)
        var = '__hoist%d' % n
        nl = self.text[a:b].count('\n')
        line0 = self.line_at(a)
        self.edits.append((a, b, [(' %s = Some((%s,)); break; ' % (var, names) + '\n' * nl, 'repo', self.rel, line0)]))
        # declaration before the loop keyword (before a label if there is one)
        kw_off = s.toks[kw][1]
        pk = s.prev_code(kw)
        if pk is not None and s.is_p(pk, ':'):
            lab = s.prev_code(pk)
            if lab is not None and s.toks[lab][0] == 'life':
                kw_off = s.toks[lab][1]
        self.edits.append((kw_off, kw_off, [('let mut %s: Option<(%s,)> = None;\n' % (var, types), 'repo', self.rel, self.line_at(kw_off))]))
        end = s.toks[cb][2]
        self.edits.append((end, end, [('\nif let Some((%s,)) = %s {' % (names, var), 'repo', self.rel, line0),
                                      (stmts, 'repo', self.rel, line0), ('return; }\n', 'repo', self.rel, line0)]))
        self.rules.add('D14')

    def summarize_loop(self, n, text):
        """D18: loop n (label and header included) is replaced by the one-line call `text` to a loop-summary function declared in the template.
        The summary's contract is the loop invariant; that the loop body (outlined by D6 and proved in its own unit) preserves it is checked by a
        step function in the template; what is assumed is the induction over the iteration (same assumption as D6)."""
        ls = self.loops()
        if len(ls) == 0:
            # the function has no loop at all any more: nothing to summarise, its body is judged as it stands
            self.loops_gone = getattr(self, 'loops_gone', []) + ['%s loop %d' % (self.qual, n)]
            return
        if n < 1 or n > len(ls):
            self.lost.append('loop %d of %s (function has %d loops)' % (n, self.qual, len(ls)))
            return
        s = self.src
        kw, ob = ls[n - 1]
        cb = s.matches()[ob]
        a = s.toks[kw][1]
        pk = s.prev_code(kw)
        if pk is not None and s.is_p(pk, ':'):
            lab = s.prev_code(pk)
            if lab is not None and s.toks[lab][0] == 'life':
                a = s.toks[lab][1]
        b = s.toks[cb][2]
        if '$CALLARGS' in text:
            # the argument list of the call that yields the iterable (`for PAT in RECV.method(ARGS) {`), verbatim from the source
            last = s.prev_code(ob)
            args = None
            if last is not None and s.is_p(last, ')'):
                op = s.matches()[last]
                args = self.text[s.toks[op][2]:s.toks[last][1]]
            if args is None:
                self.lost.append('summarize %d of %s: the iterable is not a call' % (n, self.qual))
                return
            text = text.replace('$CALLARGS', args.strip())
        nl = self.text[a:b].count('\n')
        self.edits.append((a, b, [(text + '\n' * nl, 'repo', self.rel, self.line_at(a))]))
        self.rules.add('D18')

    def cut_statements(self, rx_from, rx_to, replacement):
        """D19: the statements from the first line matching `rx_from` to the first later line matching `rx_to` (inclusive) are replaced by one
        call to an external function declared in the template.  Only what that call is handed can change; nothing else is concluded about
        the removed statements (only use: the floating-point round-trip-time estimate)."""
        r1, r2 = re.compile(rx_from), re.compile(rx_to)
        p = self.parts
        body_a = self.src.toks[p['body_open']][2]
        body_b = self.src.toks[p['body_close']][1]
        pos = 0
        a = b = None
        for ln in self.text.split('\n'):
            x, y = pos, pos + len(ln)
            pos = y + 1
            if x < body_a or y > body_b:
                continue
            if a is None:
                if r1.search(ln):
                    a = x + (len(ln) - len(ln.lstrip()))
                    if r2.search(ln):
                        b = y
                        break
            elif r2.search(ln):
                b = y
                break
        if a is None or b is None:
            self.lost.append('cut /%s/../%s/ in %s' % (rx_from, rx_to, self.qual))
            return
        nl = self.text[a:b].count('\n')
        self.edits.append((a, b, [(replacement + '\n' * nl, 'tmpl', self.tmpl_file, 0)]))
        self.rules.add('D19')

    def cut_expression(self, regex, replacement):
        """D19 (expression form): the one expression matching `regex` in the body is replaced by a call to an external function declared in the
        template (contract assumed).  The text must match exactly once; otherwise the anchor is reported lost (=> undecided, never silently ignored)."""
        p = self.parts
        body_a = self.src.toks[p['body_open']][2]
        body_b = self.src.toks[p['body_close']][1]
        ms = [m for m in re.finditer(regex, self.text) if m.start() >= body_a and m.end() <= body_b]
        if len(ms) != 1:
            self.lost.append('cutexpr /%s/ in %s (%d matches)' % (regex, self.qual, len(ms)))
            return
        a, b = ms[0].start(), ms[0].end()
        nl = self.text[a:b].count('\n')
        self.edits.append((a, b, [(replacement + '\n' * nl, 'tmpl', self.tmpl_file, 0)]))
        self.rules.add('D19')

    def replace_arm(self, regex, replacement):
        """D8: the block of the match arm whose first line matches `regex` is replaced by `replacement` (nothing is concluded about that arm)"""
        rx = re.compile(regex)
        pos = 0
        for ln in self.text.split('\n'):
            a, b = pos, pos + len(ln)
            pos = b + 1
            if rx.search(ln):
                # the `{` that ends this line
                k = None
                for t_i in self.src.code:
                    t = self.src.toks[t_i]
                    if a <= t[1] < b and self.src.is_p(t_i, '{'):
                        k = t_i
                if k is None:
                    break
                cb = self.src.matches()[k]
                x, y = self.src.toks[k][2], self.src.toks[cb][1]
                nl = self.text[x:y].count('\n')
                self.edits.append((x, y, [(' ' + replacement + ' ' + '\n' * nl, 'repo', self.rel, self.line_at(x))]))
                self.rules.add('D8')
                return
        self.lost.append('arm /%s/ of %s' % (regex, self.qual))

    def add_end(self, lines, tline):
        """proof block just before the closing brace of the body (for functions whose body ends with a statement)"""
        p = self.parts
        off = self.src.toks[p['body_close']][1]
        segs = [('\n'.join(lines) + '\n', 'tmpl', self.tmpl_file, tline)]
        self.edits.append((off, off, segs))

    # -- loops
    def loops(self):
        """token indices of loop keywords (for/while/loop) in the body, in source order,
        with the token index of the `{` opening the loop body"""
        s = self.src
        p = self.parts
        res = []
        k = s.next_code(p['body_open'])
        while k is not None and k < p['body_close']:
            t = s.toks[k]
            if t[0] == 'id' and s.tok_text(k) in ('for', 'while', 'loop'):
                # `for` in `impl X for Y` / HRTB cannot occur in a body except closures' types; accept
                j = s.next_code(k)
                while j is not None and not s.is_p(j, '{'):
                    if s.is_p(j, '(') or s.is_p(j, '['):
                        j = s.matches()[j]
                    j = s.next_code(j)
                res.append((k, j))
            k = s.next_code(k)
        return res

    def loop_by_header(self, n, rx):
        """ordinal of the loop whose header (text between the loop keyword and its `{`) matches `rx`; `n` when there is no such hint.
        Lets a template address a loop by what it iterates over, so that a loop inserted before it does not shift the hints (seed C14e)."""
        if not rx:
            return n
        s = self.src
        hits = [i + 1 for i, (kw, ob) in enumerate(self.loops()) if re.search(rx, self.text[s.toks[kw][1]:s.toks[ob][1]])]
        return hits[0] if len(hits) == 1 else 0

    def add_loop_spec(self, n, lines, tline, iter_name=None):
        ls = self.loops()
        if n < 1 or n > len(ls):
            self.lost.append('loop %d of %s (function has %d loops)' % (n, self.qual, len(ls)))
            return
        kw, ob = ls[n - 1]
        if iter_name:
            # name the ghost iterator of a `for` loop: `for PAT in EXPR` -> `for PAT in it: EXPR` (specification syntax only)
            s = self.src
            k = s.next_code(kw)
            while k is not None and k < ob:
                if s.is_p(k, '(') or s.is_p(k, '['):
                    k = s.matches()[k]
                elif s.toks[k][0] == 'id' and s.tok_text(k) == 'in':
                    off = s.toks[k][2]
                    self.edits.append((off, off, [(' %s:' % iter_name, 'tmpl', self.tmpl_file, tline)]))
                    break
                k = s.next_code(k)
        off = self.src.toks[ob][1]
        segs = [('\n', 'repo', self.rel, self.line_at(off)), ('\n'.join(lines) + '\n', 'tmpl', self.tmpl_file, tline)]
        self.edits.append((off, off, segs))

    # -- D4: for (&k, v) in E {   ->   for (k, v) in E { let k = *k;
    def deref_for_patterns(self):
        s = self.src
        for kw, ob in self.loops():
            if s.tok_text(kw) != 'for':
                continue
            k = s.next_code(kw)
            if not s.is_p(k, '('):
                continue
            close = s.matches()[k]
            j = s.next_code(k)
            names = []
            while j is not None and j < close:
                if s.is_p(j, '&'):
                    nj = s.next_code(j)
                    if s.toks[nj][0] == 'id':
                        names.append(s.tok_text(nj))
                        t = s.toks[j]
                        self.edits.append((t[1], t[2], [('', 'repo', self.rel, self.line_at(t[1]))]))
                j = s.next_code(j)
            if names:
                off = s.toks[ob][2]
                txt = ''.join(' let %s = *%s;' % (nm, nm) for nm in names)
                self.edits.append((off, off, [(txt, 'repo', self.rel, self.line_at(off))]))
                self.rules.add('D4')

    # -- D5: for i in A..B { body-with-continue }  ->  while
    def desugar_for_continue(self, n, tmpl_lines=None, tline=0):
        s = self.src
        ls = self.loops()
        kw, ob = ls[n - 1]
        if s.tok_text(kw) != 'for':
            raise WeaveError('%s: D5 on loop %d which is not a for loop' % (self.qual, n))
        var = s.next_code(kw)
        kin = s.next_code(var)
        if s.toks[var][0] != 'id' or s.tok_text(kin) != 'in':
            raise WeaveError('%s: D5 needs `for <ident> in A..B`' % self.qual)
        a = s.toks[kin][2]
        b = s.toks[ob][1]
        rng = s.text[a:b].strip()
        m = re.match(r'^(.*?)\.\.(.*)$', rng, re.S)
        if not m or '..=' in rng:
            raise WeaveError('%s: D5 needs a half-open integer range, got `%s`' % (self.qual, rng))
        lo, hi = m.group(1).strip(), m.group(2).strip()
        v = s.tok_text(var)
        cnt = '__k%d' % n
        ln = self.line_at(s.toks[kw][1])
        head = 'let mut %s = %s; let __hi%d = %s; while %s < __hi%d ' % (cnt, lo, n, hi, cnt, n)
        self.edits.append((s.toks[kw][1], b, [(head, 'repo', self.rel, ln)]))
        off = s.toks[ob][2]
        self.edits.append((off, off, [(' let %s = %s; %s += 1;' % (v, cnt, cnt), 'repo', self.rel, self.line_at(off))]))
        self.rules.add('D5')

    # -- D10 closures
    def annotate_closure(self, n, header):
        s = self.src
        p = self.parts
        found = []
        k = s.next_code(p['body_open'])
        while k is not None and k < p['body_close']:
            if s.is_p(k, '|'):
                nk = s.next_code(k)
                pk = s.prev_code(k)
                if nk is not None and s.is_p(nk, '|') and s.toks[nk][1] == s.toks[k][2] and (s.is_p(pk, '(') or s.is_p(pk, ',')):
                    found.append((k, nk))
                    k = nk
            k = s.next_code(k)
        if n < 1 or n > len(found):
            self.lost.append('closure %d of %s' % (n, self.qual))
            return
        k, nk = found[n - 1]
        # closure body: until `)` closing the enclosing call or `,` at depth 0
        j = s.next_code(nk)
        start = s.toks[j][1]
        last = j
        while j is not None:
            if s.is_p(j, '(') or s.is_p(j, '[') or s.is_p(j, '{'):
                j = s.matches()[j]
            elif s.is_p(j, ')') or s.is_p(j, ','):
                break
            last = j
            j = s.next_code(j)
        end = s.toks[last][2]
        ln = self.line_at(start)
        self.edits.append((start, start, [(' ' + header.strip() + ' { ', 'repo', self.rel, ln)]))
        self.edits.append((end, end, [(' }', 'repo', self.rel, self.line_at(end))]))
        self.rules.add('D10')

    def enumerate_to_index(self):
        """D22 (automatic): `for (i, x) in E.iter().enumerate() {` becomes `for i in 0..E.len() { let x = &E[i];`
        (Verus has no `Enumerate`; for arrays, slices and Vecs both forms visit the same (index, &element) pairs in the same order)."""
        for m in list(re.finditer(r'for \((\w+), (\w+)\) in ([\w\.]+)\.(iter|into_iter)\(\)\.enumerate\(\) \{', self.text)):
            i_v, x_v, e = m.group(1), m.group(2), m.group(3)
            a, b = m.start(), m.end()
            # header up to (not including) the `{`, so that a loop invariant can still be placed in front of the brace
            self.edits.append((a, b - 1, [('for %s in 0..%s.len() ' % (i_v, e), 'repo', self.rel, self.line_at(a))]))
            # `into_iter()` hands out the elements by value: the index form copies them (the same for `Copy` element types; rustc rejects the rewrite otherwise)
            self.edits.append((b, b, [(' let %s = %s%s[%s];' % (x_v, '&' if m.group(4) == 'iter' else '', e, i_v), 'repo', self.rel, self.line_at(a))]))
            self.rules.add('D22')

    def index_loops(self):
        """D23 (automatic): three loop headers over fixed-size arrays that Verus has no iterator specification for become index loops that visit
        the same elements in the same order:
          `for x in E.iter().flatten() {B}`        -> `for x_idx in 0..E.len() { if let Some(x) = &E[x_idx] {B} }`       (E: array/slice/Vec of Option)
          `for x in E.iter_mut().take(K) {B}`      -> `let x_n = min(K, E.len()); for x_idx in 0..x_n { let x = &mut E[x_idx]; B }`
        (the by-value array form is requested with //@arrayloop, it cannot be recognised syntactically)"""
        s = self.src
        for kw, ob in self.loops():
            if s.tok_text(kw) != 'for':
                continue
            a, b = s.toks[kw][1], s.toks[ob][1]
            hdr = s.text[a:b]
            ln = self.line_at(a)
            m = re.match(r'for (\w+) in ([\w\.]+)\.iter\(\)\.flatten\(\)\s*$', hdr)
            if m:
                x, e = m.groups()
                self.edits.append((a, b, [('for %s_idx in 0..%s.len() ' % (x, e), 'repo', self.rel, ln)]))
                off = s.toks[ob][2]
                self.edits.append((off, off, [(' if let Some(%s) = &%s[%s_idx] {' % (x, e, x), 'repo', self.rel, self.line_at(off))]))
                offc = s.toks[s.matches()[ob]][1]
                self.edits.append((offc, offc, [('} ', 'repo', self.rel, self.line_at(offc))]))
                self.rules.add('D23')
                continue
            m = re.match(r'for (\w+) in ([\w\.]+)\.iter_mut\(\)\.take\(([\w\.]+)\)\s*$', hdr)
            if m:
                x, e, k = m.groups()
                head = 'let %s_n = if %s < %s.len() { %s } else { %s.len() }; for %s_idx in 0..%s_n ' % (x, k, e, k, e, x, x)
                self.edits.append((a, b, [(head, 'repo', self.rel, ln)]))
                off = s.toks[ob][2]
                self.edits.append((off, off, [(' let %s = &mut %s[%s_idx];' % (x, e, x), 'repo', self.rel, self.line_at(off))]))
                self.rules.add('D23')

    def loop_index_name(self, n):
        """`$IDXn` in template text: the name of the index variable of `for` loop n as woven -- the variable rule D23 introduces (`x_idx`), or the
        loop's own variable when it is written `for i in A..B` in the source.  Lets invariants and hints survive a change between those two forms."""
        s = self.src
        ls = self.loops()
        if n < 1 or n > len(ls):
            return '__no_such_loop_%d' % n
        kw, ob = ls[n - 1]
        hdr = s.text[s.toks[kw][1]:s.toks[ob][1]]
        m = re.match(r'for (\w+) in ([\w\.]+)\.iter\(\)\.flatten\(\)\s*$', hdr) or re.match(r'for (\w+) in ([\w\.]+)\.iter_mut\(\)\.take\(([\w\.]+)\)\s*$', hdr)
        if m or n in getattr(self, 'array_loops', set()):
            m = m or re.match(r'for (\w+) in ', hdr)
            return m.group(1) + '_idx'
        m = re.match(r'for (\w+) in ', hdr)
        return m.group(1) if m else '__loop_%d_has_no_index' % n

    def array_loop(self, n):
        """D23 (requested): `for x in EXPR {B}` with EXPR a fixed-size array by value -> `let __arrN = EXPR; for x_idx in 0..__arrN.len() { let x = __arrN[x_idx]; B }`"""
        s = self.src
        ls = self.loops()
        if n < 1 or n > len(ls):
            self.lost.append('loop %d of %s (function has %d loops)' % (n, self.qual, len(ls)))
            return
        kw, ob = ls[n - 1]
        self.array_loops = getattr(self, 'array_loops', set()) | {n}
        a, b = s.toks[kw][1], s.toks[ob][1]
        m = re.match(r'for (\w+) in (.*?)\s*$', s.text[a:b], re.S)
        if not m:
            raise WeaveError('%s: //@arrayloop %d needs `for <ident> in EXPR`' % (self.qual, n))
        x, e = m.groups()
        head = 'let __arr%d = %s; for %s_idx in 0..__arr%d.len() ' % (n, e, x, n)
        self.edits.append((a, b, [(head, 'repo', self.rel, self.line_at(a))]))
        off = s.toks[ob][2]
        self.edits.append((off, off, [(' let %s = __arr%d[%s_idx];' % (x, n, x), 'repo', self.rel, self.line_at(off))]))
        self.rules.add('D23')

    def le_bytes_calls(self):
        """D24 (automatic): `X.to_le_bytes()` / `T::from_le_bytes(B)` become `X.to_le_bytes_m()` / `T::from_le_bytes_m(B)`, the methods of the shim trait
        `LeBytes` (shims/le_bytes.rs) whose bodies are exactly those std calls: Verus cannot attach a specification to the std functions themselves
        (their return type mentions an anonymous constant) -- the little-endian meaning is an assumption of the shim"""
        s = self.src
        for k in s.code:
            if s.toks[k][0] == 'id' and s.tok_text(k) in ('to_le_bytes', 'from_le_bytes'):
                nk = s.next_code(k)
                if nk is not None and s.is_p(nk, '('):
                    off = s.toks[k][2]
                    self.edits.append((off, off, [('_m', 'repo', self.rel, self.line_at(off))]))
                    self.rules.add('D24')

    def io_error_calls(self):
        """D25 (automatic): `io::Error::new(io::ErrorKind::K, "text")` becomes `io_error_unverified()` (shims/io_stream.rs): a boxed `dyn Error` payload is
        outside Verus' subset, and no contract distinguishes one io::Error value from another"""
        s = self.src
        spans = []
        for m in re.finditer(r'io::Error::new\(', self.text):
            # token of the opening parenthesis, then its match: the whole call is replaced whatever the message expression is, provided it contains
            # no call other than `format!` (a message cannot change state then)
            par = None
            for k in s.code:
                if s.toks[k][1] == m.end() - 1:
                    par = k
                    break
            if par is None:
                continue
            close = s.matches()[par]
            inner = ''.join(s.text[s.toks[t][1]:s.toks[t][2]] if s.toks[t][0] != 'str' else '""' for t in range(par + 1, close))
            if re.search(r'[A-Za-z_][A-Za-z0-9_]*\s*\(', inner.replace('format!(', '')):
                continue
            spans.append((m.start(), s.toks[close][2]))
        for (a, b) in spans:
            nl = self.text[a:b].count('\n')
            self.edits.append((a, b, [('io_error_unverified()' + '\n' * nl, 'repo', self.rel, self.line_at(a))]))
            self.rules.add('D25')

    def closure_tuple_params(self):
        """D16 (automatic): a closure whose single parameter is a tuple pattern, `|(a, b)| E`, becomes `|__cpK| { let (a, b) = __cpK; E }`
        (Verus accepts only variables as closure parameters; same bindings under default binding modes)."""
        s = self.src
        p = self.parts
        k = s.next_code(p['body_open'])
        n = 0
        while k is not None and k < p['body_close']:
            if s.is_p(k, '|'):
                pk = s.prev_code(k)
                nk = s.next_code(k)
                if (s.is_p(pk, '(') or s.is_p(pk, ',')) and nk is not None and s.is_p(nk, '('):
                    close = s.matches()[nk]
                    bar = s.next_code(close)
                    if bar is not None and s.is_p(bar, '|'):
                        n += 1
                        var = '__cp%d' % n
                        pat = self.text[s.toks[nk][1]:s.toks[close][2]]
                        j = s.next_code(bar)
                        last = j
                        while j is not None:
                            if s.is_p(j, '(') or s.is_p(j, '[') or s.is_p(j, '{'):
                                j = s.matches()[j]
                            elif s.is_p(j, ')') or s.is_p(j, ','):
                                break
                            last = j
                            j = s.next_code(j)
                        end = s.toks[last][2]
                        a, b = s.toks[nk][1], s.toks[bar][2]
                        ln = self.line_at(a)
                        self.edits.append((a, b, [('%s| { let %s = %s; ' % (var, pat, var), 'repo', self.rel, ln)]))
                        if not hasattr(self, 'cp_sites'):
                            self.cp_sites = {}
                        self.cp_sites[n] = len(self.edits) - 1
                        self.edits.append((end, end, [(' }', 'repo', self.rel, self.line_at(end))]))
                        self.rules.add('D16')
                        k = bar
            k = s.next_code(k)

    def closure_param_spec(self, n, header):
        """D16 + spec header: the n-th tuple-parameter closure gets `|__cpN| -> (o: T) ensures .. { let (a, b) = __cpN; E }` (specification text only;
        lets vstd's specs of `map`/`collect` speak about what the closure returns)."""
        sites = getattr(self, 'cp_sites', {})
        if n not in sites:
            self.lost.append('tuple-parameter closure %d of %s' % (n, self.qual))
            return
        a, b, parts = self.edits[sites[n]]
        txt, kind, rel, ln = parts[0]
        self.edits[sites[n]] = (a, b, [(txt.replace('| { let', '| ' + header.strip() + ' { let', 1), kind, rel, ln)])

    # -- hints anchored by regex on a source line
    def add_hint(self, where, regex, nth, lines, tline):
        rx = re.compile(regex)
        p = self.parts
        body_a = self.src.toks[p['body_open']][2]
        body_b = self.src.toks[p['body_close']][1]
        pos = 0
        hits = []
        for ln in self.text.split('\n'):
            a, b = pos, pos + len(ln)
            pos = b + 1
            if a >= body_a and b <= body_b and rx.search(ln):
                hits.append((a, b))
        if nth == 0:
            nth = len(hits)          # `last`: the last matching line (e.g. the final `return;` of a loop body, however many early exits precede it)
        if len(hits) < nth or nth < 1:
            self.lost.append('%s /%s/ #%d in %s' % (where, regex, nth, self.qual))
            return
        a, b = hits[nth - 1]
        off = b if where == 'after' else a
        if where == 'after':
            segs = [('\n', 'repo', self.rel, self.line_at(off)), ('\n'.join(lines), 'tmpl', self.tmpl_file, tline)]
        else:
            segs = [('\n'.join(lines) + '\n', 'tmpl', self.tmpl_file, tline)]
        self.edits.append((off, off, segs))

    def add_tail_hint(self, regex, nth, lines, tline):
        """D15: the one-line tail expression EXPR matched by `regex` (a line without trailing `;`, the value of its block) becomes
               let __tailK = EXPR;  <hint lines>  __tailK
        so that a proof step can follow the call whose value the block yields.  Pure let-introduction."""
        rx = re.compile(regex)
        p = self.parts
        body_a = self.src.toks[p['body_open']][2]
        body_b = self.src.toks[p['body_close']][1]
        pos = 0
        hits = []
        for ln in self.text.split('\n'):
            a, b = pos, pos + len(ln)
            pos = b + 1
            if a >= body_a and b <= body_b and rx.search(ln):
                hits.append((a, b, ln))
        if len(hits) < nth:
            self.lost.append('tail /%s/ #%d in %s' % (regex, nth, self.qual))
            return
        a, b, ln = hits[nth - 1]
        body = ln.strip()
        if body.endswith(';') or body.endswith('{') or body.endswith('}') or not body:
            self.lost.append('tail /%s/ #%d in %s: not a one-line tail expression' % (regex, nth, self.qual))
            return
        self._tail_n = getattr(self, '_tail_n', 0) + 1
        var = '__tail%d' % self._tail_n
        ind = ln[:len(ln) - len(ln.lstrip())]
        a2 = a + len(ind)
        self.edits.append((a2, a2, [('let %s = ' % var, 'repo', self.rel, self.line_at(a))]))
        self.edits.append((b, b, [(';\n', 'repo', self.rel, self.line_at(a)), ('\n'.join(lines) + '\n', 'tmpl', self.tmpl_file, tline),
                                  (ind + var, 'repo', self.rel, self.line_at(a))]))
        self.rules.add('D15')

    def let_mut_arg(self, regex, nth, name):
        """D17: on the statement line matched by `regex`, the argument `&mut EXPR` of the outermost call becomes a named local:
               RECV.method(&mut EXPR);   ->   let mut NAME = EXPR; RECV.method(&mut NAME);
        (let-introduction of a temporary; the receiver is a plain local that EXPR does not mention, so evaluation order is unaffected)."""
        rx = re.compile(regex)
        s = self.src
        p = self.parts
        body_a = s.toks[p['body_open']][2]
        body_b = s.toks[p['body_close']][1]
        pos = 0
        hits = []
        for ln in self.text.split('\n'):
            a, b = pos, pos + len(ln)
            pos = b + 1
            if a >= body_a and b <= body_b and rx.search(ln):
                hits.append((a, b, ln))
        if len(hits) < nth:
            self.lost.append('letarg /%s/ #%d in %s' % (regex, nth, self.qual))
            return
        a, b, ln = hits[nth - 1]
        # first `(` on the line followed by `& mut`
        k = None
        for t_i in s.code:
            t = s.toks[t_i]
            if a <= t[1] < b and s.is_p(t_i, '('):
                n1 = s.next_code(t_i)
                n2 = s.next_code(n1) if n1 is not None else None
                if n1 is not None and s.is_p(n1, '&') and n2 is not None and s.tok_text(n2) == 'mut':
                    k = t_i
                    break
        if k is None:
            self.lost.append('letarg /%s/ #%d in %s: no `(&mut ...)` argument on that line' % (regex, nth, self.qual))
            return
        close = s.matches()[k]
        n2 = s.next_code(s.next_code(k))
        e_a, e_b = s.toks[s.next_code(n2)][1], s.toks[close][1]
        expr = self.text[e_a:e_b]
        ind = ln[:len(ln) - len(ln.lstrip())]
        stmt_a = a + len(ind)
        lno = self.line_at(a)
        self.edits.append((stmt_a, stmt_a, [('let mut %s = %s;\n%s' % (name, expr.strip(), ind), 'repo', self.rel, lno),
                                            ('let ghost %s_v = %s@;\n%s' % (name, name, ind), 'tmpl', self.tmpl_file, 0)]))
        self.edits.append((e_a, e_b, [(name, 'repo', self.rel, lno)]))
        self.rules.add('D17')

    # -- rename the function (used for outlined copies) -----------------------------
    def render(self, out, attrs=()):
        for a in attrs:
            out.emit(a + '\n', 'tmpl', self.tmpl_file, 0, fn=self.qual)
        edits = sorted(self.edits, key=lambda e: (e[0], e[1]))
        # a replaced region (rule D8) swallows the automatic edits that fall strictly inside it
        spans = [(a, b) for (a, b, _) in edits if b > a]
        kept = []
        for e in edits:
            if any(x < e[0] and e[1] < y and (e[0], e[1]) != (x, y) for (x, y) in spans):
                if any(seg[1] == 'tmpl' for seg in e[2]):
                    # a proof hint of the template landed inside a region that a D8/D14/D18 rewrite replaces: it is gone, say so
                    self.lost.append('hint at %s:%d of %s falls inside a replaced region' % (self.rel, self.line_at(e[0]), self.qual))
                continue
            kept.append(e)
        edits = kept
        pos = 0
        for i, (a, b, segs) in enumerate(edits):
            if a < pos:
                raise WeaveError('%s: overlapping edits' % self.qual)
            if a > pos:
                out.emit(self.text[pos:a], 'repo', self.rel, self.line_at(pos), fn=self.qual)
            for (txt, kind, file, line) in segs:
                if kind == 'tmpl' and '$IDX' in txt:
                    txt = re.sub(r'\$IDX(\d+)', lambda m: self.loop_index_name(int(m.group(1))), txt)
                out.emit(txt, kind, file, line, fn=self.qual)
            pos = b
        out.emit(self.text[pos:], 'repo', self.rel, self.line_at(pos), fn=self.qual)
        out.emit('\n', 'repo', self.rel, self.line_at(len(self.text)), fn=self.qual)


class LoopGone(Exception):
    """the function an outline (D6) refers to has no loop at all any more: there is no loop body to prove anything about; the whole function
    is still judged by its own contract where the unit has one"""


def outline_loop_body(text, first_line, loop_n, name, params, captures, rel):
    """D6: returns (new_fn_text, first_line_of_new_text).  The body of loop `loop_n` of the function in `text` becomes
    the body of `pub fn name(params, captures...)`.  Rewrites (token based, line structure preserved):
      * `self.FIELD` for captures declared `val NAME: T = self.FIELD`  ->  NAME
      * identifier NAME of a `mut` capture (a local the loop mutates)  ->  (*NAME)   (the parameter is `NAME: &mut T`)
      * `continue 'label` of that loop and unlabelled `continue` not nested in an inner loop  ->  `return`
    """
    src = Src(text, rel)
    fw_probe = None
    parts = None
    for k in src.code:
        if src.toks[k][0] == 'id' and src.tok_text(k) == 'fn':
            parts = split_fn(src, k)
            break
    # locate loops in body order
    loops = []
    k = src.next_code(parts['body_open'])
    while k is not None and k < parts['body_close']:
        if src.toks[k][0] == 'id' and src.tok_text(k) in ('for', 'while', 'loop'):
            j = src.next_code(k)
            while j is not None and not src.is_p(j, '{'):
                if src.is_p(j, '(') or src.is_p(j, '['):
                    j = src.matches()[j]
                j = src.next_code(j)
            loops.append((k, j, src.matches()[j]))
        k = src.next_code(k)
    if len(loops) == 0:
        raise LoopGone('outline: function has no loop left')
    if loop_n < 1 or loop_n > len(loops):
        raise WeaveError('outline: function has %d loops, asked for %d' % (len(loops), loop_n))
    kw, ob, cb = loops[loop_n - 1]
    # label of the loop, if any:  'label: for ...
    label = None
    pk = src.prev_code(kw)
    if pk is not None and src.is_p(pk, ':'):
        ppk = src.prev_code(pk)
        if ppk is not None and src.toks[ppk][0] == 'life':
            label = src.tok_text(ppk)
    inner = [(a, b, c) for (a, b, c) in loops if b > ob and c < cb]
    body_a = src.toks[ob][2]
    body_b = src.toks[cb][1]
    edits = []
    val_fields = {}
    muts = set()
    sig_params = list(params)
    for mode, decl in captures:
        if mode == 'val':
            m = re.match(r'(\w+)\s*:\s*(.+?)(?:\s*=\s*self\.(\w+))?$', decl)
            nm, ty, fld = m.group(1), m.group(2), m.group(3)
            if fld:
                val_fields[fld] = nm
            sig_params.append('%s: %s' % (nm, ty))
        elif mode == 'ref':
            sig_params.append(decl)
        elif mode == 'mut':
            m = re.match(r'(\w+)\s*:\s*(.+)$', decl)
            muts.add(m.group(1))
            sig_params.append('%s: &mut %s' % (m.group(1), m.group(2)))
        else:
            raise WeaveError('outline: unknown capture mode ' + mode)
    k = src.next_code(ob)
    while k is not None and k < cb:
        t = src.toks[k]
        tt = src.tok_text(k)
        if t[0] == 'id' and tt == 'self':
            a = src.next_code(k)
            b = src.next_code(a) if a is not None else None
            if a is not None and src.is_p(a, '.') and b is not None and src.toks[b][0] == 'id' and src.tok_text(b) in val_fields:
                edits.append((t[1], src.toks[b][2], val_fields[src.tok_text(b)]))
                k = b
            else:
                raise WeaveError('outline: loop body uses `self` other than through a declared `val ... = self.field` capture')
        elif t[0] == 'id' and tt in muts:
            pk2 = src.prev_code(k)
            if not (pk2 is not None and (src.is_p(pk2, '.') or src.is_p(pk2, ':'))):
                edits.append((t[1], t[2], '(*%s)' % tt))
        elif t[0] == 'id' and tt == 'continue':
            nk = src.next_code(k)
            if nk is not None and src.toks[nk][0] == 'life':
                if src.tok_text(nk) == label:
                    edits.append((t[1], src.toks[nk][2], 'return'))
                else:
                    raise WeaveError('outline: continue to a foreign label')
            else:
                nested = any(b2 < k < c2 for (_, b2, c2) in inner)
                if not nested:
                    edits.append((t[1], t[2], 'return'))
        elif t[0] == 'id' and tt in ('break', 'return'):
            nested = any(b2 < k < c2 for (_, b2, c2) in inner)
            if tt == 'return' or not nested:
                # leaving the outlined loop early breaks the premise of rule D6 (every entry is visited): it becomes an
                # obligation that cannot be discharged (`d6_loop_left_early` requires false) instead of an unsupported construct
                nk = src.next_code(k)
                if tt == 'return' and nk is not None and not src.is_p(nk, ';'):
                    raise WeaveError('outline: loop body returns a value from the enclosing function')
                edits.append((t[1], t[2], '{ proof { d6_loop_left_early(); } return }'))
        k = src.next_code(k)
    body = text[body_a:body_b]
    for (a, b, rep) in sorted(edits, reverse=True):
        body = body[:a - body_a] + rep + body[b - body_a:]
    line0 = first_line + text.count('\n', 0, body_a)
    new_text = 'pub fn %s(%s) {' % (name, ', '.join(sig_params)) + body + '}'
    return new_text, line0


# ----------------------------------------------------------------------------------------

DIRECTIVE = re.compile(r'^\s*//@(\w+)\s*(.*)$')


def weave(unit_path):
    """returns dict(text, origin(list per line), functions, items, rules, lost, props, hashes)"""
    with open(unit_path) as f:
        tlines = f.read().split('\n')
    trel = os.path.relpath(unit_path, VERIF)
    out = Out()
    info = dict(functions=[], items=[], rules=set(), lost=[], props=[], hashes={}, unit=os.path.basename(unit_path)[:-3],
                title='', includes=[], stubs=[])
    i = 0
    n = len(tlines)
    while i < n:
        line = tlines[i]
        m = DIRECTIVE.match(line)
        if not m:
            out.emit(line + '\n', 'tmpl', trel, i + 1)
            i += 1
            continue
        d, arg = m.group(1), m.group(2).strip()
        if d == 'unit':
            mm = re.match(r'(\S+)\s+props=(\S+)\s*(.*)$', arg)
            if not mm:
                raise WeaveError('bad //@unit line')
            info['unit'] = mm.group(1)
            info['props'] = mm.group(2).split(',')
            info['title'] = mm.group(3)
            mr = re.match(r'rlimit=(\d+)\s*(.*)$', info['title'])
            if mr:
                info['rlimit'] = int(mr.group(1))
                info['title'] = mr.group(2)
            i += 1
        elif d == 'include':
            p = os.path.join(VERIF, arg)
            with open(p) as f:
                out.emit(f.read(), 'shim', arg, 1)
            info['includes'].append(arg)
            i += 1
        elif d == 'extract':
            kind, rel, name = arg.split()[:3]
            text, first_line = extract_item(rel, kind, name)
            info['hashes']['%s %s %s' % (kind, rel, name)] = hashlib.sha256(text.encode()).hexdigest()
            stripped = strip_attrs_and_docs(text)
            info['rules'].add('D2')
            if kind == 'struct':
                st2 = publicise_fields(stripped)
                if st2 != stripped:
                    info['rules'].add('D12')
                stripped = st2
            st2 = publicise_item(stripped)
            if st2 != stripped:
                info['rules'].add('D12')
            stripped = st2
            if kind == 'const':
                # D21: a reference-typed const gets its (implicit) 'static lifetime spelled out: inside verus! the elision is rejected
                st2 = re.sub(r'(const\s+\w+\s*:\s*)&(?!\s*\')', r"\1&'static ", stripped, count=1)
                if st2 != stripped:
                    info['rules'].add('D21')
                stripped = st2
                # D13 (top-level form): a const initialised by an exec call (`Duration::from_millis(250)`) becomes an `exec const` whose
                # value is pinned by an ensures clause with the same expression (read in spec mode through `when_used_as_spec`)
                mc = re.match(r'^(\s*)(pub(?:\([a-z]+\))?\s+)?const\s+(\w+)\s*:\s*([^=]+?)\s*=\s*(Duration::from_\w+\([^;]*\))\s*;\s*$', stripped, re.S)
                if mc:
                    stripped = '%s%sexec const %s: %s\n    ensures %s == %s,\n{ %s }' % (mc.group(1), mc.group(2) or '', mc.group(3), mc.group(4), mc.group(3), mc.group(5), mc.group(5))
                    info['rules'].add('D13')
            # keep line structure: stripped text keeps the newlines of non-removed parts only; map by first line
            out.emit(stripped + '\n', 'repo', rel, first_line)
            info['items'].append(dict(kind=kind, file=rel, name=name, line=first_line))
            i += 1
        elif d in ('fn', 'stub', 'outline'):
            parts = arg.split()
            rel, qual = parts[0], parts[1]
            opts = dict(p.split('=', 1) for p in parts[2:])
            tname, fname = qual.rsplit('::', 1)
            text, first_line = locate_fn(rel, tname or None, fname, opts.get('trait'))
            info['hashes']['fn %s %s' % (rel, qual)] = hashlib.sha256(text.encode()).hexdigest()
            if d == 'outline':
                # gather //@params and //@capture lines that follow immediately
                o_params, o_caps = [], []
                j = i + 1
                while j < n:
                    mm0 = DIRECTIVE.match(tlines[j])
                    if mm0 and mm0.group(1) == 'params':
                        o_params += [x.strip() for x in mm0.group(2).split(',') if x.strip()]
                    elif mm0 and mm0.group(1) == 'capture':
                        mode, decl = mm0.group(2).strip().split(None, 1)
                        o_caps.append((mode, decl.strip()))
                    else:
                        break
                    j += 1
                i = j - 1
                try:
                    text, first_line = outline_loop_body(text, first_line, int(opts['loop']), opts['name'], o_params, o_caps, rel)
                except LoopGone:
                    # no loop left in that function: skip the outlined body (nothing to prove about a loop that does not exist)
                    info.setdefault('loops_gone', []).append('%s loop %s' % (qual, opts['loop']))
                    while i < n and not (DIRECTIVE.match(tlines[i]) and DIRECTIVE.match(tlines[i]).group(1) == 'endfn'):
                        i += 1
                    i += 1
                    continue
                qual = qual + '#loop%s(%s)' % (opts['loop'], opts['name'])
                info['rules'].add('D6')
            if d != 'stub':
                info.setdefault('fn_texts', []).append((rel, text))
                if d == 'fn' and tname:
                    info.setdefault('fn_types', []).append((rel, tname, text))
            fw = FnWeaver(text, rel, first_line, qual, trel)
            if not opts.get('trait'):
                fw.publicise()
            if d == 'stub':
                fw.stub_body()
            else:
                fw.drop_logs()
                fw.deref_for_patterns()
                fw.local_consts_to_let()
                fw.closure_tuple_params()
                fw.enumerate_to_index()
                fw.index_loops()
                fw.le_bytes_calls()
                fw.io_error_calls()
            fw.rename_underscore_params()
            attrs = []
            spec_files = []
            safety = list(info['props'])
            i += 1
            has_spec = False
            while i < n:
                mm = DIRECTIVE.match(tlines[i])
                if not mm:
                    if tlines[i].strip():
                        raise WeaveError('%s:%d: text outside a sub-directive inside //@fn' % (trel, i + 1))
                    i += 1
                    continue
                sd, sarg = mm.group(1), mm.group(2).strip()
                if sd == 'endfn':
                    i += 1
                    break
                # gather block lines
                j = i + 1
                blk = []
                while j < n and not DIRECTIVE.match(tlines[j]):
                    blk.append(tlines[j])
                    j += 1
                blk_line = i + 2
                if sd == 'ret':
                    fw.name_ret(sarg)
                elif sd == 'safety':
                    safety = [x.strip() for x in sarg.split(',') if x.strip()]
                elif sd == 'attr':
                    attrs.append(sarg)
                elif sd == 'spec':
                    fw.add_spec(blk, blk_line)
                    has_spec = True
                elif sd == 'specfile':
                    sp = os.path.join(VERIF, sarg)
                    with open(sp) as sf:
                        sl = sf.read().rstrip('\n').split('\n')
                    fw.tmpl_file, keep = sarg, fw.tmpl_file
                    fw.add_spec(sl, 1)
                    fw.tmpl_file = keep
                    has_spec = True
                    spec_files.append(sarg)
                    info['includes'].append(sarg)
                elif sd == 'entry':
                    fw.add_entry(blk, blk_line)
                elif sd == 'end':
                    fw.add_end(blk, blk_line)
                elif sd == 'loopend':
                    fw.add_loop_end(int(sarg), blk, blk_line)
                elif sd == 'cut':
                    mm3 = re.match(r'/(.*?)/\s*\.\.\s*/(.*?)/\s*=>\s*(.*)$', sarg)
                    fw.cut_statements(mm3.group(1), mm3.group(2), mm3.group(3))
                elif sd == 'cutexpr':
                    mm3 = re.match(r'/(.*)/\s*=>\s*(.*)$', sarg)
                    fw.cut_expression(mm3.group(1), mm3.group(2))
                elif sd == 'summarize':
                    mm3 = re.match(r'(\d+)\s*=>\s*(.*)$', sarg)
                    fw.summarize_loop(int(mm3.group(1)), mm3.group(2))
                elif sd == 'hoistexit':
                    la = sarg.split(None, 1)
                    carry = []
                    for it in (la[1].split(';') if len(la) > 1 else []):
                        nm, ty = it.split(':', 1)
                        carry.append((nm.strip(), ty.strip()))
                    fw.hoist_exit(int(la[0]), carry)
                elif sd == 'afterloop':
                    fw.add_after_loop(int(sarg), blk, blk_line)
                elif sd == 'replacearm':
                    mm3 = re.match(r'/(.*)/\s*=>\s*(.*)$', sarg)
                    fw.replace_arm(mm3.group(1), mm3.group(2))
                elif sd == 'loop':
                    la = sarg.split()
                    itn = None
                    over = None
                    for x in la[1:]:
                        if x.startswith('iter='):
                            itn = x[5:]
                        if x.startswith('over='):
                            over = x[5:]
                    fw.add_loop_spec(fw.loop_by_header(int(la[0]), over), blk, blk_line, itn)
                elif sd == 'forwhile':
                    fw.desugar_for_continue(int(sarg))
                elif sd == 'arrayloop':
                    fw.array_loop(int(sarg))
                elif sd == 'closure':
                    cn, hdr = sarg.split(None, 1)
                    fw.annotate_closure(int(cn), hdr)
                elif sd == 'cpspec':
                    cn, hdr = sarg.split(None, 1)
                    fw.closure_param_spec(int(cn), hdr)
                elif sd == 'letarg':
                    mm2 = re.match(r'/(.*)/\s*(\d+)?\s+(\w+)$', sarg)
                    if not mm2:
                        raise WeaveError('%s:%d: bad letarg' % (trel, i + 1))
                    fw.let_mut_arg(mm2.group(1), int(mm2.group(2) or 1), mm2.group(3))
                elif sd == 'tail':
                    mm2 = re.match(r'/(.*)/\s*(\d+)?$', sarg)
                    if not mm2:
                        raise WeaveError('%s:%d: bad anchor' % (trel, i + 1))
                    fw.add_tail_hint(mm2.group(1), int(mm2.group(2) or 1), blk, blk_line)
                elif sd in ('after', 'before', 'afteropt', 'beforeopt'):
                    mm2 = re.match(r'/(.*)/\s*(\d+|last)?$', sarg)
                    if not mm2:
                        raise WeaveError('%s:%d: bad anchor' % (trel, i + 1))
                    if mm2.group(2) == 'last':
                        mm2 = re.match(r'/(.*)/\s*(\d+)?$', '/%s/ 0' % mm2.group(1))
                    if sd.endswith('opt'):
                        # hint that serves only the path through the anchored statement (e.g. an early `return`): if that statement is gone,
                        # so is the path, and the hint is not needed -- not counted as a lost anchor
                        n_lost = len(fw.lost)
                        fw.add_hint(sd[:-3], mm2.group(1), int(mm2.group(2) or 1), blk, blk_line)
                        if len(fw.lost) > n_lost:
                            info.setdefault('lost_optional', []).extend(fw.lost[n_lost:])
                            del fw.lost[n_lost:]
                    else:
                        fw.add_hint(sd, mm2.group(1), int(mm2.group(2) or 1), blk, blk_line)
                else:
                    raise WeaveError('%s:%d: unknown sub-directive %s' % (trel, i + 1, sd))
                i = j
            start_line = len(out.lines) + 1
            if d == 'stub':
                attrs = ['#[verifier::external_body]'] + attrs
            fw.render(out, attrs)
            end_line = len(out.lines)
            info['rules'] |= fw.rules
            info['lost'] += fw.lost
            if d == 'stub' or any('external_body' in a_ for a_ in attrs):
                info['stubs'].append(dict(qual=qual, file=rel, line=first_line, specfiles=list(spec_files), has_spec=has_spec))
            else:
                info['functions'].append(dict(qual=qual, file=rel, line=first_line, out_start=start_line, out_end=end_line,
                                              safety=safety, contracted=has_spec, lost=list(fw.lost)))
        else:
            raise WeaveError('%s:%d: unknown directive %s' % (trel, i + 1, d))
    # D20: top-level constants of the same source file that an extracted (non-stub) function refers to and the unit did not extract
    # itself are extracted automatically (e.g. a bound newly introduced next to the function); emitted just before `} // verus!`
    text0 = out.finish()
    auto = []
    have = set(re.findall(r'\bconst\s+([A-Z][A-Z0-9_]*)\b', text0)) | set(re.findall(r'\blet\s+([A-Z][A-Z0-9_]*)\b', text0))
    for (rel_f, body_f) in info.get('fn_texts', []):
        for nm in sorted(set(re.findall(r'\b([A-Z][A-Z0-9_]{2,})\b', body_f))):
            if nm in have:
                continue
            try:
                ctext, cline = extract_item(rel_f, 'const', nm)
            except Exception:
                continue
            src_c = load_repo(rel_f)
            # top-level only
            if not re.search(r'^(pub(\([a-z]+\))?\s+)?const\s+%s\b' % nm, ctext.strip()):
                continue
            have.add(nm)
            auto.append((rel_f, nm, publicise_item(strip_attrs_and_docs(ctext)), cline))
            info['hashes']['const %s %s' % (rel_f, nm)] = hashlib.sha256(ctext.encode()).hexdigest()
            info['items'].append(dict(kind='const', file=rel_f, name=nm, line=cline, auto=True))
            info['rules'].add('D20')
    if auto:
        k = len(out.lines) - 1
        while k >= 0 and not out.lines[k].startswith('} // verus!'):
            k -= 1
        if k >= 0:
            ins_lines, ins_origin = [], []
            for (rel_f, nm, ctext, cline) in auto:
                for off, ln in enumerate(ctext.split('\n')):
                    ins_lines.append(ln)
                    ins_origin.append(dict(kind='repo', file=rel_f, line=cline + off, fn=None))
            out.lines[k:k] = ins_lines
            out.origin[k:k] = ins_origin
    # D26: a method of the same type (same source file, non-generic impl) that an extracted function calls as `self.NAME(` and that the unit
    # declares nowhere is declared automatically by its real signature, `external_body`, with NO contract: nothing is known about what it
    # returns (or, through `&mut self`, changes).  A change that starts to call such a method is then judged by the caller's contract
    # (seed C11b: an early `return` guarded by `self.connected_clients() <= 1`) instead of stopping at "no method named ...".
    text0 = out.finish()
    auto_m = []
    seen_m = set()
    for (rel_f, tname_f, body_f) in info.get('fn_types', []):
        for nm in sorted(set(re.findall(r'\bself\s*\.\s*([a-z_][a-z0-9_]*)\s*\(', body_f))):
            if (tname_f, nm) in seen_m or re.search(r'\bfn\s+%s\b' % re.escape(nm), text0):
                continue
            seen_m.add((tname_f, nm))
            try:
                mtext, mline = locate_fn(rel_f, tname_f, nm, None)
            except Exception:
                continue
            try:
                fwm = FnWeaver(mtext, rel_f, mline, '%s::%s' % (tname_f, nm), trel)
                fwm.publicise()
                fwm.stub_body()
                fwm.rename_underscore_params()
                o2 = Out()
                fwm.render(o2, ['#[verifier::external_body]'])
                o2.finish()
            except Exception:
                continue
            auto_m.append((tname_f, o2))
            info['hashes']['fn %s %s::%s' % (rel_f, tname_f, nm)] = hashlib.sha256(mtext.encode()).hexdigest()
            info['stubs'].append(dict(qual='%s::%s' % (tname_f, nm), file=rel_f, line=mline, specfiles=[], has_spec=False, auto=True))
            info['rules'].add('D26')
    if auto_m:
        k = len(out.lines) - 1
        while k >= 0 and not out.lines[k].startswith('} // verus!'):
            k -= 1
        if k >= 0:
            ins_lines, ins_origin = [], []
            for (tname_f, o2) in auto_m:
                ins_lines.append('impl %s {' % tname_f)
                ins_origin.append(dict(kind='tmpl', file=trel, line=0, fn=None))
                ins_lines += o2.lines
                ins_origin += o2.origin
                ins_lines.append('}')
                ins_origin.append(dict(kind='tmpl', file=trel, line=0, fn=None))
            out.lines[k:k] = ins_lines
            out.origin[k:k] = ins_origin
    text = out.finish()
    info['text'] = text
    info['origin'] = out.origin
    info['rules'] = sorted(info['rules'])
    return info


if __name__ == '__main__':
    inf = weave(sys.argv[1])
    sys.stdout.write(inf['text'])
    sys.stderr.write('lost: %r\nrules: %r\n' % (inf['lost'], inf['rules']))
