//@unit U16 props=C01,C02,C03,C06,C08,C09,C11,C12,C13,C14,C15 rlimit=150 RenetClient::get_packets_to_send: one budget through all channels, every payload fits (renet/src/remote_connection.rs)
#![feature(allocator_api)]
#![allow(unused_imports, dead_code, unused_variables, unused_mut)]
use vstd::prelude::*;
use std::collections::{btree_map, BTreeMap, BTreeSet, HashMap, VecDeque};
use std::ops::Range;
verus! {

global size_of usize == 8;

//@include shims/bytes.rs
//@include shims/duration.rs
//@include shims/std_maps.rs
//@include shims/div_ceil.rs
//@include shims/octets.rs
//@include shims/slice_to_vec.rs
//@include shims/range_clone.rs

broadcast use {octets::axiom_varint_enc_len};
use octets::OctetsMut;

pub struct ConnectionStats;

//@extract const renet/src/packet.rs SLICE_SIZE
#[derive(Clone, Copy, Debug, PartialEq, Eq)]
//@extract enum renet/src/packet.rs SerializationError
#[derive(Clone, Copy, Debug, PartialEq, Eq)]
//@extract enum renet/src/error.rs ChannelError
#[derive(Clone, Copy, Debug, PartialEq, Eq)]
//@extract enum renet/src/error.rs DisconnectReason
//@extract enum renet/src/remote_connection.rs RenetConnectionStatus
//@extract enum renet/src/remote_connection.rs ChannelOrder
//@extract enum renet/src/remote_connection.rs PacketSentInfo
//@extract struct renet/src/remote_connection.rs PacketSent
//@extract struct renet/src/packet.rs Slice
//@extract enum renet/src/packet.rs Packet
//@extract struct renet/src/channel/slice_constructor.rs SliceConstructor
//@extract enum renet/src/channel/reliable.rs ReliableOrder
//@extract enum renet/src/channel/reliable.rs UnackedMessage
//@extract struct renet/src/channel/reliable.rs ReceiveChannelReliable
//@extract struct renet/src/channel/reliable.rs SendChannelReliable
//@extract struct renet/src/channel/unreliable.rs ReceiveChannelUnreliable
//@extract struct renet/src/channel/unreliable.rs SendChannelUnreliable
//@extract struct renet/src/remote_connection.rs RenetClient
//@extract type renet/src/packet.rs Payload

//@include contracts/shared/sum_specs.rs
//@include contracts/shared/count_specs.rs
//@include contracts/shared/slice_specs.rs
//@include contracts/shared/sc_specs.rs
//@include contracts/shared/packet_bytes_specs.rs
//@include contracts/shared/slices_sum_specs.rs
//@include contracts/shared/packet_specs.rs
//@include contracts/shared/recv_reliable_specs.rs
//@include contracts/shared/recv_unreliable_specs.rs
//@include contracts/shared/unacked_specs.rs
//@include contracts/shared/send_reliable_specs.rs
//@include contracts/shared/send_unreliable_specs.rs
//@include contracts/shared/wire_specs.rs
//@include contracts/shared/wire_format_specs.rs
//@include contracts/shared/ack_specs.rs
//@include contracts/shared/client_status_specs.rs
//@include contracts/shared/client_ack_specs.rs
//@include contracts/shared/client_glue_specs.rs
//@include contracts/shared/send_loop_specs.rs
//@include contracts/shared/client_send_specs.rs
//@include contracts/shared/client_send_ready_specs.rs
//@include contracts/shared/client_record_specs.rs
//@include contracts/shared/client_label_specs.rs

impl ConnectionStats {
    #[verifier::external_body]
    pub fn sent_packets(&mut self, packets: u64, bytes: u64) { unimplemented!() }
}

impl Packet {
//@stub renet/src/packet.rs Packet::to_bytes
//@ret r
//@specfile contracts/shared/Packet.to_bytes.spec
//@endfn
}
impl SendChannelReliable {
//@stub renet/src/channel/reliable.rs SendChannelReliable::get_packets_to_send
//@ret r
//@specfile contracts/shared/SendChannelReliable.get_packets_to_send.spec
//@endfn
}
impl SendChannelUnreliable {
//@stub renet/src/channel/unreliable.rs SendChannelUnreliable::get_packets_to_send
//@ret r
//@specfile contracts/shared/SendChannelUnreliable.get_packets_to_send.spec
//@endfn
}
impl RenetClient {
//@stub renet/src/remote_connection.rs RenetClient::is_disconnected
//@ret r
//@specfile contracts/shared/RenetClient.is_disconnected.spec
//@endfn
//@stub renet/src/remote_connection.rs RenetClient::disconnect_with_reason
//@specfile contracts/shared/RenetClient.disconnect_with_reason.spec
//@endfn

//@fn renet/src/remote_connection.rs RenetClient::get_packets_to_send
//@ret r
//@attr #[verifier::loop_isolation(false)]
//@specfile contracts/shared/RenetClient.get_packets_to_send.spec
//@letarg /packets\.append\(&mut channel\.get_packets_to_send\(&mut self\.packet_sequence, &mut available_bytes, self\.current_time\)\);/ rel_packets
//@letarg /packets\.append\(&mut channel\.get_packets_to_send\(&mut self\.packet_sequence, &mut available_bytes\)\);/ unrel_packets
//@cpspec 1 -> (o: u64) ensures o == __cp1.0
//@entry
        let ghost s0 = *self;
        let ghost seq0 = self.packet_sequence as int;
        proof { broadcast use glue_lemmas::lemma_same_but_one; lemma_all_sendable_empty(seq0);
            assert(records_written(s0.sent_packets@, s0.sent_packets@, Seq::<Packet>::empty(), seq0, 0, s0.current_time)) by { reveal(records_written); }
            assert(all_labelled(Seq::<Packet>::empty(), s0.channel_send_order@));
            lemma_kinds_kept_refl(s0.send_reliable_channels@); }
//@loop 1 iter=itO
            invariant
                itO.seq().len() == s0.channel_send_order@.len(),
                forall|i: int| 0 <= i < itO.seq().len() ==> *(#[trigger] itO.seq()[i]) == s0.channel_send_order@[i],
                // only the send channels and the packet counter move
                *self == (RenetClient { send_reliable_channels: self.send_reliable_channels, send_unreliable_channels: self.send_unreliable_channels,
                    packet_sequence: self.packet_sequence, ..s0 }),
                self.send_reliable_channels@.dom() == s0.send_reliable_channels@.dom(),
                self.send_unreliable_channels@.dom() == s0.send_unreliable_channels@.dom(),
                forall|c: u8| #[trigger] self.send_reliable_channels@.contains_key(c) ==> self.send_reliable_channels@[c].send_ok()
                    && self.send_reliable_channels@[c].times_ok(s0.current_time),
                forall|c: u8| #[trigger] self.send_unreliable_channels@.contains_key(c) ==> self.send_unreliable_channels@[c].send_ok(),
                self.packet_sequence == seq0 + packets@.len(),
                packets@.len() + available_bytes <= s0.available_bytes_per_tick + itO.index() * 0x800_0000_0000,
                all_sendable(packets@, seq0),                                                        // @C13 get_packets_to_send.every_channel_packet_is_sendable
                all_carried_in(packets@, self.send_reliable_channels@),                               // @C01,C02,C08 get_packets_to_send.everything_carried_names_a_queued_message_of_its_channel
                kinds_kept(s0.send_reliable_channels@, self.send_reliable_channels@),
                all_labelled(packets@, s0.channel_send_order@),                                      // @C03,C11 get_packets_to_send.every_packet_labelled_with_a_channel_of_the_send_order
                forall|c: u8| #[trigger] self.send_reliable_channels@.contains_key(c) ==> self.send_reliable_channels@[c].channel_id == c,
                forall|c: u8| #[trigger] self.send_unreliable_channels@.contains_key(c) ==> self.send_unreliable_channels@[c].channel_id == c,
                packets_payload(packets@) + available_bytes == s0.available_bytes_per_tick,          // @C14 get_packets_to_send.one_budget_through_all_channels
//@after /for order in self\.channel_send_order\.iter\(\) \{/
            let ghost k1 = itO.index() as int;
            let ghost s1 = *self;
            let ghost pk_before = packets@;
            let ghost seqb = self.packet_sequence as int;
            proof { assert(*order == s0.channel_send_order@[k1]); }
//@after /let channel = self\.send_reliable_channels\.get_mut\(channel_id\)\.unwrap\(\);/
                    proof {
                        assert(vstd::std_specs::hash::borrowed_key_removed(s1.send_reliable_channels@, s1.send_reliable_channels@.remove(*channel_id), channel_id));
                        assert(*channel == s1.send_reliable_channels@[*channel_id]);
                    }
//@after /packets\.append\(&mut channel\.get_packets_to_send\(&mut self\.packet_sequence, &mut available_bytes, self\.current_time\)\);/
                    proof {
                        let added = rel_packets_v;
                        assert(all_labelled(added, s0.channel_send_order@)) by {
                            assert(s0.channel_send_order@[k1] == ChannelOrder::Reliable(*channel_id));
                            assert forall|i: int| 0 <= i < added.len() implies labelled_from_order(#[trigger] added[i], s0.channel_send_order@) by {
                                assert(packet_channel(added[i]) == Some(*channel_id));
                                assert(added[i] is SmallReliable || added[i] is ReliableSlice);
                            }
                        }
                        lemma_all_labelled_append(pk_before, added, s0.channel_send_order@);
                        lemma_all_sendable_append(pk_before, added, seq0);
                        lemma_packets_payload_append(pk_before, added);
                        // what earlier packets carry is still queued under the same kinds; what the new ones carry is queued in this channel
                        lemma_kinds_kept_one(s1.send_reliable_channels@, self.send_reliable_channels@, *channel_id);
                        lemma_kinds_kept_trans(s0.send_reliable_channels@, s1.send_reliable_channels@, self.send_reliable_channels@);
                        lemma_carried_in_kinds_kept(pk_before, s1.send_reliable_channels@, self.send_reliable_channels@);
                        assert(all_carried_in(added, self.send_reliable_channels@)) by {
                            assert forall|i: int| 0 <= i < added.len() implies carried_in(#[trigger] added[i], self.send_reliable_channels@) by {
                                assert(packet_channel(added[i]) == Some(*channel_id));
                                assert(carried_ok(added[i], self.send_reliable_channels@[*channel_id].unacked_messages@));
                            }
                        }
                        lemma_all_carried_in_append(pk_before, added, self.send_reliable_channels@);
                    }
//@after /let channel = self\.send_unreliable_channels\.get_mut\(channel_id\)\.unwrap\(\);/
                    let ghost uq0 = channel.unreliable_messages@;
                    let ghost uid0 = channel.sliced_message_id as int;
                    proof {
                        assert(vstd::std_specs::hash::borrowed_key_removed(s1.send_unreliable_channels@, s1.send_unreliable_channels@.remove(*channel_id), channel_id));
                        assert(*channel == s1.send_unreliable_channels@[*channel_id]);
                    }
//@after /packets\.append\(&mut channel\.get_packets_to_send\(&mut self\.packet_sequence, &mut available_bytes\)\);/
                    proof {
                        let added = unrel_packets_v;
                        let uid1 = self.send_unreliable_channels@[*channel_id].sliced_message_id as int;
                        let m = choose|m: Map<u64, int>| uids_ok(added, uq0, m, uid0, uid1);
                        lemma_unreliable_packets_sendable(added, seqb, uq0, m, uid0, uid1);
                        assert(all_labelled(added, s0.channel_send_order@)) by {
                            assert(s0.channel_send_order@[k1] == ChannelOrder::Unreliable(*channel_id));
                            assert forall|i: int| 0 <= i < added.len() implies labelled_from_order(#[trigger] added[i], s0.channel_send_order@) by {
                                assert(packet_channel(added[i]) == Some(*channel_id));
                                assert(upkt_ok(added[i], seqb + i, uq0));
                            }
                        }
                        lemma_all_labelled_append(pk_before, added, s0.channel_send_order@);
                        lemma_all_sendable_append(pk_before, added, seq0);
                        lemma_packets_payload_append(pk_before, added);
                    }
//@before /let ack_packet = Packet::Ack \{/
            let ghost pk_a = packets@;
//@after /packets\.push\(ack_packet\);/
            proof {
                let ap = packets@.last();
                assert(packets@.drop_last() =~= pk_a);
                assert(ap matches Packet::Ack { sequence, ack_ranges } && ack_ranges@ =~= s0.pending_acks@ && sequence == seq0 + pk_a.len());
                match ap { Packet::Ack { sequence, ack_ranges } => { lemma_pending_acks_sendable(sequence, ack_ranges); }, _ => {} }
                lemma_all_sendable_push(pk_a, ap, seq0);
                assert(all_labelled(packets@, s0.channel_send_order@));
                lemma_packets_payload_push(pk_a, ap);
                assert(pk_a.push(ap) =~= packets@);
            }
//@before /let sent_at = self\.current_time;/
        let ghost pk = packets@;
        let ghost s2 = *self;
        proof { assert(all_carried_in(pk, s2.send_reliable_channels@)); assert(kinds_kept(s0.send_reliable_channels@, s2.send_reliable_channels@)); }
        proof { assert(records_written(s2.sent_packets@, s2.sent_packets@, pk, seq0, 0, s2.current_time)) by { reveal(records_written); }
                assert(new_records_ok(s2, s2.sent_packets@, seq0, 0)) by { reveal(new_records_ok); } }
        proof { assert(pk.len() <= 0x1_0000_0000_0000 + 256 * 0x800_0000_0000 + 1); }
//@loop 2 iter=itQ
            invariant
                itQ.seq().len() == pk.len(),
                forall|i: int| 0 <= i < pk.len() ==> *(#[trigger] itQ.seq()[i]) == pk[i],
                *self == (RenetClient { sent_packets: self.sent_packets, ..s2 }),
                sent_at == s2.current_time,
                new_records_ok(s2, self.sent_packets@, seq0, itQ.index() as int),                     // @C06,C08 get_packets_to_send.each_new_record_satisfies_the_record_invariant
                records_written(s2.sent_packets@, self.sent_packets@, pk, seq0, itQ.index() as int, s2.current_time),   // @C01,C08,C15 get_packets_to_send.each_record_names_exactly_what_its_packet_carried
//@after /for packet in packets\.iter\(\) \{/
            proof {
                assert(*packet == pk[itQ.index() as int]);
                lemma_all_sendable_at(pk, seq0, itQ.index() as int);
                assert(packet_seq(*packet) == seq0 + itQ.index());
                reveal(records_written);
                reveal(new_records_ok);
                assert(carried_in(pk[itQ.index() as int], s2.send_reliable_channels@));
            }
//@before /let last_range = ack_ranges\.last\(\)\.unwrap\(\);/
                    proof { lemma_ranges_wf_at(ack_ranges@, ack_ranges@.len() - 1); }
//@before /let mut buffer = /
        let ghost s3 = *self;
        let ghost rec_done = records_written(s0.sent_packets@, s3.sent_packets@, pk, seq0, pk.len() as int, s0.current_time)
            && new_records_ok(s2, s3.sent_packets@, seq0, pk.len() as int);
        proof { assert(rec_done); }
//@loop 3 iter=itR
            invariant
                itR.seq() == pk,
                *self == (RenetClient { stats: self.stats, ..s3 }),
                payload_lens_ok(serialized_packets@, pk, itR.index() as int),   // @C13 get_packets_to_send.each_payload_is_one_packet_of_at_most_1300_bytes
                bytes_sent <= itR.index() * 1400,
                rec_done,
                pk.len() <= 0x10_0000_0000_0000,
//@after /for packet in packets \{/
            proof {
                assert(packet == pk[itR.index() as int]);
                lemma_all_sendable_at(pk, seq0, itR.index() as int);
                lemma_sendable_fits_carrier(packet);
            }
            let ghost sp_before = serialized_packets@;
            let ghost k3 = itR.index() as int;
//@after /serialized_packets\.push\(buffer\[\.\.len\]\.to_vec\(\)\);/
            proof {
                assert(serialized_packets@ =~= sp_before.push(serialized_packets@.last()));
                assert(serialized_packets@.last()@.len() == plen(pk[k3]));
                assert forall|j: int| 0 <= j < k3 + 1 implies (#[trigger] serialized_packets@[j])@.len() == plen(pk[j]) && plen(pk[j]) <= 1300 by {
                    if j < k3 { assert(serialized_packets@[j] == sp_before[j]); }
                }
                assert(payload_lens_ok(serialized_packets@, pk, k3 + 1));
            }
//@before /^\s+serialized_packets$/
        proof {
            assert(payload_lens_ok(serialized_packets@, pk, pk.len() as int));
            assert(all_sendable(pk, seq0));
            assert(all_labelled(pk, s0.channel_send_order@));
            assert(packets_payload(pk) <= s0.available_bytes_per_tick);
            assert(self.sent_packets@ == s3.sent_packets@);
            assert(s2.sent_packets@ == s0.sent_packets@ && s2.current_time == s0.current_time);
            assert(records_written(s0.sent_packets@, self.sent_packets@, pk, s0.packet_sequence as int, pk.len() as int, s0.current_time));
            if s0.records_ok() {
                assert forall|q: u64| #[trigger] self.sent_packets@.contains_key(q) implies self.record_ok(self.sent_packets@[q].info) by {
                    reveal(records_written);
                    reveal(new_records_ok);
                    if seq0 <= q < seq0 + pk.len() {
                        let i = q - seq0;
                        assert(s2.record_ok(self.sent_packets@[(seq0 + i) as u64].info));
                    } else {
                        assert(s0.sent_packets@.contains_key(q) && self.sent_packets@[q] == s0.sent_packets@[q]);
                        assert(s0.record_ok(s0.sent_packets@[q].info));
                        lemma_record_ok_kinds_kept(s0, *self, s0.sent_packets@[q].info);
                    }
                }
            }
        }
//@endfn
}

} // verus!
fn main() {}
