//@unit U18 props=C08,C09,C11,C15 rlimit=100 RenetClient::update: time, stale fragments, the 3-second sent-packet horizon (renet/src/remote_connection.rs)
#![feature(allocator_api)]
#![allow(unused_imports, dead_code, unused_variables, unused_mut)]
use vstd::prelude::*;
use std::collections::{btree_map, BTreeMap, BTreeSet, HashMap, VecDeque};
use std::ops::Range;
verus! {

global size_of usize == 8;

//@include shims/bytes.rs
//@include shims/duration.rs
//@include shims/std_maps.rs

pub struct ConnectionStats;
pub struct SendChannelReliable;
pub struct SendChannelUnreliable;
pub struct ReceiveChannelReliable;
pub struct ChannelOrder;

//@extract const renet/src/packet.rs SLICE_SIZE
#[derive(Clone, Copy, Debug, PartialEq, Eq)]
//@extract enum renet/src/packet.rs SerializationError
#[derive(Clone, Copy, Debug, PartialEq, Eq)]
//@extract enum renet/src/error.rs ChannelError
#[derive(Clone, Copy, Debug, PartialEq, Eq)]
//@extract enum renet/src/error.rs DisconnectReason
//@extract enum renet/src/remote_connection.rs RenetConnectionStatus
//@extract enum renet/src/remote_connection.rs PacketSentInfo
//@extract struct renet/src/remote_connection.rs PacketSent
//@extract struct renet/src/packet.rs Slice
//@extract struct renet/src/channel/slice_constructor.rs SliceConstructor
//@extract struct renet/src/channel/unreliable.rs ReceiveChannelUnreliable
//@extract struct renet/src/remote_connection.rs RenetClient

//@include contracts/shared/sum_specs.rs
//@include contracts/shared/count_specs.rs
//@include contracts/shared/slice_specs.rs
//@include contracts/shared/sc_specs.rs
//@include contracts/shared/packet_bytes_specs.rs
//@include contracts/shared/slices_sum_specs.rs
//@include contracts/shared/recv_unreliable_specs.rs

impl ConnectionStats {
    #[verifier::external_body]
    pub fn update(&mut self, current_time: Duration) { unimplemented!() }
}

impl ReceiveChannelUnreliable {
//@stub renet/src/channel/unreliable.rs ReceiveChannelUnreliable::discard_incomplete_old_slices
//@specfile contracts/shared/ReceiveChannelUnreliable.discard_incomplete_old_slices.spec
//@endfn
}

/// the contract of ReceiveChannelUnreliable::discard_incomplete_old_slices (U5) as one predicate
pub open spec fn discard_effect(pre: ReceiveChannelUnreliable, post: ReceiveChannelUnreliable, now: Duration) -> bool {
    &&& post.wf()
    &&& (pre.clean() ==> post.clean())
    &&& forall|id: u64| #[trigger] post.slices_last_received@.contains_key(id) ==> now.nanos - post.slices_last_received@[id].nanos < 3_000_000_000
    &&& forall|id: u64| #[trigger] post.slices_last_received@.contains_key(id) ==>
            pre.slices_last_received@.contains_key(id) && post.slices_last_received@[id] == pre.slices_last_received@[id]
    &&& forall|id: u64| #[trigger] pre.slices_last_received@.contains_key(id) && now.nanos - pre.slices_last_received@[id].nanos < 3_000_000_000
            ==> post.slices_last_received@.contains_key(id) && post.slices@.contains_key(id) && post.slices@[id] == pre.slices@[id]
    &&& post.messages@ == pre.messages@ && post.max_memory_usage_bytes == pre.max_memory_usage_bytes
    &&& post.not_after(now)
}

/// STEP (checked): the body of the first loop of RenetClient::update on one channel
pub fn discard_step(unreliable_channel: &mut ReceiveChannelUnreliable, current_time: Duration)
    requires old(unreliable_channel).wf(), old(unreliable_channel).not_after(current_time),
    ensures discard_effect(*old(unreliable_channel), *final(unreliable_channel), current_time),      // @C09 update.each_channel_discards_its_stale_fragments
{
    unreliable_channel.discard_incomplete_old_slices(current_time);
}

/// rule D18 -- ASSUMED: the loop `for unreliable_channel in self.receive_unreliable_channels.values_mut() { BODY }` as a whole.
/// Its contract is the step above applied to every entry (HashMap::values_mut visits every value once, adds and removes nothing).
#[verifier::external_body]
pub fn discard_all_summary(channels: &mut HashMap<u8, ReceiveChannelUnreliable>, current_time: Duration)
    requires forall|c: u8| #[trigger] old(channels)@.contains_key(c) ==> old(channels)@[c].wf() && old(channels)@[c].not_after(current_time),
    ensures
        final(channels)@.dom() == old(channels)@.dom(),
        forall|c: u8| #[trigger] old(channels)@.contains_key(c) ==> discard_effect(old(channels)@[c], final(channels)@[c], current_time),
{ unimplemented!() }

pub open spec fn stale_packet(now: Duration, p: PacketSent) -> bool {
    now.nanos - p.sent_at.nanos >= 3_000_000_000
}

impl RenetClient {
//@fn renet/src/remote_connection.rs RenetClient::update
//@attr #[verifier::loop_isolation(false)]
//@summarize 1 => discard_all_summary(&mut self.receive_unreliable_channels, self.current_time);
//@spec
        requires
            // history assumptions: time only moves forward (no timestamp lies in the future) and does not overflow u128 nanoseconds
            // ... and stays within what std::time::Duration can represent (u64::MAX seconds)
            old(self).current_time.nanos + duration.nanos <= 0xFFFF_FFFF_FFFF_FFFF * 1_000_000_000,
            forall|c: u8| #[trigger] old(self).receive_unreliable_channels@.contains_key(c) ==> old(self).receive_unreliable_channels@[c].wf()
                && old(self).receive_unreliable_channels@[c].not_after(old(self).current_time),
            forall|q: u64| #[trigger] old(self).sent_packets@.contains_key(q) ==> old(self).sent_packets@[q].sent_at.nanos <= old(self).current_time.nanos,
        ensures
            final(self).current_time.nanos == old(self).current_time.nanos + duration.nanos,                         // @C15 update.time_advances_by_the_tick
            // C09: every unreliable receive channel drops the fragments that made no progress for 3 s, and only those
            final(self).receive_unreliable_channels@.dom() == old(self).receive_unreliable_channels@.dom(),           // @C09 update.no_channel_appears_or_vanishes
            forall|c: u8| #[trigger] old(self).receive_unreliable_channels@.contains_key(c) ==>
                discard_effect(old(self).receive_unreliable_channels@[c], final(self).receive_unreliable_channels@[c], final(self).current_time),   // @C09 update.stale_fragments_discarded_in_every_channel
            // C15/C08: the record of a sent packet is forgotten only when it is at least 3 s old; younger records are all kept, unchanged
            forall|q: u64| #[trigger] final(self).sent_packets@.contains_key(q) ==> old(self).sent_packets@.contains_key(q)
                && final(self).sent_packets@[q] == old(self).sent_packets@[q],                                        // @C08,C15 update.sent_records_only_removed
            forall|q: u64| #[trigger] old(self).sent_packets@.contains_key(q) && !final(self).sent_packets@.contains_key(q) ==>
                stale_packet(final(self).current_time, old(self).sent_packets@[q]),                                   // @C15 update.only_records_older_than_3s_are_forgotten
            forall|q: u64| #[trigger] final(self).sent_packets@.contains_key(q) ==>
                final(self).sent_packets@[q].sent_at.nanos <= final(self).current_time.nanos,                          // @C15 update.timestamps_not_in_future
            // nothing else changes
            final(self).packet_sequence == old(self).packet_sequence && final(self).pending_acks@ == old(self).pending_acks@
                && final(self).connection_status == old(self).connection_status
                && final(self).receive_reliable_channels@ == old(self).receive_reliable_channels@
                && final(self).send_reliable_channels@ == old(self).send_reliable_channels@
                && final(self).send_unreliable_channels@ == old(self).send_unreliable_channels@
                && final(self).channel_send_order@ == old(self).channel_send_order@
                && final(self).available_bytes_per_tick == old(self).available_bytes_per_tick,                         // @C11 update.frame
//@entry
        let ghost s0 = *self;
//@before /let mut lost_packets: Vec<u64> = Vec::new\(\);/
        let ghost s1 = *self;
        let ghost sp0 = self.sent_packets@;
        let ghost now = self.current_time;
//@loop 2 iter=itS
            invariant
                *self == s1,
                forall|i: int| 0 <= i < itS.seq().len() ==> sp0.contains_key(*(#[trigger] itS.seq()[i]).0) && sp0[*itS.seq()[i].0] == *itS.seq()[i].1,
                forall|j: int| 0 <= j < lost_packets@.len() ==> sp0.contains_key(#[trigger] lost_packets@[j]) && stale_packet(now, sp0[lost_packets@[j]]),   // @C15 update.only_records_at_least_3s_old_are_collected
//@before /for sequence in lost_packets\.iter\(\) \{/
        let ghost lost = lost_packets@;
//@loop 3 iter=itL
            invariant
                lost == lost_packets@,
                itL.seq().len() == lost.len(),
                forall|i: int| 0 <= i < lost.len() ==> *(#[trigger] itL.seq()[i]) == lost[i],
                *self == (RenetClient { sent_packets: self.sent_packets, ..s1 }),
                forall|q: u64| #[trigger] self.sent_packets@.contains_key(q) ==> sp0.contains_key(q) && self.sent_packets@[q] == sp0[q],
                forall|q: u64| #[trigger] sp0.contains_key(q) && !self.sent_packets@.contains_key(q) ==> lost.contains(q),
//@endfn
}

} // verus!
fn main() {}
