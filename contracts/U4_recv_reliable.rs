//@unit U4 props=C01,C02,C03,C06,C09 ReceiveChannelReliable (renet/src/channel/reliable.rs)
#![feature(allocator_api)]
#![allow(unused_imports, dead_code, unused_variables, unused_mut)]
use vstd::prelude::*;
use std::collections::{btree_map, BTreeMap, BTreeSet, HashMap};
verus! {

global size_of usize == 8;

//@include shims/bytes.rs
//@include shims/std_maps.rs

//@extract const renet/src/packet.rs SLICE_SIZE

#[derive(Clone, Copy, Debug, PartialEq, Eq)]
//@extract enum renet/src/error.rs ChannelError

//@extract struct renet/src/packet.rs Slice
//@extract struct renet/src/channel/slice_constructor.rs SliceConstructor
//@extract enum renet/src/channel/reliable.rs ReliableOrder
//@extract struct renet/src/channel/reliable.rs ReceiveChannelReliable

//@include contracts/shared/sum_specs.rs
//@include contracts/shared/count_specs.rs
//@include contracts/shared/slice_specs.rs
//@include contracts/shared/sc_specs.rs
//@include contracts/shared/recv_reliable_specs.rs

broadcast use {count_lemmas::lemma_count_true_all_false};

impl SliceConstructor {
//@stub renet/src/channel/slice_constructor.rs SliceConstructor::new
//@ret r
//@specfile contracts/shared/SliceConstructor.new.spec
//@endfn

//@stub renet/src/channel/slice_constructor.rs SliceConstructor::process_slice
//@ret r
//@specfile contracts/shared/SliceConstructor.process_slice.spec
//@endfn
}

impl ReceiveChannelReliable {
//@fn renet/src/channel/reliable.rs ReceiveChannelReliable::new
//@ret r
//@specfile contracts/shared/ReceiveChannelReliable.new.spec
//@endfn

//@fn renet/src/channel/reliable.rs ReceiveChannelReliable::process_message
//@ret r
//@safety C06,C09
//@specfile contracts/shared/ReceiveChannelReliable.process_message.spec
//@entry
        proof { broadcast use recv_rel_lemmas::lemma_accounted_ext; }
//@before /^        Ok\(\(\)\)$/
        proof {
            if self.messages@ != old(self).messages@ {
                Self::lemma_acc_insert_message(old(self).messages@, old(self).slices@, message_id, message);
            }
            assert forall|id: u64| self.recv_set().contains(id) implies id < 0x4000_0000_0000_0000 by {
                if id != message_id { assert(old(self).recv_set().contains(id)); }
            }
        }
//@endfn

//@fn renet/src/channel/reliable.rs ReceiveChannelReliable::process_slice
//@ret r
//@safety C06,C09
//@specfile contracts/shared/ReceiveChannelReliable.process_slice.spec
//@entry
        proof { broadcast use recv_rel_lemmas::lemma_accounted_ext; }
//@closure 1 -> (c: SliceConstructor) ensures c.wf(), c.num_slices == slice.num_slices, c.num_received_slices == 0, forall|m: Seq<u8>| c.fits(m) ==> c.agrees(m)
//@before /if let Some\(message\) = slice_constructor\.process_slice\(/
        proof {
            assert forall|sub: Map<u64, Seq<u8>>| #![trigger old(self).auth(sub)] old(self).auth(sub) && sub.contains_key(slice.message_id)
                && slice.authentic(sub[slice.message_id]) implies
                    slice_constructor.agrees(sub[slice.message_id]) && slice_constructor.num_slices == slice.num_slices by {
                let m = sub[slice.message_id];
                if old(self).slices@.contains_key(slice.message_id) {
                    let c0 = old(self).slices@[slice.message_id];
                    assert(c0.agrees(m));
                    assert(c0.fits(m));
                    assert(*slice_constructor == c0);
                    assert(c0.num_slices == slice.num_slices) by (nonlinear_arith)
                        requires (c0.num_slices - 1) * 1200 < m.len() <= c0.num_slices * 1200,
                                 (slice.num_slices - 1) * 1200 < m.len() <= slice.num_slices * 1200;
                } else {
                    assert(slice_constructor.fits(m));
                }
            }
        }
//@after /if let Some\(message\) = slice_constructor\.process_slice\(/
            proof {
                let id = slice.message_id;
                let c1 = self.slices@[id];
                assert(self.messages@ == old(self).messages@);
                if old(self).slices@.contains_key(id) {
                    assert(self.slices@ == old(self).slices@.insert(id, c1));
                    Self::lemma_acc_update_slice(old(self).messages@, old(self).slices@, id, c1);
                } else {
                    assert(self.slices@ == old(self).slices@.insert(id, c1));
                    Self::lemma_acc_insert_slice(old(self).messages@, old(self).slices@, id, c1);
                }
                lemma_sum_ge(self.slices@.dom(), Self::slice_w(self.slices@), id);
            }
            let ghost g_slices = self.slices@;
            let ghost g_reserved = self.slices@[slice.message_id].num_slices * 1200;
//@before /self\.process_message\(message, slice\.message_id\)\?;/
            proof {
                assert(self.recv_set() == old(self).recv_set());
                assert(self.acc_off(g_reserved));
            }
//@after /self\.slices\.remove\(&slice\.message_id\);/
            proof {
                assert(self.memory_usage_bytes + g_reserved == Self::accounted_of(self.messages@, g_slices));
                Self::lemma_acc_remove_slice(self.messages@, g_slices, slice.message_id);
            }
//@before /^        Ok\(\(\)\)$/
        proof {
            let id = slice.message_id;
            assert(self.recv_set() == old(self).recv_set() || self.recv_set() == old(self).recv_set().insert(id));
            if self.slices@.contains_key(id) {
                // reassembly still incomplete: the constructor was created or updated in place
                let c1 = self.slices@[id];
                assert(self.messages@ == old(self).messages@);
                assert(self.slices@ == old(self).slices@.insert(id, c1));
                if old(self).slices@.contains_key(id) {
                    Self::lemma_acc_update_slice(old(self).messages@, old(self).slices@, id, c1);
                } else {
                    Self::lemma_acc_insert_slice(old(self).messages@, old(self).slices@, id, c1);
                }
            }
        }
//@endfn

//@fn renet/src/channel/reliable.rs ReceiveChannelReliable::receive_message
//@ret r
//@safety C06,C09
//@attr #[verifier::loop_isolation(false)]
//@specfile contracts/shared/ReceiveChannelReliable.receive_message.spec
//@entry
        proof { broadcast use recv_rel_lemmas::lemma_accounted_ext; }
//@after /let message = self\.messages\.remove\(&self\.oldest_pending_message_id\)\?;/
                proof {
                    Self::lemma_acc_remove_message(old(self).messages@, old(self).slices@, old(self).oldest_pending_message_id);
                }
//@after /let \(message_id, message\) = self\.messages\.pop_first\(\)\?;/
                proof {
                    Self::lemma_acc_remove_message(old(self).messages@, old(self).slices@, message_id);
                }
//@loop 1
                        invariant
                            old(self).acc(),
                            old(self).messages@.contains_key(message_id),
                            self.messages@ == old(self).messages@.remove(message_id),
                            self.slices@ == old(self).slices@,
                            self.memory_usage_bytes == old(self).memory_usage_bytes,
                            self.max_memory_usage_bytes == old(self).max_memory_usage_bytes,
                            old(self).oldest_pending_message_id <= self.oldest_pending_message_id <= 0x4000_0000_0000_0000,
                            received_messages@.subset_of(old(self).recv_set()),
                            !old(self).is_ordered(),
                            forall|id: u64| old(self).done(id) ==> id < self.oldest_pending_message_id || received_messages@.contains(id),
                            forall|id: u64| id < self.oldest_pending_message_id ==> old(self).done(id),
                        decreases received_messages@.len(),
//@endfn
}

} // verus!
fn main() {}
