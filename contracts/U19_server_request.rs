//@unit U19 props=C04,C05,C07,C10,C13,C17,C18,C19 rlimit=100 NetcodeServer::{new, handle_connection_request, find_or_add_connect_token_entry, process_packet_internal, process_packet, generate_payload_packet, update_client, disconnect, update, set_max_clients, client_addr, user_data, is_client_connected} (renetcode/src/server.rs)
#![feature(allocator_api)]
#![allow(unused_imports, dead_code, unused_variables, unused_mut)]
use vstd::prelude::*;
use std::collections::{btree_map, BTreeMap, BTreeSet, HashMap};
use std::net::SocketAddr;
use std::io;
verus! {

global size_of usize == 8;

//@include shims/duration.rs
//@include shims/std_maps.rs

//@include shims/socket_addr.rs
//@include shims/into_boxed_slice.rs

broadcast use {socket_addr_axioms::axiom_socket_addr_key_model};

#[verifier::external_type_specification]
#[verifier::external_body]
pub struct ExIoError(std::io::Error);

//@extract const renetcode/src/lib.rs NETCODE_VERSION_INFO
//@extract const renetcode/src/lib.rs NETCODE_MAX_CLIENTS
//@extract const renetcode/src/lib.rs NETCODE_MAX_PENDING_CLIENTS
//@extract const renetcode/src/lib.rs NETCODE_CONNECT_TOKEN_PRIVATE_BYTES
//@extract const renetcode/src/lib.rs NETCODE_MAX_PACKET_BYTES
//@extract const renetcode/src/lib.rs NETCODE_MAX_PAYLOAD_BYTES
//@extract const renetcode/src/lib.rs NETCODE_KEY_BYTES
//@extract const renetcode/src/lib.rs NETCODE_MAC_BYTES
//@extract const renetcode/src/lib.rs NETCODE_USER_DATA_BYTES
//@extract const renetcode/src/lib.rs NETCODE_CHALLENGE_TOKEN_BYTES
//@extract const renetcode/src/lib.rs NETCODE_CONNECT_TOKEN_XNONCE_BYTES
//@extract const renetcode/src/replay_protection.rs NETCODE_REPLAY_BUFFER_SIZE
//@extract const renetcode/src/lib.rs NETCODE_SEND_RATE

#[derive(Debug, Clone, Copy, PartialEq, Eq)]
//@extract enum renetcode/src/client.rs DisconnectReason
//@extract enum renetcode/src/token.rs TokenGenerationError
//@extract enum renetcode/src/error.rs NetcodeError
impl vstd::std_specs::convert::FromSpecImpl<TokenGenerationError> for NetcodeError {
    open spec fn obeys_from_spec() -> bool { true }
    open spec fn from_spec(v: TokenGenerationError) -> NetcodeError { NetcodeError::TokenGenerationError(v) }
}
impl From<TokenGenerationError> for NetcodeError {
//@fn renetcode/src/error.rs NetcodeError::from trait=From<TokenGenerationError>
//@endfn
}
//@extract enum renetcode/src/packet.rs Packet
//@extract struct renetcode/src/packet.rs ChallengeToken
//@extract struct renetcode/src/token.rs PrivateConnectToken
#[derive(Debug, Clone)]
//@extract struct renetcode/src/replay_protection.rs ReplayProtection
#[derive(Debug, Clone, Copy, PartialEq, Eq, Structural)]
//@extract enum renetcode/src/server.rs ConnectionState
#[derive(Debug, Clone)]
//@extract struct renetcode/src/server.rs Connection
#[derive(Debug, Copy, Clone)]
//@extract struct renetcode/src/server.rs ConnectTokenEntry
//@extract enum renetcode/src/server.rs ServerResult
//@extract struct renetcode/src/server.rs NetcodeServer
//@extract enum renetcode/src/server.rs ServerAuthentication
//@extract struct renetcode/src/server.rs ServerConfig

pub uninterp spec fn challenge_authentic(token_data: [u8; 300], token_sequence: u64, key: [u8; 32], client_id: u64, user_data: [u8; 256]) -> bool;
/// some challenge this key sealed names exactly this client id and user data
pub open spec fn issued_challenge(key: [u8; 32], client_id: u64, user_data: [u8; 256]) -> bool {
    exists|td: [u8; 300], ts: u64| #[trigger] challenge_authentic(td, ts, key, client_id, user_data)
}
/// the datagram is the AEAD sealing of some packet under `key` with nonce `sequence` (what Packet::encode produces)
pub uninterp spec fn sealed_with(datagram: Seq<u8>, key: [u8; 32], sequence: u64) -> bool;

/// C17: a handshake reply (challenge, denied) carries a nonce of the upper half of the sequence space; session packets count from 0,
/// so the two never share a nonce under the server-to-client key they both use
pub open spec fn handshake_nonce(datagram: Seq<u8>) -> bool {
    exists|k: [u8; 32], q: u64| #[trigger] sealed_with(datagram, k, q) && q >= 0x8000_0000_0000_0000
}
/// a handshake reply sealed with exactly the nonce `q`
pub open spec fn handshake_nonce_is(datagram: Seq<u8>, q: u64) -> bool {
    q >= 0x8000_0000_0000_0000 && exists|k: [u8; 32]| #[trigger] sealed_with(datagram, k, q)
}
pub open spec fn session_nonce(datagram: Seq<u8>, q: u64) -> bool {
    q < 0x8000_0000_0000_0000 && exists|k: [u8; 32]| #[trigger] sealed_with(datagram, k, q)
}
pub uninterp spec fn sealed_under(datagram: Seq<u8>, key: [u8; 32]) -> bool;
/// the sequence number a sealed datagram carries in the clear after its prefix byte (its AEAD nonce)
pub uninterp spec fn datagram_sequence(datagram: Seq<u8>) -> u64;
/// the replay window's verdict "already received" (the meaning proved for ReplayProtection::already_received in unit U2)
pub open spec fn rp_received(rp: ReplayProtection, s: u64) -> bool {
    ||| s as int + 256 <= rp.most_recent_sequence as int
    ||| (rp.received_packet@[s as int % 256] != u64::MAX && rp.received_packet@[s as int % 256] >= s)
}
/// the replay window after recording `s` (the effect proved for ReplayProtection::advance_sequence in unit U2)
pub open spec fn rp_advanced(a: ReplayProtection, b: ReplayProtection, s: u64) -> bool {
    &&& b.most_recent_sequence == (if s > a.most_recent_sequence { s } else { a.most_recent_sequence })
    &&& b.received_packet@ == a.received_packet@.update(s as int % 256, s)
}
/// C07: no session's receive timer moved
pub open spec fn timers_same(a: Seq<Option<Connection>>, b: Seq<Option<Connection>>) -> bool {
    a.len() == b.len() && forall|i: int| 0 <= i < a.len() && (#[trigger] a[i]) is Some && b[i] is Some
        ==> b[i]->Some_0.last_packet_received_time == a[i]->Some_0.last_packet_received_time
}
pub uninterp spec fn token_authentic(data: [u8; 1024], protocol_id: u64, expire_timestamp: u64, xnonce: [u8; 24], key: [u8; 32]) -> bool;

pub open spec fn id_connected(clients: Seq<Option<Connection>>, id: u64) -> bool {
    exists|i: int| 0 <= i < clients.len() && (#[trigger] clients[i] matches Some(c) && c.client_id == id)
}
pub open spec fn addr_connected(clients: Seq<Option<Connection>>, addr: SocketAddr) -> bool {
    exists|i: int| 0 <= i < clients.len() && (#[trigger] clients[i] matches Some(c) && c.addr == addr)
}

/// the MAC of a sealed private connect token: its last 16 bytes
pub open spec fn token_mac(data: [u8; 1024]) -> Seq<u8> { data@.subrange(1008, 1024) }

/// some other address already presented this token
pub open spec fn token_used_elsewhere(entries: Seq<Option<ConnectTokenEntry>>, mac: Seq<u8>, addr: SocketAddr) -> bool {
    exists|i: int| 0 <= i < entries.len() && (#[trigger] entries[i] matches Some(e) && e.mac@ == mac && e.address != addr)
}

/// the token table binds each token (MAC) to at most one entry
pub open spec fn mac_unique(t: Seq<Option<ConnectTokenEntry>>) -> bool {
    forall|i: int, j: int| 0 <= i < t.len() && 0 <= j < t.len() && i != j && (#[trigger] t[i]) is Some && (#[trigger] t[j]) is Some
        ==> t[i]->Some_0.mac@ != t[j]->Some_0.mac@
}

/// loop invariant of the scan in find_or_add_connect_token_entry: `m` is an entry with this MAC among the first k, if there is one
pub open spec fn scan_ok(m: Option<&ConnectTokenEntry>, t0: Seq<Option<ConnectTokenEntry>>, k: int, mac: Seq<u8>) -> bool {
    &&& (m matches Some(e) ==> exists|j: int| 0 <= j < k && #[trigger] t0[j] == Some(*e) && e.mac@ == mac)
    &&& (m is None ==> forall|j: int| 0 <= j < k ==> ((#[trigger] t0[j]) matches Some(e) ==> e.mac@ != mac))
}

/// loop invariant of the slot choice in find_or_add_connect_token_entry after k slots: once a free slot was seen the choice is the first free slot;
/// until then every slot seen is occupied, none is older than `min`, and the choice is a slot holding `min` (or slot 0 while `min` is still Duration::MAX)
pub open spec fn slot_pick_ok(t0: Seq<Option<ConnectTokenEntry>>, k: int, oldest: int, min: Duration, empty: bool) -> bool {
    &&& 0 <= oldest < t0.len()
    &&& (empty ==> oldest < k && t0[oldest] is None)
    &&& (!empty ==> {
            &&& forall|j: int| 0 <= j < k ==> (#[trigger] t0[j]) is Some && t0[j]->Some_0.time.nanos >= min.nanos
            &&& ((oldest < k && t0[oldest] is Some && t0[oldest]->Some_0.time.nanos == min.nanos) || (oldest == 0 && min == Duration::MAX))
        })
}

/// C05 ("a token already used from a different address never connects" needs the table to remember tokens): slot `i` may be overwritten only if it is free,
/// or if no slot is free and no remembered token is older than the one in slot `i` (the eviction rule of the 2048-entry table)
pub open spec fn evictable(t0: Seq<Option<ConnectTokenEntry>>, i: int) -> bool {
    &&& 0 <= i < t0.len()
    &&& (t0[i] is None || {
            &&& forall|j: int| 0 <= j < t0.len() ==> (#[trigger] t0[j]) is Some
            &&& forall|j: int| 0 <= j < t0.len() ==> (#[trigger] t0[j])->Some_0.time.nanos >= t0[i]->Some_0.time.nanos || t0[j]->Some_0.time.nanos >= Duration::MAX.nanos
        })
}

/// C10: the connected clients have pairwise distinct client ids and pairwise distinct addresses
pub open spec fn table_unique(t: Seq<Option<Connection>>) -> bool {
    forall|i: int, j: int| 0 <= i < t.len() && 0 <= j < t.len() && i != j && (#[trigger] t[i]) is Some && (#[trigger] t[j]) is Some
        ==> t[i]->Some_0.client_id != t[j]->Some_0.client_id && t[i]->Some_0.addr != t[j]->Some_0.addr
}

/// slot i holds (id, addr)
pub open spec fn slot_is(t: Seq<Option<Connection>>, i: int, id: u64, addr: SocketAddr) -> bool {
    0 <= i < t.len() && (t[i] matches Some(c) && c.client_id == id && c.addr == addr)
}

/// the same sessions sit in the same slots (per-session bookkeeping such as timers and the replay window may differ)
pub open spec fn same_sessions(a: Seq<Option<Connection>>, b: Seq<Option<Connection>>) -> bool {
    &&& a.len() == b.len()
    &&& forall|i: int| 0 <= i < a.len() ==> ((#[trigger] a[i]) is Some <==> (#[trigger] b[i]) is Some)
    &&& forall|i: int| 0 <= i < a.len() && (#[trigger] a[i]) is Some ==> a[i]->Some_0.client_id == b[i]->Some_0.client_id && a[i]->Some_0.addr == b[i]->Some_0.addr
            && a[i]->Some_0.send_key == b[i]->Some_0.send_key && a[i]->Some_0.receive_key == b[i]->Some_0.receive_key
}

/// same sessions except slot k
pub open spec fn same_sessions_but(a: Seq<Option<Connection>>, b: Seq<Option<Connection>>, k: int) -> bool {
    &&& a.len() == b.len()
    &&& forall|i: int| 0 <= i < a.len() && i != k ==> ((#[trigger] a[i]) is Some <==> (#[trigger] b[i]) is Some)
    &&& forall|i: int| 0 <= i < a.len() && i != k && (#[trigger] a[i]) is Some ==> a[i]->Some_0.client_id == b[i]->Some_0.client_id && a[i]->Some_0.addr == b[i]->Some_0.addr
}

impl NetcodeServer {
    /// invariant of the server between public calls
    pub open spec fn server_wf(&self) -> bool {
        &&& mac_unique(self.connect_token_entries@)
        &&& table_unique(self.clients@)
        // C17: handshake replies are numbered in the upper half of the sequence space
        &&& self.global_sequence >= 0x8000_0000_0000_0000
        // a half-open session is filed under the address it came from
        &&& forall|a: SocketAddr| #[trigger] self.pending_clients@.contains_key(a) ==> self.pending_clients@[a].addr == a
    }

    /// history assumptions (not an invariant a call could establish): representable clock, sequence counters that have not wrapped
    pub open spec fn counters_ok(&self) -> bool {
        &&& self.current_time.nanos / 1_000_000_000 <= u64::MAX
        &&& self.global_sequence < u64::MAX && self.challenge_sequence < u64::MAX
        &&& forall|a: SocketAddr| #[trigger] self.pending_clients@.contains_key(a) ==> self.pending_clients@[a].sequence < 0x8000_0000_0000_0000
        &&& forall|i: int| 0 <= i < self.clients@.len() ==> ((#[trigger] self.clients@[i]) matches Some(c) ==> c.sequence < 0x8000_0000_0000_0000
                && c.last_packet_received_time.nanos <= 0xFFFF_FFFF_FFFF_FFFF * 1_000_000_000 && c.last_packet_send_time.nanos <= 0xFFFF_FFFF_FFFF_FFFF * 1_000_000_000)
    }
}

pub mod addr_map_lemmas {
use vstd::prelude::*;
use std::net::SocketAddr;
verus! {
/// two maps with the same domain that agree once key `id` is dropped agree on every other key (frame of HashMap::get_mut)
pub broadcast proof fn lemma_same_but_one_addr<V>(a: Map<SocketAddr, V>, b: Map<SocketAddr, V>, m2: Map<SocketAddr, V>, id: SocketAddr)
    requires
        #[trigger] vstd::std_specs::hash::borrowed_key_removed(a, m2, &id),
        #[trigger] vstd::std_specs::hash::borrowed_key_removed(b, m2, &id),
        a.dom() == b.dom(),
    ensures
        forall|j: SocketAddr| j != id && #[trigger] a.contains_key(j) ==> b[j] == a[j],
{
    assert forall|j: SocketAddr| j != id && #[trigger] a.contains_key(j) implies b[j] == a[j] by {
        assert(a.remove(id)[j] == a[j]);
        assert(b.remove(id)[j] == b[j]);
    }
}
}
}

/// number of occupied slots
pub open spec fn occupied(clients: Seq<Option<Connection>>) -> nat
    decreases clients.len(),
{
    if clients.len() == 0 { 0 } else { occupied(clients.drop_last()) + (if clients.last() is Some { 1nat } else { 0nat }) }
}

/// rule D19 -- ASSUMED: `connect_token.server_addresses.iter().filter_map(|host| *host).any(|addr| self.public_addresses.contains(&addr))`
#[verifier::external_body]
pub fn host_in_list_unverified(server_addresses: &[Option<SocketAddr>; 32], public_addresses: &Vec<SocketAddr>) -> (r: bool)
    ensures r == (exists|i: int, j: int| 0 <= i < 32 && 0 <= j < public_addresses@.len() && #[trigger] server_addresses@[i] == Some(#[trigger] public_addresses@[j])),
{ unimplemented!() }

/// rule D19 -- ASSUMED: `self.clients.iter().flatten().count()`
#[verifier::external_body]
pub fn connected_count_unverified(clients: &Box<[Option<Connection>]>) -> (r: usize)
    ensures r == occupied(clients@),
{ unimplemented!() }

impl PrivateConnectToken {
//@stub renetcode/src/token.rs PrivateConnectToken::decode
//@ret r
//@specfile contracts/shared/PrivateConnectToken.decode.spec
//@endfn
}
impl<'a> Packet<'a> {
//@stub renetcode/src/packet.rs Packet::decode
//@ret r
//@spec
        // ASSUMED here, proved by the Kani harness decode_hostile_datagram of U11: without a key only a connection request can come out;
        // a packet other than a request comes out only if the AEAD accepted the datagram under the given key (`sealed_under`, uninterpreted)
        ensures
            private_key is None ==> (r matches Ok(sp) ==> sp.1 is ConnectionRequest),
            r matches Ok(sp) ==> (!(sp.1 is ConnectionRequest) ==> private_key is Some && sealed_under(old(buffer)@, *private_key->Some_0)),
            // ASSUMED here, proved by the same harness (window asked before the AEAD, advanced only after it accepted, with the decoded sequence; replay
            // protection applies to exactly KeepAlive / Payload / Disconnect): such a packet comes out only if the window given did not hold its sequence
            // number, and the window records it; for the other kinds the window is not touched
            r matches Ok(sp) ==> (sp.1 is Payload || sp.1 is KeepAlive || sp.1 is Disconnect ==> sp.0 == datagram_sequence(old(buffer)@)
                && (replay_protection matches Some(rp) ==> !rp_received(*rp, sp.0) && rp_advanced(*rp, *final(rp), sp.0))),
            r matches Ok(sp) ==> (!(sp.1 is Payload || sp.1 is KeepAlive || sp.1 is Disconnect) ==> (replay_protection matches Some(rp) ==> *final(rp) == *rp)),
//@endfn
//@stub renetcode/src/packet.rs Packet::encode
//@ret r
//@spec
        // ASSUMED here, proved by the Kani harnesses encode_len_* of U11: a sealed packet is 1 + n + body + 16 bytes long (n <= 8 sequence bytes)
        ensures
            final(buffer)@.len() == old(buffer)@.len(),
            r matches Ok(len) ==> len <= old(buffer)@.len()
                && (*self is ConnectionDenied ==> len <= 25) && (*self is Challenge ==> len <= 333) && (*self is KeepAlive ==> len <= 33),
            // what it writes is sealed under the given key with the given sequence number as nonce (U11: sealed exactly once, with that pair)
            r matches Ok(len) ==> (crypto_info matches Some(ci) ==> sealed_with(final(buffer)@.subrange(0, len as int), *ci.1, ci.0)),
//@endfn
//@stub renetcode/src/packet.rs Packet::generate_challenge
//@ret r
//@spec
        ensures r matches Ok(p) ==> (p matches Packet::Challenge { token_sequence, token_data } && token_sequence == challenge_sequence),
//@endfn
}
impl ChallengeToken {
//@stub renetcode/src/packet.rs ChallengeToken::decode
//@ret r
//@spec
        // ASSUMED (cryptography): opening a sealed challenge token succeeds only for a token this key sealed (`challenge_authentic`, uninterpreted)
        ensures r matches Ok(t) ==> challenge_authentic(token_data, token_sequence, *challenge_key, t.client_id, t.user_data),
//@endfn
}
impl ReplayProtection {
//@stub renetcode/src/replay_protection.rs ReplayProtection::new
//@ret r
//@endfn
}
// ASSUMED (one-line iterator chains `iter_mut().flatten().find(..)` / `iter_mut().enumerate().find_map(..)`): found iff some slot holds it; the table is not changed by looking
//@stub renetcode/src/server.rs ::find_client_mut_by_id
//@ret r
//@spec
        ensures
            r is Some <==> id_connected(old(clients)@, client_id),
            r is None ==> final(clients)@ == old(clients)@,
            r matches Some(c) ==> exists|i: int| 0 <= i < old(clients)@.len() && #[trigger] old(clients)@[i] == Some(*c) && c.client_id == client_id
                && final(clients)@ == old(clients)@.update(i, Some(*final(c))),
//@endfn
//@stub renetcode/src/server.rs ::find_client_by_id
//@ret r
//@spec
        ensures
            r is Some <==> id_connected(clients@, client_id),
            r matches Some(c) ==> c.client_id == client_id && exists|i: int| 0 <= i < clients@.len() && #[trigger] clients@[i] == Some(*c),
//@endfn
//@stub renetcode/src/server.rs ::find_client_slot_by_id
//@ret r
//@spec
        ensures
            r is Some <==> id_connected(clients@, client_id),
            r matches Some(i) ==> i < clients@.len() && (clients@[i as int] matches Some(c) && c.client_id == client_id),
//@endfn
/// rule D19 -- ASSUMED: `self.clients.iter().position(|c| c.is_none())`
#[verifier::external_body]
pub fn first_free_slot_unverified(clients: &Box<[Option<Connection>]>) -> (r: Option<usize>)
    ensures
        r matches Some(i) ==> i < clients@.len() && clients@[i as int] is None,
        r is None ==> forall|i: int| 0 <= i < clients@.len() ==> (#[trigger] clients@[i]) is Some,
{ unimplemented!() }
//@stub renetcode/src/server.rs ::find_client_mut_by_addr
//@ret r
//@spec
        ensures
            r is Some <==> addr_connected(old(clients)@, addr),
            r is None ==> final(clients)@ == old(clients)@,
            r matches Some(sc) ==> 0 <= sc.0 < old(clients)@.len() && old(clients)@[sc.0 as int] == Some(*sc.1) && sc.1.addr == addr
                && final(clients)@ == old(clients)@.update(sc.0 as int, Some(*final(sc.1))),
//@endfn

// ASSUMED: OS randomness (any 32 bytes)
//@stub renetcode/src/crypto.rs ::generate_random_bytes
//@ret r
//@endfn

/// effect of the body of the first loop of NetcodeServer::update on one half-open session at clock `now`
pub open spec fn expiry_marked(pre: Connection, post: Connection, now: Duration) -> bool {
    &&& post == (Connection { state: post.state, ..pre })
    &&& (now.nanos / 1_000_000_000 > pre.expire_timestamp ==> post.state is Disconnected)
    &&& (now.nanos / 1_000_000_000 <= pre.expire_timestamp ==> post.state == pre.state)
}

// the loop body, outlined (rule D6) and proved here
//@outline renetcode/src/server.rs NetcodeServer::update loop=1 name=update_pending_loop_body
//@params client: &mut Connection
//@capture val current_time: Duration = self.current_time
//@spec
    requires current_time.nanos / 1_000_000_000 <= u64::MAX,
    ensures expiry_marked(*old(client), *final(client), current_time),       // @C18 update.half_open_session_marked_exactly_when_its_token_expired
//@endfn

/// rule D18 -- ASSUMED: `for client in self.pending_clients.values_mut() { BODY }` as a whole: BODY (proved above) applied to every value once
#[verifier::external_body]
pub fn update_pending_summary(pending: &mut HashMap<SocketAddr, Connection>, current_time: Duration)
    requires current_time.nanos / 1_000_000_000 <= u64::MAX,
    ensures
        final(pending)@.dom() == old(pending)@.dom(),
        forall|a: SocketAddr| #[trigger] old(pending)@.contains_key(a) ==> expiry_marked(old(pending)@[a], final(pending)@[a], current_time),
{ unimplemented!() }

/// rule D19 -- ASSUMED: `self.pending_clients.retain(|_, c| c.state != ConnectionState::Disconnected)` (std: keeps exactly the entries for which the closure holds)
#[verifier::external_body]
pub fn retain_not_disconnected_unverified(pending: &mut HashMap<SocketAddr, Connection>)
    ensures
        forall|a: SocketAddr| #[trigger] final(pending)@.contains_key(a) <==> old(pending)@.contains_key(a) && !(old(pending)@[a].state is Disconnected),
        forall|a: SocketAddr| #[trigger] final(pending)@.contains_key(a) ==> final(pending)@[a] == old(pending)@[a],
{ unimplemented!() }

impl NetcodeServer {
//@fn renetcode/src/server.rs NetcodeServer::update
//@summarize 1 => update_pending_summary(&mut self.pending_clients, self.current_time);
//@cut /self\.pending_clients\.retain\(/ .. /self\.pending_clients\.retain\(/ => retain_not_disconnected_unverified(&mut self.pending_clients);
//@spec
        requires
            old(self).server_wf(),
            old(self).current_time.nanos + duration.nanos <= 0xFFFF_FFFF_FFFF_FFFF * 1_000_000_000,     // history assumption: the clock stays representable
        ensures
            final(self).server_wf(),                                                                                          // @C10 update.server_invariant_kept
            final(self).current_time.nanos == old(self).current_time.nanos + duration.nanos,                                  // @C18 update.clock_advances_by_the_tick
            final(self).clients@ == old(self).clients@,                                                                       // @C10 update.connected_clients_untouched
            // C18: a half-open session is dropped exactly when its connect token has expired (or it was already marked disconnected); the others stay as they were
            forall|a: SocketAddr| #[trigger] final(self).pending_clients@.contains_key(a) ==> old(self).pending_clients@.contains_key(a)
                && final(self).pending_clients@[a] == old(self).pending_clients@[a]
                && final(self).current_time.nanos / 1_000_000_000 <= old(self).pending_clients@[a].expire_timestamp,           // @C18 update.surviving_half_open_sessions_are_unexpired_and_unchanged
            forall|a: SocketAddr| #[trigger] old(self).pending_clients@.contains_key(a) && !(old(self).pending_clients@[a].state is Disconnected)
                && final(self).current_time.nanos / 1_000_000_000 <= old(self).pending_clients@[a].expire_timestamp
                ==> final(self).pending_clients@.contains_key(a),                                                              // @C18 update.unexpired_half_open_sessions_are_kept
//@endfn

//@fn renetcode/src/server.rs NetcodeServer::new
//@ret r
//@spec
        requires config.max_clients <= 1024,       // documented panic otherwise
        ensures
            r.server_wf(),                                                                 // @C10,C17 new.server_invariant_established
            r.global_sequence == 0x8000_0000_0000_0000 && r.challenge_sequence == 0,       // @C17 new.handshake_counter_starts_in_the_upper_half
            r.clients@.len() == config.max_clients && forall|i: int| 0 <= i < r.clients@.len() ==> (#[trigger] r.clients@[i]) is None,   // @C10 new.no_client_connected
            r.pending_clients@ == Map::<SocketAddr, Connection>::empty(),                 // @C10 new.no_half_open_session
            r.max_clients == config.max_clients && r.protocol_id == config.protocol_id && r.current_time == config.current_time,   // @C10 new.configuration_kept
//@entry
        proof { assert(1u64 << 63 == 0x8000_0000_0000_0000u64) by (bit_vector); }
//@endfn
//@fn renetcode/src/server.rs NetcodeServer::find_or_add_connect_token_entry
//@ret r
//@attr #[verifier::loop_isolation(false)]
//@specfile contracts/shared/NetcodeServer.find_or_add_connect_token_entry.spec
//@entry
        let ghost t0 = self.connect_token_entries@;
//@loop 1
            invariant
                *self == *old(self),
                oldest_entry < 2048,
                t0.len() == 2048,
                scan_ok(matching_entry, t0, i as int, new_entry.mac@),
                slot_pick_ok(t0, i as int, oldest_entry as int, min, empty_entry),   // @C05,C19 token_entry.slot_choice_prefers_a_free_slot_then_the_oldest_entry
//@after /Some\(e\) => \{/
                    let ghost m_before = matching_entry;
                    proof { assert(*entry == t0[i as int]); assert(t0[i as int] == Some(*e)); }
//@after /matching_entry = Some\(e\);/
                        proof {
                            assert(e.mac@ =~= new_entry.mac@);
                            assert(matching_entry == Some(e));
                            assert(t0[i as int] == Some(*e) && 0 <= i < i + 1);
                            assert(scan_ok(matching_entry, t0, i + 1, new_entry.mac@));
                        }
//@loopend 1
            proof {
                assert(*entry == t0[i as int]);
                assert(scan_ok(matching_entry, t0, i + 1, new_entry.mac@));
            }
//@before /^\s+true$/
        proof {
            assert(self.connect_token_entries@[oldest_entry as int] == Some(new_entry));
            assert(slot_pick_ok(t0, 2048, oldest_entry as int, min, empty_entry));
            assert(evictable(t0, oldest_entry as int));
            assert(self.connect_token_entries@ =~= t0.update(oldest_entry as int, Some(new_entry)));
            assert(forall|j: int| 0 <= j < 2048 ==> ((#[trigger] t0[j]) matches Some(e) ==> e.mac@ != new_entry.mac@));
        }
//@endfn
//@fn renetcode/src/server.rs NetcodeServer::handle_connection_request
//@ret r
//@specfile contracts/shared/NetcodeServer.handle_connection_request.spec
//@closure 1 -> (c: Connection) ensures c.addr == addr && c.sequence == 0 && c.client_id == connect_token.client_id
//@cut /let in_host_list = connect_token$/ .. /\.any\(\|addr\| self\.public_addresses\.contains\(&addr\)\);/ => let in_host_list = host_in_list_unverified(&connect_token.server_addresses, &self.public_addresses);
//@cut /if self\.clients\.iter\(\)\.flatten\(\)\.count\(\) >= self\.max_clients \{/ .. /if self\.clients\.iter\(\)\.flatten\(\)\.count\(\) >= self\.max_clients \{/ => if connected_count_unverified(&self.clients) >= self.max_clients {
//@endfn

//@fn renetcode/src/server.rs NetcodeServer::user_data
//@ret r
//@spec
        requires self.server_wf(),
        ensures
            r is Some <==> id_connected(self.clients@, client_id),                                                             // @C10 user_data.some_iff_connected
            // with pairwise distinct ids there is one session under that id: the answer is that session's user data
            r matches Some(ud) ==> forall|i: int| 0 <= i < self.clients@.len() && (#[trigger] self.clients@[i] matches Some(c) && c.client_id == client_id)
                ==> self.clients@[i]->Some_0.user_data == ud,                                                                  // @C10 user_data.of_the_session_registered_under_that_id
//@endfn

//@fn renetcode/src/server.rs NetcodeServer::client_addr
//@ret r
//@spec
        requires self.server_wf(),
        ensures
            r is Some <==> id_connected(self.clients@, client_id),                                                             // @C10 client_addr.some_iff_connected
            r matches Some(a) ==> forall|i: int| 0 <= i < self.clients@.len() && (#[trigger] self.clients@[i] matches Some(c) && c.client_id == client_id)
                ==> self.clients@[i]->Some_0.addr == a,                                                                        // @C10 client_addr.of_the_session_registered_under_that_id
//@endfn

//@fn renetcode/src/server.rs NetcodeServer::is_client_connected
//@ret r
//@spec
        ensures r == id_connected(self.clients@, client_id),                                                                   // @C10 is_client_connected.exact
//@endfn

//@fn renetcode/src/server.rs NetcodeServer::set_max_clients
//@spec
        requires old(self).server_wf(),
        ensures
            final(self).server_wf(),                                                                                           // @C10 set_max_clients.invariant_kept
            *final(self) == (NetcodeServer { max_clients: final(self).max_clients, ..*old(self) }),                            // @C10 set_max_clients.only_the_limit_changes
            final(self).max_clients <= 1024 && final(self).max_clients <= max_clients,                                         // @C10 set_max_clients.capped
//@endfn

//@fn renetcode/src/server.rs NetcodeServer::process_packet
//@ret r
//@spec
        requires old(self).server_wf(), old(self).counters_ok(),
        ensures
            final(self).server_wf(),                                                                                          // @C10 process_packet.public_entry_keeps_the_invariant
            // C19: an error inside never produces a datagram; whatever is sent goes to the sender, and a reply to an address without a session is a
            // handshake reply (upper nonce half, at most 333 bytes by the request contract)
            r matches ServerResult::PacketToSend { addr: to, payload } ==> to == addr && handshake_nonce(payload@),            // @C17,C19 process_packet.public_entry_replies_only_to_the_sender
            // C10: the table changes only by the reported event
            r matches ServerResult::ClientConnected { client_id, addr: a, user_data, payload } ==> a == addr
                && !id_connected(old(self).clients@, client_id) && !addr_connected(old(self).clients@, addr)
                && issued_challenge(old(self).challenge_key, client_id, *user_data),                                          // @C05,C10 process_packet.public_entry_connects_only_new_authenticated_sessions
            !(r is ClientConnected) && !(r is ClientDisconnected) ==> same_sessions(old(self).clients@, final(self).clients@),   // @C10 process_packet.public_entry_no_event_no_change
//@endfn

//@fn renetcode/src/server.rs NetcodeServer::generate_payload_packet
//@ret r
//@spec
        requires old(self).server_wf(), old(self).counters_ok(),
        ensures
            final(self).server_wf(),                                                                           // @C10 payload_packet.server_invariant_kept
            same_sessions(old(self).clients@, final(self).clients@),                                           // @C10 payload_packet.sessions_untouched
            // the packet goes to the address of the session registered under that id, sealed with that session's counter, which then advances
            r matches Ok(ap) ==> exists|k: int| #![trigger old(self).clients@[k]] slot_is(old(self).clients@, k, client_id, ap.0)
                && session_nonce(ap.1@, old(self).clients@[k]->Some_0.sequence)
                && final(self).clients@[k]->Some_0.sequence == old(self).clients@[k]->Some_0.sequence + 1,     // @C10,C17 payload_packet.sealed_for_that_session_with_a_fresh_nonce
            r matches Ok(ap) ==> ap.1@.len() <= 1400,                                                          // @C13 payload_packet.fits_the_datagram_buffer
            r is Err ==> final(self).clients@ == old(self).clients@,                                           // @C10 payload_packet.error_changes_nothing
//@entry
        let ghost s0 = *self;
//@endfn

//@fn renetcode/src/server.rs NetcodeServer::update_client
//@ret r
//@spec
        requires old(self).server_wf(), old(self).counters_ok(),
        ensures
            final(self).server_wf(),                                                                           // @C10 update_client.server_invariant_kept
            r is None || r is PacketToSend || r is ClientDisconnected,                                         // @C10 update_client.result_kinds
            // C10/C18: a session is dropped here only when it was marked disconnected or nothing arrived for more than its timeout
            r matches ServerResult::ClientDisconnected { client_id: id, addr, payload } ==> id == client_id
                && exists|k: int| #![trigger final(self).clients@[k]] slot_is(old(self).clients@, k, client_id, addr) && final(self).clients@[k] is None
                    && same_sessions_but(old(self).clients@, final(self).clients@, k)
                    && (old(self).clients@[k]->Some_0.state is Disconnected
                        || (old(self).clients@[k]->Some_0.timeout_seconds > 0 && old(self).clients@[k]->Some_0.last_packet_received_time.nanos
                            + old(self).clients@[k]->Some_0.timeout_seconds * 1_000_000_000 < old(self).current_time.nanos))
                    && (payload matches Some(p) ==> session_nonce(p@, old(self).clients@[k]->Some_0.sequence)),  // @C10,C17,C18 update_client.drops_only_a_timed_out_or_disconnected_session
            !(r is ClientDisconnected) ==> same_sessions(old(self).clients@, final(self).clients@),             // @C10 update_client.otherwise_sessions_untouched
            r matches ServerResult::PacketToSend { addr, payload } ==> exists|k: int| #![trigger old(self).clients@[k]] slot_is(old(self).clients@, k, client_id, addr)
                && session_nonce(payload@, old(self).clients@[k]->Some_0.sequence)
                // C17: the counter value a keep-alive was sealed with is consumed: the next packet of the session gets a fresh nonce
                && final(self).clients@[k] is Some && final(self).clients@[k]->Some_0.sequence == old(self).clients@[k]->Some_0.sequence + 1,   // @C17,C19 update_client.keep_alive_goes_to_that_session_and_consumes_its_nonce
//@entry
        let ghost s0 = *self;
//@before /return ServerResult::ClientDisconnected \{/ 1
                        proof {
                            let k = slot as int;
                            assert(slot_is(s0.clients@, k, client_id, addr));
                            assert(self.clients@[k] is None);
                            assert(same_sessions_but(s0.clients@, self.clients@, k));
                        }
//@before /return ServerResult::ClientDisconnected \{/ 2
                proof {
                    let k = slot as int;
                    assert(slot_is(s0.clients@, k, client_id, addr));
                    assert(self.clients@[k] is None);
                    assert(same_sessions_but(s0.clients@, self.clients@, k));
                }
//@before /return ServerResult::PacketToSend \{/
                proof {
                    let k = slot as int;
                    assert(slot_is(s0.clients@, k, client_id, client.addr));
                }
//@endfn

//@fn renetcode/src/server.rs NetcodeServer::disconnect
//@ret r
//@spec
        requires old(self).server_wf(), old(self).counters_ok(),
        ensures
            final(self).server_wf(),                                                                           // @C10 disconnect.server_invariant_kept
            r is None || r is ClientDisconnected,                                                              // @C10 disconnect.result_kinds
            r is None ==> !id_connected(old(self).clients@, client_id) && final(self).clients@ == old(self).clients@,   // @C10 disconnect.unknown_id_changes_nothing
            r matches ServerResult::ClientDisconnected { client_id: id, addr, payload } ==> id == client_id
                && exists|k: int| #![trigger final(self).clients@[k]] slot_is(old(self).clients@, k, client_id, addr) && final(self).clients@[k] is None
                    && same_sessions_but(old(self).clients@, final(self).clients@, k)
                    && (payload matches Some(p) ==> session_nonce(p@, old(self).clients@[k]->Some_0.sequence)),  // @C10,C17 disconnect.removes_exactly_that_session
//@entry
        let ghost s0 = *self;
//@before /return ServerResult::ClientDisconnected \{/ 1
                    proof {
                        let k = slot as int;
                        assert(slot_is(s0.clients@, k, client_id, client.addr));
                        assert(self.clients@[k] is None);
                        assert(same_sessions_but(s0.clients@, self.clients@, k));
                    }
//@before /return ServerResult::ClientDisconnected \{/ 2
            proof {
                let k = slot as int;
                assert(slot_is(s0.clients@, k, client_id, client.addr));
                assert(self.clients@[k] is None);
                assert(same_sessions_but(s0.clients@, self.clients@, k));
            }
//@endfn

//@fn renetcode/src/server.rs NetcodeServer::process_packet_internal
//@ret r
//@specfile contracts/shared/NetcodeServer.process_packet_internal.spec
//@attr #[verifier::loop_isolation(false)]
//@entry
        let ghost s0 = *self;
        proof { broadcast use addr_map_lemmas::lemma_same_but_one_addr; }
//@before /return Ok\(ServerResult::ClientDisconnected \{/
                        proof {
                            let k = slot as int;
                            assert(slot_is(s0.clients@, k, client_id, addr));
                            assert(self.clients@[k] is None);
                            assert(same_sessions_but(s0.clients@, self.clients@, k));
                        }
//@after /if let Some\(pending\) = self\.pending_clients\.get_mut\(&addr\) \{/
            proof {
                assert(vstd::std_specs::hash::borrowed_key_removed(s0.pending_clients@, s0.pending_clients@.remove(addr), &addr));
                assert(*pending == s0.pending_clients@[addr]);
            }
//@before /return Ok\(ServerResult::ClientConnected \{/
                            proof {
                                let k = client_index as int;
                                assert(s0.clients@[k] is None);
                                assert(slot_is(self.clients@, k, client_id, addr));
                                assert(same_sessions_but(s0.clients@, self.clients@, k));
                                assert(challenge_authentic(token_data, token_sequence, s0.challenge_key, client_id, user_data));   // @C05 process_packet.the_echoed_challenge_was_sealed_for_the_reported_id_and_user_data
                                assert(issued_challenge(s0.challenge_key, client_id, user_data));
                                assert(s0.pending_clients@.contains_key(addr));
                                assert(s0.pending_clients@[addr].client_id == client_id);
                            }
//@before /let packet = Packet::ConnectionDenied;/ last
                            proof {
                                assert(challenge_authentic(token_data, token_sequence, s0.challenge_key, challenge_token.client_id, challenge_token.user_data));
                                assert(issued_challenge(s0.challenge_key, s0.pending_clients@[addr].client_id, challenge_token.user_data));
                            }
//@cut /match self\.clients\.iter\(\)\.position\(\|c\| c\.is_none\(\)\) \{/ .. /match self\.clients\.iter\(\)\.position\(\|c\| c\.is_none\(\)\) \{/ => match first_free_slot_unverified(&self.clients) {
//@endfn
}

} // verus!
fn main() {}
