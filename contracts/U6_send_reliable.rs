//@unit U6 props=C01,C02,C03,C08,C09,C15 SendChannelReliable bookkeeping (renet/src/channel/reliable.rs)
#![feature(allocator_api)]
#![allow(unused_imports, dead_code, unused_variables, unused_mut)]
use vstd::prelude::*;
use std::collections::{btree_map, BTreeMap, BTreeSet, HashMap};
verus! {

global size_of usize == 8;

//@include shims/bytes.rs
//@include shims/duration.rs
//@include shims/std_maps.rs
//@include shims/div_ceil.rs

//@extract const renet/src/packet.rs SLICE_SIZE

#[derive(Clone, Copy, Debug, PartialEq, Eq)]
//@extract enum renet/src/error.rs ChannelError

//@extract enum renet/src/channel/reliable.rs UnackedMessage
//@extract struct renet/src/channel/reliable.rs SendChannelReliable

//@include contracts/shared/sum_specs.rs
//@include contracts/shared/count_specs.rs
//@include contracts/shared/unacked_specs.rs
//@include contracts/shared/send_reliable_specs.rs

broadcast use {count_lemmas::lemma_count_true_all_false};

impl UnackedMessage {
//@fn renet/src/channel/reliable.rs UnackedMessage::new_sliced
//@ret r
//@specfile contracts/shared/UnackedMessage.new_sliced.spec
//@endfn
}

impl SendChannelReliable {
//@fn renet/src/channel/reliable.rs SendChannelReliable::new
//@ret r
//@specfile contracts/shared/SendChannelReliable.new.spec
//@endfn

//@fn renet/src/channel/reliable.rs SendChannelReliable::available_memory
//@ret r
//@specfile contracts/shared/SendChannelReliable.available_memory.spec
//@endfn

//@fn renet/src/channel/reliable.rs SendChannelReliable::can_send_message
//@ret r
//@specfile contracts/shared/SendChannelReliable.can_send_message.spec
//@endfn

//@fn renet/src/channel/reliable.rs SendChannelReliable::send_message
//@ret r
//@specfile contracts/shared/SendChannelReliable.send_message.spec
//@entry
        proof { broadcast use send_rel_lemmas::lemma_send_accounted_ext; }
//@before /^        Ok\(\(\)\)$/
        proof {
            let id = old(self).next_reliable_message_id;
            Self::lemma_acc_insert(old(self).unacked_messages@, id, self.unacked_messages@[id]);
            assert(self.unacked_messages@ =~= old(self).unacked_messages@.insert(id, self.unacked_messages@[id]));
        }
//@endfn

//@fn renet/src/channel/reliable.rs SendChannelReliable::process_message_ack
//@specfile contracts/shared/SendChannelReliable.process_message_ack.spec
//@entry
        proof { broadcast use send_rel_lemmas::lemma_send_accounted_ext; }
//@after /let unacked_message = self\.unacked_messages\.remove\(&message_id\)\.unwrap\(\);/
            proof { Self::lemma_acc_remove(old(self).unacked_messages@, message_id); }
//@endfn

//@fn renet/src/channel/reliable.rs SendChannelReliable::process_slice_message_ack
//@specfile contracts/shared/SendChannelReliable.process_slice_message_ack.spec
//@entry
        proof { broadcast use send_rel_lemmas::lemma_send_accounted_ext; }
//@beforeopt /return;/ 2
            proof {
                assert(old(self).unacked_messages@.insert(message_id, old(self).unacked_messages@[message_id]) =~= old(self).unacked_messages@);
            }
//@after /\*num_acked_slices \+= 1;/
        proof {
            lemma_count_true_set(old(self).unacked_messages@[message_id]->Sliced_acked@, slice_index as int);
            lemma_count_true_bounds(old(self).unacked_messages@[message_id]->Sliced_acked@.update(slice_index as int, true));
            Self::lemma_acc_remove(old(self).unacked_messages@, message_id);
        }
//@end
        proof {
            let o = old(self).unacked_messages@;
            if self.unacked_messages@.contains_key(message_id) {
                let u = self.unacked_messages@[message_id];
                assert(self.unacked_messages@ =~= o.insert(message_id, u));
                Self::lemma_acc_update(o, message_id, u);
            } else {
                assert(self.unacked_messages@ =~= o.remove(message_id));
            }
        }
//@endfn
}

} // verus!
fn main() {}
