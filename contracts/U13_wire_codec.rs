//@unit U13 props=C06,C13,C16 rlimit=80 renet wire codec Packet::{from_bytes, to_bytes, sequence} (renet/src/packet.rs)
#![feature(allocator_api)]
#![allow(unused_imports, dead_code, unused_variables, unused_mut)]
use vstd::prelude::*;
use std::ops::Range;
verus! {

global size_of usize == 8;

//@include shims/bytes.rs
//@include shims/octets.rs

pub assume_specification<T>[<[T]>::reverse](s: &mut [T])
    ensures final(s)@ == old(s)@.reverse();

broadcast use {octets::axiom_varint_enc_len, octets::axiom_varint_roundtrip, octets::axiom_varint_dec_range};

//@extract const renet/src/packet.rs SLICE_SIZE
//@extract struct renet/src/packet.rs Slice
//@extract enum renet/src/packet.rs Packet
#[derive(Debug, Clone, Copy, PartialEq, Eq)]
//@extract enum renet/src/packet.rs SerializationError

impl vstd::std_specs::convert::FromSpecImpl<octets::BufferTooShortError> for SerializationError {
    open spec fn obeys_from_spec() -> bool { true }
    open spec fn from_spec(v: octets::BufferTooShortError) -> SerializationError { SerializationError::BufferTooShort }
}

impl From<octets::BufferTooShortError> for SerializationError {
//@fn renet/src/packet.rs SerializationError::from trait=From
//@ret r
//@spec
        ensures r == SerializationError::BufferTooShort,     // @C06 from_buffer_too_short.maps_to_serialization_error
//@endfn
}

//@include contracts/shared/packet_bytes_specs.rs
//@include contracts/shared/packet_specs.rs
//@include contracts/shared/slice_specs.rs
//@include contracts/shared/wire_specs.rs

/// rule D8: the `Packet::Ack` arm of to_bytes uses `iter().rev()` (not in Verus' subset); nothing is concluded about it
#[verifier::external_body]
pub fn to_bytes_ack_arm_unverified(p: &Packet, b: &mut octets::OctetsMut) -> (r: Result<usize, SerializationError>)
{ unimplemented!() }

impl Packet {
//@fn renet/src/packet.rs Packet::sequence
//@ret r
//@spec
        ensures r == packet_seq(*self),            // @C08,C16 sequence.is_the_packet_sequence
//@endfn

//@fn renet/src/packet.rs Packet::to_bytes
//@ret r
//@safety C13
//@attr #[verifier::loop_isolation(false)]
//@replacearm /Packet::Ack \{ sequence, ack_ranges \} => \{/ => return to_bytes_ack_arm_unverified(self, b);
//@spec
        requires
            packet_encodable(*self),
        ensures
            !(*self is Ack) ==> {
                // serialization fails only if the buffer is shorter than the packet's wire length, and writes exactly that many bytes
                &&& (r is Ok <==> old(b).cap_spec() >= wire_len(*self))                                   // @C13 to_bytes.fails_only_when_buffer_too_short
                &&& (r matches Ok(n) ==> n == wire_len(*self) && final(b).cap_spec() + n == old(b).cap_spec())     // @C13,C16 to_bytes.writes_exactly_wire_len
                // (that the error value is BufferTooShort is not stated: this Verus version leaves the `?` From-conversion unspecified)
            },
//@entry
        let ghost cap0 = b.cap_spec();
        proof {
            if *self is SmallReliable { lemma_reliable_body_take(self->SmallReliable_messages@); }
            if *self is SmallUnreliable { lemma_unreliable_body_take(self->SmallUnreliable_messages@); }
        }
//@loop 1 iter=it1
                    invariant
                        it1.seq().len() == messages@.len(),
                        forall|i: int| 0 <= i < messages@.len() ==> *(#[trigger] it1.seq()[i]) == messages@[i],
                        b.cap_spec() + 1 + vl(*sequence) + 1 + 2 + small_reliable_body(messages@.take(it1.index() as int)) == cap0,
//@after /for \(message_id, message\) in messages \{/
                    proof {
                        let k = it1.index() as int;
                        assert(*message_id == messages@[k].0 && *message == messages@[k].1);
                        assert(small_reliable_body(messages@.take(k + 1)) == small_reliable_body(messages@.take(k))
                            + vl(messages@[k].0) + vl(messages@[k].1@.len() as u64) + messages@[k].1@.len());
                        assert(small_reliable_body(messages@.take(k + 1)) <= small_reliable_body(messages@));
                    }
//@after /for message in messages \{/
                    proof {
                        let k = it2.index() as int;
                        assert(*message == messages@[k]);
                        assert(small_unreliable_body(messages@.take(k + 1)) == small_unreliable_body(messages@.take(k))
                            + vl(messages@[k]@.len() as u64) + messages@[k]@.len());
                        assert(small_unreliable_body(messages@.take(k + 1)) <= small_unreliable_body(messages@));
                    }
//@loop 2 iter=it2
                    invariant
                        it2.seq().len() == messages@.len(),
                        forall|i: int| 0 <= i < messages@.len() ==> *(#[trigger] it2.seq()[i]) == messages@[i],
                        b.cap_spec() + 1 + vl(*sequence) + 1 + 2 + small_unreliable_body(messages@.take(it2.index() as int)) == cap0,
//@endfn

//@fn renet/src/packet.rs Packet::from_bytes
//@ret r
//@safety C06
//@attr #[verifier::loop_isolation(false)]
//@spec
        // no precondition: any datagram
        ensures
            r matches Ok(p) ==> packet_wire_valid(p),                    // @C06,C16 from_bytes.decoded_packet_is_wire_valid
//@loop 1
                    invariant
                        sequence < 0x4000_0000_0000_0000,
                        forall|i: int| 0 <= i < messages@.len() ==> (#[trigger] messages@[i]).0 < 0x4000_0000_0000_0000,
//@loop 2
                    invariant
                        sequence < 0x4000_0000_0000_0000,
//@loop 3
                    invariant
                        sequence < 0x4000_0000_0000_0000,
                        ack_ranges@.len() >= 1,
                        ranges_desc_wf(ack_ranges@),
                        previous_range_start == ack_ranges@.last().start,
//@before /ack_ranges\.reverse\(\);/
                proof { lemma_reverse_desc_is_wf(ack_ranges@); }
//@endfn
}

} // verus!
fn main() {}
