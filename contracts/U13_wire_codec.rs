//@unit U13 props=C03,C06,C08,C13,C16 rlimit=150 renet wire codec Packet::{from_bytes, to_bytes, sequence} (renet/src/packet.rs)
#![feature(allocator_api)]
#![allow(unused_imports, dead_code, unused_variables, unused_mut)]
use vstd::prelude::*;
use std::ops::Range;
verus! {

global size_of usize == 8;

//@include shims/bytes.rs
//@include shims/octets.rs

pub assume_specification<T>[<[T]>::reverse](s: &mut [T])
    ensures final(s)@ == old(s)@.reverse();

broadcast use {octets::axiom_varint_enc_len};

//@extract const renet/src/packet.rs SLICE_SIZE
//@extract struct renet/src/packet.rs Slice
//@extract enum renet/src/packet.rs Packet
#[derive(Debug, Clone, Copy, PartialEq, Eq)]
//@extract enum renet/src/packet.rs SerializationError

impl vstd::std_specs::convert::FromSpecImpl<octets::BufferTooShortError> for SerializationError {
    open spec fn obeys_from_spec() -> bool { true }
    open spec fn from_spec(v: octets::BufferTooShortError) -> SerializationError { SerializationError::BufferTooShort }
}

impl From<octets::BufferTooShortError> for SerializationError {
//@fn renet/src/packet.rs SerializationError::from trait=From
//@ret r
//@spec
        ensures r == SerializationError::BufferTooShort,     // @C06 from_buffer_too_short.maps_to_serialization_error
//@endfn
}

//@include contracts/shared/packet_bytes_specs.rs
//@include contracts/shared/packet_specs.rs
//@include contracts/shared/slice_specs.rs
//@include contracts/shared/wire_specs.rs
//@include contracts/shared/wire_format_specs.rs

impl Packet {
//@fn renet/src/packet.rs Packet::sequence
//@ret r
//@specfile contracts/shared/Packet.sequence.spec
//@endfn

//@fn renet/src/packet.rs Packet::to_bytes
//@ret r
//@safety C13
//@attr #[verifier::loop_isolation(false)]
//@specfile contracts/shared/Packet.to_bytes.spec
//@entry
        let ghost cap0 = b.cap_spec();
        let ghost out0 = b.out();
        proof {
            if *self is SmallReliable { lemma_reliable_body_take(self->SmallReliable_messages@); }
            if *self is SmallUnreliable { lemma_unreliable_body_take(self->SmallUnreliable_messages@); }
        }
//@loop 1 iter=it1
                    invariant
                        it1.seq().len() == messages@.len(),
                        forall|i: int| 0 <= i < messages@.len() ==> *(#[trigger] it1.seq()[i]) == messages@[i],
                        b.cap_spec() + 1 + vl(*sequence) + 1 + 2 + small_reliable_body(messages@.take(it1.index() as int)) == cap0,
                        b.out() == out0 + seq![0u8] + enc(*sequence) + seq![*channel_id] + octets::u16_be(messages@.len() as u16)
                            + wire_rel_msgs(rel_msgs_view(messages@.take(it1.index() as int))),
//@loopend 1
                    proof {
                        let k = it1.index() as int;
                        let v1 = rel_msgs_view(messages@.take(k + 1));
                        assert(v1.drop_last() =~= rel_msgs_view(messages@.take(k)));
                        assert(v1.last() == (messages@[k].0, messages@[k].1@));
                        assert(b.out() == out0 + seq![0u8] + enc(*sequence) + seq![*channel_id] + octets::u16_be(messages@.len() as u16) + wire_rel_msgs(v1))
                            by { broadcast use seq_assoc::lemma_concat_assoc; }
                    }
//@after /for \(message_id, message\) in messages \{/
                    proof {
                        let k = it1.index() as int;
                        assert(*message_id == messages@[k].0 && *message == messages@[k].1);
                        assert(small_reliable_body(messages@.take(k + 1)) == small_reliable_body(messages@.take(k))
                            + vl(messages@[k].0) + vl(messages@[k].1@.len() as u64) + messages@[k].1@.len());
                        assert(small_reliable_body(messages@.take(k + 1)) <= small_reliable_body(messages@));
                    }
//@after /for message in messages \{/
                    proof {
                        let k = it2.index() as int;
                        assert(*message == messages@[k]);
                        assert(small_unreliable_body(messages@.take(k + 1)) == small_unreliable_body(messages@.take(k))
                            + vl(messages@[k]@.len() as u64) + messages@[k]@.len());
                        assert(small_unreliable_body(messages@.take(k + 1)) <= small_unreliable_body(messages@));
                    }
//@loop 2 iter=it2
                    invariant
                        it2.seq().len() == messages@.len(),
                        forall|i: int| 0 <= i < messages@.len() ==> *(#[trigger] it2.seq()[i]) == messages@[i],
                        b.cap_spec() + 1 + vl(*sequence) + 1 + 2 + small_unreliable_body(messages@.take(it2.index() as int)) == cap0,
                        b.out() == out0 + seq![1u8] + enc(*sequence) + seq![*channel_id] + octets::u16_be(messages@.len() as u16)
                            + wire_unrel_msgs(unrel_msgs_view(messages@.take(it2.index() as int))),
//@loopend 2
                    proof {
                        let k = it2.index() as int;
                        let v1 = unrel_msgs_view(messages@.take(k + 1));
                        assert(v1.drop_last() =~= unrel_msgs_view(messages@.take(k)));
                        assert(v1.last() == messages@[k]@);
                        assert(b.out() == out0 + seq![1u8] + enc(*sequence) + seq![*channel_id] + octets::u16_be(messages@.len() as u16) + wire_unrel_msgs(v1))
                            by { broadcast use seq_assoc::lemma_concat_assoc; }
                    }
//@after /Packet::Ack \{ sequence, ack_ranges \} => \{/
                let ghost n = ack_ranges@.len() as int;
                let ghost d = ranges_view(ack_ranges@).reverse();
                let ghost hdr = seq![4u8] + enc(*sequence) + enc((d[0].1 - 1) as u64) + enc((d[0].1 - 1 - d[0].0) as u64) + enc((n - 1) as u64);
                proof {
                    lemma_ranges_wf_at(ack_ranges@, n - 1);
                    assert(d[0] == (ack_ranges@[n - 1].start, ack_ranges@[n - 1].end));
                    assert(wire(pview(*self)) == hdr + wire_ack_tail(d, 1)) by { reveal(wire); }
                    assert(hdr.len() == 1 + vl(*sequence) + vl((d[0].1 - 1) as u64) + vl((d[0].1 - 1 - d[0].0) as u64) + vl((n - 1) as u64));
                }
//@loop 3 iter=itK
                    invariant
                        itK.seq().len() == n - 1,
                        forall|i: int| 0 <= i < itK.seq().len() ==> *(#[trigger] itK.seq()[i]) == ack_ranges@[n - 2 - i],
                        previous_range_start == d[itK.index() as int].0,
                        b.out() == out0 + hdr + wire_ack_upto(d, itK.index() + 1),   // @C16 to_bytes.ack_range_loop_writes_the_wire_format
                        b.cap_spec() + b.out().len() == cap0 + out0.len(),
//@after /for range in it \{/
                    let ghost k = itK.index() as int;
                    proof {
                        assert(*range == ack_ranges@[n - 2 - k]);
                        lemma_ranges_wf_at(ack_ranges@, n - 2 - k);
                        lemma_ranges_wf_at(ack_ranges@, n - 1 - k);
                        assert(d.len() == n);
                        assert(d[k + 1] == (range.start, range.end));
                        assert(d[k] == (ack_ranges@[n - 1 - k].start, ack_ranges@[n - 1 - k].end));
                        lemma_ack_upto_tail(d, k + 1);
                        // what is still to come starts with this round's two varints: a failing put means the buffer is shorter than the packet
                        assert(wire_ack_tail(d, k + 1).len() >= vl((d[k].0 - d[k + 1].1 - 1) as u64) + vl((d[k + 1].1 - 1 - d[k + 1].0) as u64));
                        assert(wire(pview(*self)).len() == hdr.len() + wire_ack_upto(d, k + 1).len() + wire_ack_tail(d, k + 1).len());
                    }
//@loopend 3
                    proof {
                        assert(b.out() == out0 + hdr + wire_ack_upto(d, k + 2)) by { broadcast use seq_assoc::lemma_concat_assoc; }
                    }
//@afterloop 3
                proof {
                    lemma_ack_upto_tail(d, n);
                    assert(wire_ack_tail(d, n) =~= Seq::<u8>::empty());
                    assert(wire_ack_upto(d, n) + Seq::<u8>::empty() =~= wire_ack_upto(d, n));
                    assert(b.out() == out0 + wire(pview(*self))) by { broadcast use seq_assoc::lemma_concat_assoc; }   // @C16 to_bytes.arm_writes_the_wire_format
                }
//@afterloop 1
                proof {
                    assert(messages@.take(messages@.len() as int) =~= messages@);
                    assert(b.out() == out0 + wire(pview(*self))) by { reveal(wire); broadcast use seq_assoc::lemma_concat_assoc; }   // @C16 to_bytes.arm_writes_the_wire_format
                }
//@afterloop 2
                proof {
                    assert(messages@.take(messages@.len() as int) =~= messages@);
                    assert(b.out() == out0 + wire(pview(*self))) by { reveal(wire); broadcast use seq_assoc::lemma_concat_assoc; }   // @C16 to_bytes.arm_writes_the_wire_format
                }
//@after /b\.put_bytes\(&slice\.payload\)\?;/ 1
                proof {
                    assert(b.out() == out0 + wire(pview(*self))) by { reveal(wire); broadcast use seq_assoc::lemma_concat_assoc; }   // @C16 to_bytes.arm_writes_the_wire_format
                }
//@after /b\.put_bytes\(&slice\.payload\)\?;/ 2
                proof {
                    assert(b.out() == out0 + wire(pview(*self))) by { reveal(wire); broadcast use seq_assoc::lemma_concat_assoc; }   // @C16 to_bytes.arm_writes_the_wire_format
                }
//@endfn

//@fn renet/src/packet.rs Packet::from_bytes
//@ret r
//@safety C06
//@attr #[verifier::loop_isolation(false)]
//@specfile contracts/shared/Packet.from_bytes.spec
//@entry
        let ghost rest0 = b.rest();
//@after /let packet_type = b\.get_u8\(\)\?;/
        let ghost rest1 = b.rest();
//@after /^\s+0 => \{/
                proof { assert(parse(rest0) == parse_small_reliable(rest1)); }
//@after /^\s+1 => \{/
                proof { assert(parse(rest0) == parse_small_unreliable(rest1)); }
//@after /^\s+2 => \{/
                proof { assert(parse(rest0) == parse_slice(rest1, true)); }
//@after /^\s+3 => \{/
                proof { assert(parse(rest0) == parse_slice(rest1, false)); }
//@after /^\s+4 => \{/
                proof { assert(parse(rest0) == parse_ack(rest1)); }
//@after /let messages_len = b\.get_u16\(\)\?;/ 1
                let ghost ra4 = b.rest();
//@after /let mut messages: Vec<\(u64, Bytes\)> = Vec::with_capacity\(64\);/
                proof { assert(rel_msgs_view(messages@) =~= Seq::<(u64, Seq<u8>)>::empty()); }
//@loop 1 iter=itA
                    invariant
                        sequence < 0x4000_0000_0000_0000,
                        forall|i: int| 0 <= i < messages@.len() ==> (#[trigger] messages@[i]).0 < 0x4000_0000_0000_0000,
                        itA.seq().len() == messages_len,
                        messages@.len() == itA.index(),
                        forall|i: int| 0 <= i < messages@.len() ==> (#[trigger] messages@[i]).1@.len() < 0x4000_0000_0000_0000,
                        parse_rel_msgs(ra4, messages_len as nat, Seq::empty())
                            == parse_rel_msgs(b.rest(), (messages_len - itA.index()) as nat, rel_msgs_view(messages@)),   // @C16 from_bytes.message_loop_follows_the_parser
//@before /let message_id = b\.get_varint\(\)\?;/ 1
                    let ghost rb = b.rest();
                    let ghost m0 = messages@;
//@after /messages\.push\(\(message_id, payload\.to_vec\(\)\.into\(\)\)\);/
                    proof {
                        assert(rel_msgs_view(messages@) =~= rel_msgs_view(m0).push((message_id, payload.rest())));
                    }
//@after /let messages_len = b\.get_u16\(\)\?;/ 2
                let ghost rc4 = b.rest();
//@after /let mut messages: Vec<Bytes> = Vec::with_capacity\(64\);/
                proof { assert(unrel_msgs_view(messages@) =~= Seq::<Seq<u8>>::empty()); }
//@loop 2 iter=itB
                    invariant
                        sequence < 0x4000_0000_0000_0000,
                        itB.seq().len() == messages_len,
                        messages@.len() == itB.index(),
                        forall|i: int| 0 <= i < messages@.len() ==> (#[trigger] messages@[i])@.len() < 0x4000_0000_0000_0000,
                        parse_unrel_msgs(rc4, messages_len as nat, Seq::empty())
                            == parse_unrel_msgs(b.rest(), (messages_len - itB.index()) as nat, unrel_msgs_view(messages@)),   // @C16 from_bytes.message_loop_follows_the_parser
//@before /let payload = b\.get_bytes_with_varint_length\(\)\?;/ 2
                    let ghost m1 = messages@;
//@after /messages\.push\(payload\.to_vec\(\)\.into\(\)\);/
                    proof {
                        assert(unrel_msgs_view(messages@) =~= unrel_msgs_view(m1).push(payload.rest()));
                    }
//@before /for _ in 0\.\.num_remaining_ranges \{/
                let ghost re5 = b.rest();
                proof {
                    assert(ranges_view(ack_ranges@) =~= seq![(first_range_start, (first_range_end + 1) as u64)]);
                    assert(ack_ranges@ =~= seq![first_range_start..(first_range_end + 1) as u64]);
                    lemma_desc_single(first_range_start..(first_range_end + 1) as u64);
                }
//@loop 3 iter=itC
                    invariant
                        sequence < 0x4000_0000_0000_0000,
                        ack_ranges@.len() >= 1,
                        ranges_desc_wf(ack_ranges@),
                        previous_range_start == ack_ranges@.last().start,
                        previous_range_start < 0x4000_0000_0000_0000,
                        itC.seq().len() == num_remaining_ranges,
                        ack_ranges@.len() == itC.index() + 1,
                        parse_ack_ranges(re5, num_remaining_ranges as nat, first_range_start, seq![(first_range_start, (first_range_end + 1) as u64)])
                            == parse_ack_ranges(b.rest(), (num_remaining_ranges - itC.index()) as nat, previous_range_start, ranges_view(ack_ranges@)),   // @C16 from_bytes.ack_range_loop_follows_the_parser
//@before /let gap = b\.get_varint\(\)\?;/
                    let ghost a0 = ack_ranges@;
//@after /ack_ranges\.push\(range_start\.\.range_end \+ 1\);/
                    proof {
                        assert(ranges_view(ack_ranges@) =~= ranges_view(a0).push((range_start, (range_end + 1) as u64)));
                        lemma_desc_push(a0, range_start..(range_end + 1) as u64);
                        assert(ack_ranges@ =~= a0.push(range_start..(range_end + 1) as u64));
                    }
//@before /ack_ranges\.reverse\(\);/
                let ghost a1 = ack_ranges@;
                proof { lemma_reverse_desc_is_wf(ack_ranges@); }
//@after /ack_ranges\.reverse\(\);/
                proof {
                    assert(ranges_view(ack_ranges@) =~= ranges_view(a1).reverse());
                    lemma_ranges_view_wf(ack_ranges@);
                }
//@endfn
}

} // verus!
fn main() {}
