//@unit U2 props=C04,C07 ReplayProtection window (renetcode/src/replay_protection.rs)
#![feature(allocator_api)]
#![allow(unused_imports, dead_code, unused_variables, unused_mut)]
use vstd::prelude::*;
verus! {

global size_of usize == 8;

//@extract const renetcode/src/replay_protection.rs NETCODE_REPLAY_BUFFER_SIZE
//@extract const renetcode/src/replay_protection.rs EMPTY
//@extract struct renetcode/src/replay_protection.rs ReplayProtection

impl ReplayProtection {
    /// `acc` = the set of sequence numbers accepted so far (ghost).  u64::MAX is the implementation's EMPTY
    /// sentinel and is excluded from the functional statements (stated limit, see DESIGN.md C04).
    pub open spec fn inv(&self, acc: Set<u64>) -> bool {
        &&& forall|i: int| 0 <= i < 256 ==> {
                let v = #[trigger] self.received_packet@[i];
                v == u64::MAX || (v as int % 256 == i && v <= self.most_recent_sequence && acc.contains(v))
            }
        &&& forall|s: u64| #[trigger] acc.contains(s) ==> {
                &&& s < u64::MAX
                &&& self.received_packet@[s as int % 256] != u64::MAX
                &&& self.received_packet@[s as int % 256] >= s
            }
    }

    /// mathematical meaning of the window test
    pub open spec fn received_spec(&self, s: u64) -> bool {
        ||| s as int + 256 <= self.most_recent_sequence as int
        ||| (self.received_packet@[s as int % 256] != u64::MAX && self.received_packet@[s as int % 256] >= s)
    }

//@fn renetcode/src/replay_protection.rs ReplayProtection::new
//@ret r
//@safety C04,C07
//@spec
        ensures
            r.inv(Set::<u64>::empty()),                       // @C04 new.empty_window
            r.most_recent_sequence == 0,                      // @C04 new.most_recent_zero
//@endfn

//@fn renetcode/src/replay_protection.rs ReplayProtection::already_received
//@ret r
//@safety C07
//@spec
        // no precondition on `sequence`: it is read from a hostile datagram
        ensures
            r == self.received_spec(sequence),                                                              // @C04,C07 already_received.matches_window_spec
            forall|acc: Set<u64>| #![trigger self.inv(acc)] self.inv(acc) && acc.contains(sequence) ==> r,  // @C04 already_received.no_replay
            forall|acc: Set<u64>| #![trigger self.inv(acc)] self.inv(acc) && !acc.contains(sequence) && sequence < u64::MAX
                && sequence as int + 256 > self.most_recent_sequence as int ==> !r,                          // @C04 already_received.fresh_in_window_accepted
//@endfn

//@fn renetcode/src/replay_protection.rs ReplayProtection::advance_sequence
//@safety C07
//@spec
        ensures
            final(self).most_recent_sequence == if sequence > old(self).most_recent_sequence { sequence } else { old(self).most_recent_sequence },  // @C04 advance.most_recent_is_max
            final(self).received_packet@ == old(self).received_packet@.update(sequence as int % 256, sequence),                                    // @C04 advance.only_own_slot
            forall|acc: Set<u64>| #![trigger old(self).inv(acc)] old(self).inv(acc) && !old(self).received_spec(sequence) && sequence < u64::MAX
                ==> final(self).inv(acc.insert(sequence)),                                                                                         // @C04 advance.inv_with_sequence_accepted
//@endfn
}

} // verus!
fn main() {}
