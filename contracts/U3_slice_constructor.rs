//@unit U3 props=C01,C02,C03,C06 SliceConstructor reassembler (renet/src/channel/slice_constructor.rs)
#![feature(allocator_api)]
#![allow(unused_imports, dead_code, unused_variables, unused_mut)]
use vstd::prelude::*;
verus! {

//@include shims/bytes.rs
//@include shims/mem_take.rs
//@include shims/vec_index_mut_range.rs

//@extract const renet/src/packet.rs SLICE_SIZE

#[derive(Clone, Copy, Debug, PartialEq, Eq)]
//@extract enum renet/src/error.rs ChannelError

//@extract struct renet/src/channel/slice_constructor.rs SliceConstructor

pub mod count_lemmas {
use vstd::prelude::*;
pub open spec fn count_true(s: Seq<bool>) -> nat
    decreases s.len(),
{
    if s.len() == 0 { 0 } else { count_true(s.drop_last()) + if s.last() { 1nat } else { 0nat } }
}

pub proof fn lemma_count_true_bounds(s: Seq<bool>)
    ensures
        count_true(s) <= s.len(),
        count_true(s) == s.len() <==> (forall|i: int| 0 <= i < s.len() ==> s[i]),
    decreases s.len(),
{
    if s.len() > 0 {
        lemma_count_true_bounds(s.drop_last());
        assert(forall|i: int| 0 <= i < s.len() - 1 ==> s.drop_last()[i] == s[i]);
        if count_true(s) == s.len() {
            assert(s.last());
            assert forall|i: int| 0 <= i < s.len() implies s[i] by {
                if i < s.len() - 1 { assert(s.drop_last()[i]); }
            }
        }
        if (forall|i: int| 0 <= i < s.len() ==> s[i]) {
            assert(forall|i: int| 0 <= i < s.len() - 1 ==> s.drop_last()[i]);
        }
    }
}

pub proof fn lemma_count_true_set(s: Seq<bool>, i: int)
    requires 0 <= i < s.len(), !s[i],
    ensures count_true(s.update(i, true)) == count_true(s) + 1,
    decreases s.len(),
{
    if i == s.len() - 1 {
        assert(s.update(i, true).drop_last() =~= s.drop_last());
    } else {
        lemma_count_true_set(s.drop_last(), i);
        assert(s.update(i, true).drop_last() =~= s.drop_last().update(i, true));
    }
}

pub broadcast proof fn lemma_count_true_all_false(s: Seq<bool>)
    requires forall|i: int| 0 <= i < s.len() ==> !s[i],
    ensures #[trigger] count_true(s) == 0,
    decreases s.len(),
{
    if s.len() > 0 {
        lemma_count_true_all_false(s.drop_last());
    }
}

} // mod count_lemmas
pub use count_lemmas::*;
broadcast use {count_lemmas::lemma_count_true_all_false, axiom_vec_index_mut_range};

/// upper limit on the slice count a constructor is created with (Packet::from_bytes enforces it on the wire)
pub open spec fn max_slices() -> int { 1_000_000 }

impl SliceConstructor {
    /// representation invariant of an *incomplete* reassembly
    pub open spec fn wf(&self) -> bool {
        &&& 1 <= self.num_slices <= max_slices()
        &&& self.received@.len() == self.num_slices
        &&& self.num_received_slices == count_true(self.received@)
        &&& self.num_received_slices < self.num_slices
        &&& (!self.received@[self.num_slices - 1] ==> self.sliced_data@.len() == self.num_slices * 1200)
        &&& (self.received@[self.num_slices - 1] ==>
                (self.num_slices - 1) * 1200 <= self.sliced_data@.len() <= self.num_slices * 1200)
    }

    /// the bytes slice `i` of message `m` carries on the wire
    pub open spec fn slice_of(m: Seq<u8>, n: int, i: int) -> Seq<u8> {
        m.subrange(i * 1200, if i == n - 1 { m.len() as int } else { (i + 1) * 1200 })
    }

    /// `m` is a message the peer could have cut into `num_slices` slices
    pub open spec fn fits(&self, m: Seq<u8>) -> bool {
        (self.num_slices - 1) * 1200 < m.len() <= self.num_slices * 1200
    }

    /// everything received so far agrees with `m`
    pub open spec fn agrees(&self, m: Seq<u8>) -> bool {
        &&& self.fits(m)
        &&& (self.received@[self.num_slices - 1] ==> self.sliced_data@.len() == m.len())
        &&& forall|j: int| 0 <= j < m.len() && self.received@[j / 1200] ==> #[trigger] self.sliced_data@[j] == m[j]
    }

//@fn renet/src/channel/slice_constructor.rs SliceConstructor::new
//@ret r
//@safety C03,C06
//@spec
        requires
            1 <= num_slices <= max_slices(),
        ensures
            r.wf(),                                              // @C03,C06 new.wf
            r.num_slices == num_slices,                          // @C03,C06 new.num_slices
            r.num_received_slices == 0,                          // @C03 new.nothing_received
            forall|i: int| 0 <= i < num_slices ==> !r.received@[i],   // @C03 new.no_flags
            forall|m: Seq<u8>| r.fits(m) ==> r.agrees(m),        // @C03 new.agrees_with_anything
//@endfn

//@fn renet/src/channel/slice_constructor.rs SliceConstructor::process_slice
//@ret r
//@safety C06
//@spec
        requires
            old(self).wf(),
        ensures
            // hostile input: any index, any payload -- the call returns and an out-of-range index is refused
            slice_index >= old(self).num_slices ==> r is Err && *final(self) == *old(self),      // @C06 process_slice.index_out_of_range_refused
            r is Err ==> *final(self) == *old(self),                                               // @C06 process_slice.err_changes_nothing
            final(self).num_slices == old(self).num_slices,                                        // @C06,C09 process_slice.num_slices_frame
            r matches Ok(None) ==> final(self).wf(),                                               // @C03,C06 process_slice.wf_preserved
            r matches Ok(Some(_)) ==> old(self).num_received_slices + 1 == old(self).num_slices
                && slice_index < old(self).num_slices && !old(self).received@[slice_index as int], // @C03 process_slice.complete_only_with_last_missing_slice
            r matches Ok(None) ==> forall|i: int| 0 <= i < old(self).num_slices ==>
                final(self).received@[i] == (old(self).received@[i] || i == slice_index),          // @C03 process_slice.flags
            // authentic input: whatever was assembled so far agrees with message m, and so does the result
            forall|m: Seq<u8>| #![trigger old(self).agrees(m)] old(self).agrees(m) && slice_index < old(self).num_slices
                && bytes@ == Self::slice_of(m, old(self).num_slices as int, slice_index as int) ==> {
                    &&& r is Ok                                                                    // @C03 process_slice.authentic_accepted
                    &&& (r matches Ok(None) ==> final(self).agrees(m))                             // @C01,C02,C03 process_slice.agreement_preserved
                    &&& (r matches Ok(Some(x)) ==> x@ == m)                                        // @C01,C02,C03 process_slice.reassembled_equals_submitted
                },
//@after /self\.num_received_slices \+= 1;/
            proof { lemma_count_true_set(old(self).received@, slice_index as int); }
//@before /if self\.num_received_slices == self\.num_slices \{/
        proof {
            lemma_count_true_bounds(self.received@);
            lemma_count_true_bounds(old(self).received@);
            assert forall|m: Seq<u8>| #![trigger old(self).agrees(m)] old(self).agrees(m)
                && bytes@ == Self::slice_of(m, old(self).num_slices as int, slice_index as int)
                implies self.agrees(m) && (self.num_received_slices == self.num_slices ==> self.sliced_data@ =~= m) by {
                let n = self.num_slices as int;
                let i = slice_index as int;
                assert(bytes@.len() == (if i == n - 1 { m.len() - i * 1200 } else { 1200 }));
                assert forall|j: int| 0 <= j < m.len() && self.received@[j / 1200] implies #[trigger] self.sliced_data@[j] == m[j] by {
                    if j / 1200 == i {
                        if !old(self).received@[i] {
                            assert(self.sliced_data@[j] == bytes@[j - i * 1200]);
                        }
                    } else {
                        assert(old(self).received@[j / 1200]);
                        assert(old(self).sliced_data@[j] == m[j]);
                    }
                }
                if self.num_received_slices == self.num_slices {
                    assert(self.received@[n - 1]);
                    assert(forall|k: int| 0 <= k < n ==> self.received@[k]);
                    assert forall|j: int| 0 <= j < m.len() implies self.sliced_data@[j] == m[j] by {
                        assert(0 <= j / 1200 < n);
                        assert(self.received@[j / 1200]);
                    }
                }
            }
        }
//@endfn
}

} // verus!
fn main() {}
