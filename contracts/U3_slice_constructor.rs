//@unit U3 props=C01,C02,C03,C06,C09 SliceConstructor reassembler (renet/src/channel/slice_constructor.rs)
#![feature(allocator_api)]
#![allow(unused_imports, dead_code, unused_variables, unused_mut)]
use vstd::prelude::*;
verus! {

//@include shims/bytes.rs
//@include shims/mem_take.rs
//@include shims/vec_index_mut_range.rs

//@extract const renet/src/packet.rs SLICE_SIZE

#[derive(Clone, Copy, Debug, PartialEq, Eq)]
//@extract enum renet/src/error.rs ChannelError

//@extract struct renet/src/packet.rs Slice
//@extract struct renet/src/channel/slice_constructor.rs SliceConstructor

//@include contracts/shared/count_specs.rs
//@include contracts/shared/slice_specs.rs
//@include contracts/shared/sc_specs.rs

broadcast use {count_lemmas::lemma_count_true_all_false, axiom_vec_index_mut_range};

impl SliceConstructor {
//@fn renet/src/channel/slice_constructor.rs SliceConstructor::new
//@ret r
//@safety C03,C06
//@specfile contracts/shared/SliceConstructor.new.spec
//@endfn

//@fn renet/src/channel/slice_constructor.rs SliceConstructor::process_slice
//@ret r
//@safety C06
//@specfile contracts/shared/SliceConstructor.process_slice.spec
//@after /self\.num_received_slices \+= 1;/
            proof { lemma_count_true_set(old(self).received@, slice_index as int); }
//@before /if self\.num_received_slices == self\.num_slices \{/
        proof {
            lemma_count_true_bounds(self.received@);
            lemma_count_true_bounds(old(self).received@);
            assert forall|m: Seq<u8>| #![trigger old(self).agrees(m)] old(self).agrees(m)
                && bytes@ == Self::slice_of(m, old(self).num_slices as int, slice_index as int)
                implies self.agrees(m) && (self.num_received_slices == self.num_slices ==> self.sliced_data@ =~= m) by {
                let n = self.num_slices as int;
                let i = slice_index as int;
                assert(bytes@.len() == (if i == n - 1 { m.len() - i * 1200 } else { 1200 }));
                assert forall|j: int| 0 <= j < m.len() && self.received@[j / 1200] implies #[trigger] self.sliced_data@[j] == m[j] by {
                    if j / 1200 == i {
                        if !old(self).received@[i] {
                            assert(self.sliced_data@[j] == bytes@[j - i * 1200]);
                        }
                    } else {
                        assert(old(self).received@[j / 1200]);
                        assert(old(self).sliced_data@[j] == m[j]);
                    }
                }
                if self.num_received_slices == self.num_slices {
                    assert(self.received@[n - 1]);
                    assert(forall|k: int| 0 <= k < n ==> self.received@[k]);
                    assert forall|j: int| 0 <= j < m.len() implies self.sliced_data@[j] == m[j] by {
                        assert(0 <= j / 1200 < n);
                        assert(self.received@[j / 1200]);
                    }
                }
            }
        }
//@endfn
}

} // verus!
fn main() {}
