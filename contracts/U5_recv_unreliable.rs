//@unit U5 props=C03,C06,C09 ReceiveChannelUnreliable (renet/src/channel/unreliable.rs)
#![feature(allocator_api)]
#![allow(unused_imports, dead_code, unused_variables, unused_mut)]
use vstd::prelude::*;
use std::collections::{btree_map, BTreeMap, BTreeSet, HashMap, VecDeque};
verus! {

global size_of usize == 8;

//@include shims/bytes.rs
//@include shims/duration.rs
//@include shims/std_maps.rs

//@extract const renet/src/packet.rs SLICE_SIZE

#[derive(Clone, Copy, Debug, PartialEq, Eq)]
//@extract enum renet/src/error.rs ChannelError

//@extract struct renet/src/packet.rs Slice
//@extract struct renet/src/channel/slice_constructor.rs SliceConstructor
//@extract struct renet/src/channel/unreliable.rs ReceiveChannelUnreliable

//@include contracts/shared/sum_specs.rs
//@include contracts/shared/count_specs.rs
//@include contracts/shared/slice_specs.rs
//@include contracts/shared/sc_specs.rs
//@include contracts/shared/packet_bytes_specs.rs
//@include contracts/shared/slices_sum_specs.rs
//@include contracts/shared/recv_unreliable_specs.rs

broadcast use {count_lemmas::lemma_count_true_all_false};

impl SliceConstructor {
//@stub renet/src/channel/slice_constructor.rs SliceConstructor::new
//@ret r
//@specfile contracts/shared/SliceConstructor.new.spec
//@endfn

//@stub renet/src/channel/slice_constructor.rs SliceConstructor::process_slice
//@ret r
//@specfile contracts/shared/SliceConstructor.process_slice.spec
//@endfn
}

impl ReceiveChannelUnreliable {
//@fn renet/src/channel/unreliable.rs ReceiveChannelUnreliable::new
//@ret r
//@specfile contracts/shared/ReceiveChannelUnreliable.new.spec
//@endfn

//@fn renet/src/channel/unreliable.rs ReceiveChannelUnreliable::process_message
//@safety C06,C09
//@specfile contracts/shared/ReceiveChannelUnreliable.process_message.spec
//@end
        proof { lemma_bytes_total_push(old(self).messages@, message); }
//@endfn

//@fn renet/src/channel/unreliable.rs ReceiveChannelUnreliable::process_slice
//@ret r
//@safety C06,C09
//@specfile contracts/shared/ReceiveChannelUnreliable.process_slice.spec
//@closure 1 -> (c: SliceConstructor) ensures c.wf(), c.num_slices == slice.num_slices, c.num_received_slices == 0, forall|m: Seq<u8>| c.fits(m) ==> c.agrees(m)
//@entry
        proof { broadcast use reserved_lemmas::lemma_reserved_ext; }
//@before /if let Some\(message\) = slice_constructor\.process_slice\(/
        proof {
            assert forall|sub: Map<u64, Seq<u8>>| #![trigger old(self).auth(sub)] old(self).auth(sub) && sub.contains_key(slice.message_id)
                && slice.authentic(sub[slice.message_id]) implies
                    slice_constructor.agrees(sub[slice.message_id]) && slice_constructor.num_slices == slice.num_slices by {
                let m = sub[slice.message_id];
                if old(self).slices@.contains_key(slice.message_id) {
                    let c0 = old(self).slices@[slice.message_id];
                    assert(c0.agrees(m));
                    assert(c0.fits(m));
                    assert(*slice_constructor == c0);
                    assert(c0.num_slices == slice.num_slices) by (nonlinear_arith)
                        requires (c0.num_slices - 1) * 1200 < m.len() <= c0.num_slices * 1200,
                                 (slice.num_slices - 1) * 1200 < m.len() <= slice.num_slices * 1200;
                } else {
                    assert(slice_constructor.fits(m));
                }
            }
            // accounting for whatever state the constructor is left in (needed at the early `?` exit, where no hint can be placed)
            assert forall|c: SliceConstructor| c.num_slices == slice_constructor.num_slices implies
                #[trigger] reserved_of(old(self).slices@.insert(slice.message_id, c)) == reserved_of(old(self).slices@)
                    + (if old(self).slices@.contains_key(slice.message_id) { 0int } else { c.num_slices * 1200 }) by {
                if old(self).slices@.contains_key(slice.message_id) {
                    assert(*slice_constructor == old(self).slices@[slice.message_id]);
                    lemma_reserved_update(old(self).slices@, slice.message_id, c);
                } else {
                    lemma_reserved_insert(old(self).slices@, slice.message_id, c);
                }
            }
        }
//@after /if let Some\(message\) = slice_constructor\.process_slice\(/
            proof {
                let id = slice.message_id;
                let c1 = self.slices@[id];
                assert(self.slices@ =~= old(self).slices@.insert(id, c1));
                if old(self).slices@.contains_key(id) {
                    lemma_reserved_update(old(self).slices@, id, c1);
                } else {
                    lemma_reserved_insert(old(self).slices@, id, c1);
                }
                lemma_reserved_remove(self.slices@, id);
            }
            let ghost g_slices = self.slices@;
//@after /self\.messages\.push_back\(message\);/
            proof {
                lemma_bytes_total_push(old(self).messages@, message);
                assert(self.slices@ =~= g_slices.remove(slice.message_id));
            }
//@before /^        Ok\(\(\)\)$/
        proof {
            let id = slice.message_id;
            if self.slices@.contains_key(id) {
                // reassembly still incomplete: the constructor was created or updated in place
                let c1 = self.slices@[id];
                assert(self.slices@ =~= old(self).slices@.insert(id, c1));
                if old(self).slices@.contains_key(id) {
                    lemma_reserved_update(old(self).slices@, id, c1);
                } else {
                    lemma_reserved_insert(old(self).slices@, id, c1);
                }
            }
        }
//@endfn

//@fn renet/src/channel/unreliable.rs ReceiveChannelUnreliable::discard_incomplete_old_slices
//@safety C06,C09
//@attr #[verifier::loop_isolation(false)]
//@specfile contracts/shared/ReceiveChannelUnreliable.discard_incomplete_old_slices.spec
//@entry
        proof { broadcast use reserved_lemmas::lemma_reserved_ext; }
        let ghost last0 = self.slices_last_received@;
        let ghost slices0 = self.slices@;
        let ghost mut pos: Seq<int> = Seq::empty();
//@loop 1 iter=it
            invariant
                pos.len() == lost_messages@.len(),
                it.seq().no_duplicates(),
                forall|i: int| 0 <= i < it.seq().len() ==> last0.contains_key(*(#[trigger] it.seq()[i]).0) && last0[*it.seq()[i].0] == *it.seq()[i].1,
                forall|k: u64| last0.contains_key(k) ==> exists|i: int| 0 <= i < it.seq().len() && *(#[trigger] it.seq()[i]).0 == k,
                forall|j: int| 0 <= j < pos.len() ==> 0 <= #[trigger] pos[j] < it.index() && lost_messages@[j] == *it.seq()[pos[j]].0
                    && stale(current_time, *it.seq()[pos[j]].1),
                forall|a: int, b: int| 0 <= a < b < pos.len() ==> #[trigger] pos[a] < #[trigger] pos[b],
                forall|p: int| 0 <= p < it.index() && stale(current_time, *(#[trigger] it.seq()[p]).1) ==> lost_messages@.contains(*it.seq()[p].0),
//@after /for \(&message_id, last_received\) in self\.slices_last_received\.iter\(\) \{/
            let ghost out0 = lost_messages@;
            let ghost idx = it.index() as int;
//@after /lost_messages\.push\(message_id\);/
                proof { pos = pos.push(idx); assert(lost_messages@[lost_messages@.len() - 1] == message_id); }
//@loopend 1
            proof {
                assert forall|p: int| 0 <= p < idx + 1 && stale(current_time, *(#[trigger] it.seq()[p]).1) implies lost_messages@.contains(*it.seq()[p].0) by {
                    if p < idx {
                        assert(out0.contains(*it.seq()[p].0));
                        let j = choose|j: int| 0 <= j < out0.len() && out0[j] == *it.seq()[p].0;
                        assert(lost_messages@[j] == *it.seq()[p].0);
                    } else {
                        assert(lost_messages@[lost_messages@.len() - 1] == *it.seq()[p].0);
                    }
                }
            }
//@before /for message_id in lost_messages\.iter\(\) \{/
        let ghost lost = lost_messages@;
        proof {
            // what the scan collected: exactly the stale keys, each once
            assert forall|a: int, b: int| 0 <= a < b < lost.len() implies lost[a] != lost[b] by { assert(pos[a] < pos[b]); }
            assert forall|j: int| 0 <= j < lost.len() implies last0.contains_key(#[trigger] lost[j]) && stale(current_time, last0[lost[j]]) by {
                assert(0 <= pos[j]);
            }
            // completeness (every stale key was visited and collected) follows from the iterator facts kept in the loop invariant
            assert(forall|k: u64| last0.contains_key(k) && stale(current_time, last0[k]) ==> lost.contains(k));   // @C09 discard.every_stale_fragment_collected
        }
//@loop 2 iter=it2
            invariant
                lost == lost_messages@,
                it2.seq().len() == lost.len(),
                forall|x: u64| self.slices_last_received@.contains_key(x) <==> last0.contains_key(x) && !in_prefix(lost, it2.index() as int, x),
                forall|x: u64| self.slices_last_received@.contains_key(x) ==> self.slices_last_received@[x] == last0[x],
                forall|x: u64| self.slices@.contains_key(x) <==> slices0.contains_key(x) && !in_prefix(lost, it2.index() as int, x),
                forall|x: u64| self.slices@.contains_key(x) ==> self.slices@[x] == slices0[x],
                self.memory_usage_bytes == bytes_total(self.messages@) + reserved_of(self.slices@),
                self.messages@ == old(self).messages@,
                self.max_memory_usage_bytes == old(self).max_memory_usage_bytes,
                self.memory_usage_bytes <= old(self).memory_usage_bytes,
//@after /for message_id in lost_messages\.iter\(\) \{/
            let ghost idx2 = it2.index() as int;
            proof {
                assert(*message_id == lost[idx2]);
                assert(!in_prefix(lost, idx2, *message_id));
                assert(last0.contains_key(*message_id));
                assert(slices0.contains_key(*message_id));
                lemma_reserved_remove(self.slices@, *message_id);
                lemma_in_prefix_step(lost, idx2);
            }
//@end
        proof {
            lemma_in_prefix_all(lost);
            assert(forall|x: u64| self.slices_last_received@.contains_key(x) <==> last0.contains_key(x) && !lost.contains(x));
            assert(forall|x: u64| self.slices@.contains_key(x) <==> slices0.contains_key(x) && !lost.contains(x));
            assert forall|id: u64| #[trigger] self.slices_last_received@.contains_key(id) implies
                current_time.nanos - self.slices_last_received@[id].nanos < 3_000_000_000 && self.slices@.contains_key(id) by {
                assert(last0.contains_key(id) && !lost.contains(id));
                assert(!stale(current_time, last0[id]));
                assert(slices0.contains_key(id));
            }
            assert forall|id: u64| #[trigger] self.slices@.contains_key(id) implies self.slices@[id].wf() by {
                assert(slices0.contains_key(id));
            }
            if old(self).clean() {
                assert forall|id: u64| #[trigger] self.slices@.contains_key(id) implies self.slices_last_received@.contains_key(id) by {
                    assert(slices0.contains_key(id) && !lost.contains(id));
                    assert(last0.contains_key(id));
                }
            }
            assert forall|id: u64| #[trigger] self.slices_last_received@.contains_key(id) implies self.slices_last_received@[id].nanos <= current_time.nanos by {
                assert(last0.contains_key(id));
            }
        }
//@endfn

//@fn renet/src/channel/unreliable.rs ReceiveChannelUnreliable::receive_message
//@ret r
//@safety C06,C09
//@specfile contracts/shared/ReceiveChannelUnreliable.receive_message.spec
//@after /if let Some\(message\) = self\.messages\.pop_front\(\) \{/
            proof { lemma_bytes_total_pop_front(old(self).messages@); }
//@endfn
}

} // verus!
fn main() {}
