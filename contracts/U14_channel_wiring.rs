//@unit U14 props=C01,C02,C03,C06,C08,C11,C13,C14 RenetClient::from_channels: channel kinds wired as configured (renet/src/remote_connection.rs)
#![feature(allocator_api)]
#![allow(unused_imports, dead_code, unused_variables, unused_mut)]
use vstd::prelude::*;
use std::collections::{btree_map, BTreeMap, BTreeSet, HashMap, VecDeque};
use std::ops::Range;
verus! {

global size_of usize == 8;

//@include shims/bytes.rs
//@include shims/duration.rs
//@include shims/std_maps.rs
//@include shims/div_ceil.rs
//@include shims/octets_varint.rs

// placeholders for field types this unit never looks into (rule D7)
pub struct PacketSent;
pub struct ConnectionStats;

//@extract const renet/src/packet.rs SLICE_SIZE
#[derive(Clone, Copy, Debug, PartialEq, Eq)]
//@extract enum renet/src/packet.rs SerializationError
#[derive(Clone, Copy, Debug, PartialEq, Eq)]
//@extract enum renet/src/error.rs ChannelError
#[derive(Clone, Copy, Debug, PartialEq, Eq)]
//@extract enum renet/src/error.rs DisconnectReason
//@extract enum renet/src/remote_connection.rs RenetConnectionStatus
//@extract enum renet/src/remote_connection.rs ChannelOrder
//@extract enum renet/src/channel/mod.rs SendType
//@extract struct renet/src/channel/mod.rs ChannelConfig
//@extract struct renet/src/packet.rs Slice
//@extract enum renet/src/packet.rs Packet
//@extract struct renet/src/channel/slice_constructor.rs SliceConstructor
//@extract enum renet/src/channel/reliable.rs ReliableOrder
//@extract enum renet/src/channel/reliable.rs UnackedMessage
//@extract struct renet/src/channel/reliable.rs ReceiveChannelReliable
//@extract struct renet/src/channel/reliable.rs SendChannelReliable
//@extract struct renet/src/channel/unreliable.rs ReceiveChannelUnreliable
//@extract struct renet/src/channel/unreliable.rs SendChannelUnreliable
//@extract struct renet/src/remote_connection.rs RenetClient
//@extract struct renet/src/remote_connection.rs ConnectionConfig

//@include contracts/shared/sum_specs.rs
//@include contracts/shared/count_specs.rs
//@include contracts/shared/slice_specs.rs
//@include contracts/shared/sc_specs.rs
//@include contracts/shared/packet_bytes_specs.rs
//@include contracts/shared/slices_sum_specs.rs
//@include contracts/shared/packet_specs.rs
//@include contracts/shared/send_unreliable_specs.rs
//@include contracts/shared/recv_reliable_specs.rs
//@include contracts/shared/recv_unreliable_specs.rs
//@include contracts/shared/unacked_specs.rs
//@include contracts/shared/send_reliable_specs.rs
//@include contracts/shared/wiring_specs.rs

impl ConnectionStats {
    #[verifier::external_body]
    pub fn new() -> ConnectionStats { unimplemented!() }
}

// constructors: contracts proved on the real bodies in U4, U5, U6, U7
impl ReceiveChannelReliable {
//@stub renet/src/channel/reliable.rs ReceiveChannelReliable::new
//@ret r
//@specfile contracts/shared/ReceiveChannelReliable.new.spec
//@endfn
}
impl ReceiveChannelUnreliable {
//@stub renet/src/channel/unreliable.rs ReceiveChannelUnreliable::new
//@ret r
//@specfile contracts/shared/ReceiveChannelUnreliable.new.spec
//@endfn
}
impl SendChannelReliable {
//@stub renet/src/channel/reliable.rs SendChannelReliable::new
//@ret r
//@specfile contracts/shared/SendChannelReliable.new.spec
//@endfn
}
impl SendChannelUnreliable {
//@stub renet/src/channel/unreliable.rs SendChannelUnreliable::new
//@ret r
//@specfile contracts/shared/SendChannelUnreliable.new.spec
//@endfn
}

impl RenetClient {
//@fn renet/src/remote_connection.rs RenetClient::from_channels
//@ret r
//@attr #[verifier::loop_isolation(false)]
//@specfile contracts/shared/RenetClient.from_channels.spec
//@entry
        let ghost scfg = send_channels_config@;
        let ghost rcfg = receive_channels_config@;
//@loop 1 iter=it1 over=send_channels_config\.iter\(\)
            invariant
                it1.seq().len() == scfg.len(),
                forall|i: int| 0 <= i < scfg.len() ==> *(#[trigger] it1.seq()[i]) == scfg[i],
                channel_send_order@.len() == it1.index(),
                forall|j: int| 0 <= j < it1.index() ==> channel_send_order@[j] == order_entry(#[trigger] scfg[j]),   // @C01,C02,C14 from_channels.send_order_follows_configuration
                forall|j: int| 0 <= j < it1.index() ==> match #[trigger] channel_send_order@[j] {
                    ChannelOrder::Reliable(c) => send_reliable_channels@.contains_key(c),
                    ChannelOrder::Unreliable(c) => send_unreliable_channels@.contains_key(c),
                },
                forall|j: int| 0 <= j < it1.index() ==> send_wired(#[trigger] scfg[j], send_reliable_channels@, send_unreliable_channels@),   // @C01,C02 from_channels.each_send_channel_built_as_configured
                forall|id: u8| send_reliable_channels@.contains_key(id) || send_unreliable_channels@.contains_key(id)
                    ==> exists|j: int| 0 <= j < it1.index() && (#[trigger] scfg[j]).channel_id == id,
                forall|id: u8| #[trigger] send_reliable_channels@.contains_key(id) ==> send_reliable_channels@[id].channel_id == id,       // @C03,C11 from_channels.send_channels_filed_under_their_own_id
                forall|id: u8| #[trigger] send_unreliable_channels@.contains_key(id) ==> send_unreliable_channels@[id].channel_id == id,
//@after /for channel_config in send_channels_config\.iter\(\) \{/
            let ghost k1 = it1.index() as int;
            let ghost srel0 = send_reliable_channels@;
            let ghost sunrel0 = send_unreliable_channels@;
            proof {
                assert(*channel_config == scfg[k1]);
                // the id of this entry is not in either table yet: every id present belongs to an earlier, different entry
                assert(!srel0.contains_key(channel_config.channel_id) && !sunrel0.contains_key(channel_config.channel_id));
            }
//@loop 2 iter=it2 over=receive_channels_config\.iter\(\)
            invariant
                it2.seq().len() == rcfg.len(),
                forall|i: int| 0 <= i < rcfg.len() ==> *(#[trigger] it2.seq()[i]) == rcfg[i],
                forall|j: int| 0 <= j < it2.index() ==> recv_wired(#[trigger] rcfg[j], receive_reliable_channels@, receive_unreliable_channels@),   // @C01,C02 from_channels.each_receive_channel_built_with_its_configured_kind
                forall|id: u8| receive_reliable_channels@.contains_key(id) || receive_unreliable_channels@.contains_key(id)
                    ==> exists|j: int| 0 <= j < it2.index() && (#[trigger] rcfg[j]).channel_id == id,
//@after /for channel_config in receive_channels_config\.iter\(\) \{/
            let ghost k2 = it2.index() as int;
            let ghost rrel0 = receive_reliable_channels@;
            let ghost runrel0 = receive_unreliable_channels@;
            proof {
                assert(*channel_config == rcfg[k2]);
                assert(!rrel0.contains_key(channel_config.channel_id) && !runrel0.contains_key(channel_config.channel_id));
            }
//@endfn

//@fn renet/src/remote_connection.rs RenetClient::new
//@ret r
//@spec
        requires
            ids_distinct(config.client_channels_config@), ids_distinct(config.server_channels_config@),
            budgets_ok(config.client_channels_config@), budgets_ok(config.server_channels_config@),
        ensures
            // a client sends on the client list and receives on the server list
            forall|i: int| 0 <= i < config.client_channels_config@.len() ==>
                send_wired(#[trigger] config.client_channels_config@[i], r.send_reliable_channels@, r.send_unreliable_channels@),     // @C01,C02 new.client_sends_on_client_channels
            forall|i: int| 0 <= i < config.server_channels_config@.len() ==>
                recv_wired(#[trigger] config.server_channels_config@[i], r.receive_reliable_channels@, r.receive_unreliable_channels@),   // @C01,C02 new.client_receives_on_server_channels
            r.connection_status is Connecting,                                                                                          // @C01,C02 new.starts_connecting
//@endfn

//@fn renet/src/remote_connection.rs RenetClient::new_from_server
//@ret r
//@spec
        requires
            ids_distinct(config.client_channels_config@), ids_distinct(config.server_channels_config@),
            budgets_ok(config.client_channels_config@), budgets_ok(config.server_channels_config@),
        ensures
            // the server's end of a connection sends on the server list and receives on the client list: the mirror image of `new`
            forall|i: int| 0 <= i < config.server_channels_config@.len() ==>
                send_wired(#[trigger] config.server_channels_config@[i], r.send_reliable_channels@, r.send_unreliable_channels@),     // @C01,C02 new_from_server.server_sends_on_server_channels
            forall|i: int| 0 <= i < config.client_channels_config@.len() ==>
                recv_wired(#[trigger] config.client_channels_config@[i], r.receive_reliable_channels@, r.receive_unreliable_channels@),   // @C01,C02 new_from_server.server_receives_on_client_channels
//@endfn
}

} // verus!
fn main() {}
