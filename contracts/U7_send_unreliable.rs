//@unit U7 props=C03,C09,C11,C13,C14,C16 SendChannelUnreliable (renet/src/channel/unreliable.rs)
#![feature(allocator_api)]
#![allow(unused_imports, dead_code, unused_variables, unused_mut)]
use vstd::prelude::*;
use std::collections::{BTreeMap, VecDeque};
use std::ops::Range;
verus! {

global size_of usize == 8;

//@include shims/bytes.rs
//@include shims/mem_take.rs
//@include shims/div_ceil.rs
//@include shims/octets_varint.rs

//@extract const renet/src/packet.rs SLICE_SIZE
//@extract struct renet/src/packet.rs Slice
//@extract enum renet/src/packet.rs Packet
//@extract struct renet/src/channel/unreliable.rs SendChannelUnreliable

//@include contracts/shared/packet_bytes_specs.rs
//@include contracts/shared/packet_specs.rs
//@include contracts/shared/slice_specs.rs
//@include contracts/shared/send_unreliable_specs.rs

impl SendChannelUnreliable {
//@fn renet/src/channel/unreliable.rs SendChannelUnreliable::new
//@ret r
//@specfile contracts/shared/SendChannelUnreliable.new.spec
//@endfn

//@fn renet/src/channel/unreliable.rs SendChannelUnreliable::can_send_message
//@ret r
//@specfile contracts/shared/SendChannelUnreliable.can_send_message.spec
//@endfn

//@fn renet/src/channel/unreliable.rs SendChannelUnreliable::available_memory
//@ret r
//@specfile contracts/shared/SendChannelUnreliable.available_memory.spec
//@endfn

//@fn renet/src/channel/unreliable.rs SendChannelUnreliable::send_message
//@specfile contracts/shared/SendChannelUnreliable.send_message.spec
//@end
        proof { lemma_bytes_total_push(old(self).unreliable_messages@, message); }
//@endfn

//@fn renet/src/channel/unreliable.rs SendChannelUnreliable::get_packets_to_send
//@ret r
//@attr #[verifier::loop_isolation(false)]
//@specfile contracts/shared/SendChannelUnreliable.get_packets_to_send.spec
//@entry
        let ghost seq0 = *packet_sequence as int;
        let ghost avail0 = *available_bytes as int;
        let ghost q0 = self.unreliable_messages@;
        let ghost bound = seq0 + 2 * q0.len() + self.memory_usage_bytes + 1;
        let ghost id0 = self.sliced_message_id as int;
        let ghost mut idmap = Map::<u64, int>::empty();
        proof { lemma_upkts_ok_empty(seq0, q0); lemma_usmall_ok_empty(); lemma_uids_ok_empty(q0, id0); }
//@loop 1
            invariant
                self.memory_usage_bytes == bytes_total(self.unreliable_messages@),
                self.memory_usage_bytes <= self.max_memory_usage_bytes,
                self.max_memory_usage_bytes == old(self).max_memory_usage_bytes,
                self.channel_id == old(self).channel_id,
                all_from_channel(packets@, self.channel_id),   // @C03,C11 get_packets_to_send.every_packet_labelled_with_this_channel
                // budget: what is packed + what is pending + what is left = what was available
                packets_payload(packets@) + bytes_total(small_messages@) + *available_bytes == avail0,
                upkts_ok(packets@, seq0, q0),
                uids_ok(packets@, q0, idmap, id0, self.sliced_message_id as int),
                id0 <= self.sliced_message_id,
                *packet_sequence == seq0 + packets@.len(),
                usmall_ok(small_messages@, small_messages_bytes as int),
                // the rest of the queue is a suffix of the original queue
                self.unreliable_messages@.len() <= q0.len(),
                self.unreliable_messages@ =~= q0.subrange(q0.len() - self.unreliable_messages@.len(), q0.len() as int),
                // counters cannot wrap
                *packet_sequence + 2 * self.unreliable_messages@.len() + self.memory_usage_bytes + (if small_messages@.len() > 0 { 1int } else { 0int }) <= bound,
                self.sliced_message_id + self.unreliable_messages@.len() <= old(self).sliced_message_id + q0.len(),
            decreases self.unreliable_messages@.len(),
//@after /while let Some\(message\) = self\.unreliable_messages\.pop_front\(\) \{/
            let ghost qk = q0.len() - self.unreliable_messages@.len() - 1;
            proof {
                let before = q0.subrange(qk, q0.len() as int);   // the queue before this pop
                lemma_bytes_total_pop_front(before);
                assert(before.subrange(1, before.len() as int) =~= self.unreliable_messages@);
                assert(message == q0[qk]);
                lemma_usmall_ok_bound(small_messages@, small_messages_bytes as int);
            }
//@before /for slice_index in 0\.\.num_slices \{/
                let ghost p0 = packets_payload(packets@);
                let ghost n0 = packets@.len();
                proof {
                    assert(num_slices <= message@.len() && num_slices >= 2) by (nonlinear_arith)
                        requires (num_slices - 1) * 1200 < message@.len(), message@.len() > 1200, message@.len() <= num_slices * 1200;
                    lemma_uids_ok_new_id(packets@, q0, idmap, id0, self.sliced_message_id as int, qk);
                    idmap = idmap.insert(self.sliced_message_id, qk);
                }
//@loop 2
                    invariant
                        self.memory_usage_bytes == bytes_total(self.unreliable_messages@),
                        packets@.len() == n0 + slice_index,
                        all_from_channel(packets@, self.channel_id),   // @C03,C11 get_packets_to_send.every_packet_labelled_with_this_channel
                        *packet_sequence == seq0 + packets@.len(),
                        packets_payload(packets@) == p0 + (if slice_index == num_slices { message@.len() as int } else { slice_index * 1200 }),
                        upkts_ok(packets@, seq0, q0),
                        uids_ok(packets@, q0, idmap, id0, self.sliced_message_id + 1),
                        idmap.contains_key(self.sliced_message_id) && idmap[self.sliced_message_id] == qk,
                        (num_slices - 1) * 1200 < message@.len() <= num_slices * 1200,
                        num_slices >= 2,
//@before /packets\.push\(Packet::UnreliableSlice \{/
                    let ghost pk0 = packets@;
//@after /\*packet_sequence \+= 1;/ 1
                    proof {
                        let pk = packets@.last();
                        assert(packets@.drop_last() =~= pk0);
                        assert(pk matches Packet::UnreliableSlice { sequence, channel_id, slice } && slice.authentic(q0[qk]@));
                        lemma_upkts_ok_push(packets@.drop_last(), pk, seq0, q0);
                        // the slice carries the id opened for this message (the counter's current value)
                        assert(uslice_id_ok(pk, q0, idmap));   // @C03 get_packets_to_send.slice_carries_the_id_opened_for_its_message
                        lemma_uids_ok_push(packets@.drop_last(), pk, q0, idmap, id0, self.sliced_message_id + 1);
                        lemma_packets_payload_push(packets@.drop_last(), pk);
                        assert(packets@.drop_last().push(pk) =~= packets@);
                    }
//@before /packets\.push\(Packet::SmallUnreliable \{/ 1
                    let ghost sm = small_messages;
                    let ghost bytes1 = small_messages_bytes as int;
                    let ghost pk1 = packets@;
//@after /^\s+small_messages_bytes = 0;/
                    proof {
                        let pk = packets@.last();
                        assert(packets@.drop_last() =~= pk1);
                        lemma_usmall_packet_fits(sm, bytes1, (seq0 + packets@.len() - 1) as u64, self.channel_id);
                        assert(pk == Packet::SmallUnreliable { sequence: (seq0 + packets@.len() - 1) as u64, channel_id: self.channel_id, messages: sm });
                        lemma_upkts_ok_push(packets@.drop_last(), pk, seq0, q0);
                        lemma_uids_ok_push(packets@.drop_last(), pk, q0, idmap, id0, self.sliced_message_id as int);
                        lemma_packets_payload_push(packets@.drop_last(), pk);
                        assert(packets@.drop_last().push(pk) =~= packets@);
                        lemma_usmall_ok_empty();
                        assert(small_messages@ =~= Seq::<Bytes>::empty());
                    }
//@before /small_messages_bytes \+= serialized_size;/
                let ghost sm0 = small_messages@;
                let ghost bytes0 = small_messages_bytes as int;
                proof { lemma_usmall_ok_bound(sm0, bytes0); }
//@after /small_messages\.push\(message\);/
                proof {
                    assert(small_messages@.drop_last() =~= sm0);
                    lemma_bytes_total_push(sm0, message);
                    assert(sm0.push(message) =~= small_messages@);
                    lemma_usmall_ok_push(sm0, message, bytes0);
                }
//@before /packets\.push\(Packet::SmallUnreliable \{/ 2
            let ghost sm2 = small_messages;
            let ghost bytes2 = small_messages_bytes as int;
            let ghost pk2 = packets@;
//@after /\*packet_sequence \+= 1;/ 3
            proof {
                let pk = packets@.last();
                assert(packets@.drop_last() =~= pk2);
                lemma_usmall_packet_fits(sm2, bytes2, (seq0 + packets@.len() - 1) as u64, self.channel_id);
                assert(pk == Packet::SmallUnreliable { sequence: (seq0 + packets@.len() - 1) as u64, channel_id: self.channel_id, messages: sm2 });
                lemma_upkts_ok_push(packets@.drop_last(), pk, seq0, q0);
                lemma_uids_ok_push(packets@.drop_last(), pk, q0, idmap, id0, self.sliced_message_id as int);
                lemma_packets_payload_push(packets@.drop_last(), pk);
                assert(packets@.drop_last().push(pk) =~= packets@);
                assert(small_messages@ =~= Seq::<Bytes>::empty());
            }
//@before /^        packets$/
        proof { reveal(upkts_ok); assert(uids_ok(packets@, q0, idmap, id0, self.sliced_message_id as int)); }
//@endfn
}

} // verus!
fn main() {}
