//@unit U9 props=C01,C02,C03,C08,C13,C14,C15,C16 body of the 'messages loop of SendChannelReliable::get_packets_to_send (renet/src/channel/reliable.rs, rule D6)
#![feature(allocator_api)]
#![allow(unused_imports, dead_code, unused_variables, unused_mut)]
use vstd::prelude::*;
use std::collections::{btree_map, BTreeMap, BTreeSet, HashMap};
use std::ops::Range;
verus! {

global size_of usize == 8;

//@include shims/bytes.rs
//@include shims/duration.rs
//@include shims/mem_take.rs
//@include shims/octets_varint.rs
//@include shims/vec_index_mut_range.rs

//@extract const renet/src/packet.rs SLICE_SIZE
//@extract struct renet/src/packet.rs Slice
//@extract enum renet/src/packet.rs Packet
//@extract enum renet/src/channel/reliable.rs UnackedMessage

//@include contracts/shared/count_specs.rs
//@include contracts/shared/packet_bytes_specs.rs
//@include contracts/shared/packet_specs.rs
//@include contracts/shared/slice_specs.rs
//@include contracts/shared/unacked_specs.rs
//@include contracts/shared/send_loop_specs.rs

broadcast use {count_lemmas::lemma_count_true_all_false, axiom_vec_index_mut_usize};

/// rule D6: an outlined loop body must not leave the loop early (`break` / `return` of the enclosing function)
pub proof fn d6_loop_left_early()
    requires false,      // @C11,C12,C13,C14,C15 d6.loop_visits_every_entry
{}

//@outline renet/src/channel/reliable.rs SendChannelReliable::get_packets_to_send loop=1 name=reliable_send_loop_body
//@params message_id: u64, unacked_message: &mut UnackedMessage
//@capture val resend_time: Duration = self.resend_time
//@capture val channel_id: u8 = self.channel_id
//@capture ref packet_sequence: &mut u64
//@capture ref available_bytes: &mut u64
//@capture val current_time: Duration
//@capture mut packets: Vec<Packet>
//@capture mut small_messages: Vec<(u64, Bytes)>
//@capture mut small_messages_bytes: usize
//@attr #[verifier::loop_isolation(false)]
//@forwhile 1
//@specfile contracts/shared/reliable_send_loop_body.spec
//@entry
            let ghost um0 = *unacked_message;
            let ghost p0 = packets@;
            let ghost seq0 = *packet_sequence as int;
            let ghost avail0 = *available_bytes as int;
            let ghost sm0 = small_messages@;
            let ghost smb0 = *small_messages_bytes as int;
            proof {
                lemma_rnew_refl(p0, seq0, channel_id, message_id, um0, current_time, resend_time, sm0);
                lemma_rsmall_ok_bound(sm0, smb0);
            }
//@before /\(\*packets\)\.push\(Packet::SmallReliable \{/
                        let ghost taken = *small_messages;
//@after /\(\*small_messages_bytes\) = 0;/
                        proof {
                            let pk = packets@.last();
                            assert(packets@.drop_last() =~= p0);
                            assert(pk == Packet::SmallReliable { sequence: seq0 as u64, channel_id: channel_id, messages: taken });
                            lemma_rnew_push(p0, p0, pk, seq0, channel_id, message_id, um0, current_time, resend_time, sm0);
                            lemma_packets_payload_push(p0, pk);
                            assert(p0.push(pk) =~= packets@);
                            lemma_rsmall_ok_empty();
                            assert(small_messages@ =~= Seq::<(u64, Bytes)>::empty());
                        }
//@before /\(\*small_messages_bytes\) \+= serialized_size;/
                    let ghost smx = small_messages@;
                    let ghost smbx = *small_messages_bytes as int;
                    proof { lemma_rsmall_ok_bound(smx, smbx); }
//@after /\(\*small_messages\)\.push\(\(message_id, message\.clone\(\)\)\);/
                    proof {
                        let pr = small_messages@.last();
                        assert(small_messages@.drop_last() =~= smx);
                        lemma_pairs_total_push(smx, pr);
                        assert(smx.push(pr) =~= small_messages@);
                        lemma_rsmall_ok_push(smx, pr, smbx);   // @C13 send_loop.message_joins_batch_only_if_it_fits_or_batch_is_empty
                    }
//@before /let start_index = \*next_slice_to_send;/
                    proof {
                        assert(*num_slices >= 2 && *num_slices <= 0x20_0000_0000_0000) by (nonlinear_arith)
                            requires (*num_slices - 1) * 1200 < message@.len(), message@.len() <= *num_slices * 1200, message@.len() > 1200,
                                message@.len() <= 0x7fff_ffff_ffff_ffff;
                    }
//@loop 1
                        invariant
                            *num_slices >= 2, *num_slices <= 0x20_0000_0000_0000,
                            um0 matches UnackedMessage::Sliced { message: m0, num_slices: n0, num_acked_slices: na0, next_slice_to_send: ns0, acked: a0, last_sent: ls0 },
                            __hi1 == *num_slices, *num_slices == um0->Sliced_num_slices,
                            *message == um0.msg(), *acked == um0->Sliced_acked,
                            last_sent@.len() == *num_slices,
                            forall|i: int| 0 <= i < *num_slices ==> {
                                let after = #[trigger] last_sent@[i];
                                after == um0->Sliced_last_sent@[i] || (after == Some(current_time) && !acked@[i] && due(um0->Sliced_last_sent@[i], current_time, resend_time))
                            },
                            forall|i: int| 0 <= i < *num_slices ==> ((#[trigger] last_sent@[i]) is Some ==> last_sent@[i]->Some_0.nanos <= current_time.nanos),
                            *next_slice_to_send <= *num_slices,
                            start_index <= *num_slices,
                            rnew_pkts_ok(p0, packets@, seq0, channel_id, message_id, um0, current_time, resend_time, sm0),
                            *packet_sequence == seq0 + (packets@.len() - p0.len()),
                            packets@.len() - p0.len() <= __k1,
                            packets@.len() - p0.len() <= avail0 - *available_bytes,
                            packets_payload(packets@) + *available_bytes == packets_payload(p0) + avail0,   // @C14 send_loop.inv_slice_payload_equals_budget_consumed
                            *available_bytes <= avail0,
                            small_messages@ == sm0, *small_messages_bytes == smb0,
                            forall|k: int| p0.len() <= k < packets@.len() ==>
                                (#[trigger] packets@[k] matches Packet::ReliableSlice { sequence, channel_id, slice } ==>
                                    slice.slice_index < last_sent@.len() && last_sent@[slice.slice_index as int] == Some(current_time)),
                        decreases __hi1 - __k1,
//@before /let start = i \* SLICE_SIZE;/
                        proof {
                            assert(i * 1200 < message@.len() && (i + 1) * 1200 <= *num_slices * 1200
                                && (i < *num_slices - 1 ==> (i + 1) * 1200 < message@.len())) by (nonlinear_arith)
                                requires 0 <= i < *num_slices, (*num_slices - 1) * 1200 < message@.len();
                        }
//@before /\(\*packets\)\.push\(Packet::ReliableSlice \{/
                        let ghost pkx = packets@;
//@before /last_sent\[i\] = Some\(current_time\);/
                        proof {
                            let pk = packets@.last();
                            assert(packets@.drop_last() =~= pkx);
                            assert(rpkt_ok(pk, seq0 + (pkx.len() - p0.len()), channel_id, message_id, um0, current_time, resend_time));   // @C01,C02,C03,C13,C15 send_loop.emitted_slice_is_unacked_due_and_cut_from_this_message
                            lemma_rnew_push(p0, pkx, pk, seq0, channel_id, message_id, um0, current_time, resend_time, sm0);
                            lemma_packets_payload_push(pkx, pk);
                            assert(pkx.push(pk) =~= packets@);
                        }
//@after /\*next_slice_to_send = i \+ 1 % \*num_slices;/
                        proof {
                            assert(1int % (*num_slices as int) == 1) by (nonlinear_arith) requires *num_slices >= 2;
                        }
//@endfn

} // verus!
fn main() {}
