// ---- shared specification: counting set flags in a Seq<bool> (lemmas only) ----
pub mod count_lemmas {
use vstd::prelude::*;
pub open spec fn count_true(s: Seq<bool>) -> nat
    decreases s.len(),
{
    if s.len() == 0 { 0 } else { count_true(s.drop_last()) + if s.last() { 1nat } else { 0nat } }
}

pub proof fn lemma_count_true_bounds(s: Seq<bool>)
    ensures
        count_true(s) <= s.len(),
        count_true(s) == s.len() <==> (forall|i: int| 0 <= i < s.len() ==> s[i]),
    decreases s.len(),
{
    if s.len() > 0 {
        lemma_count_true_bounds(s.drop_last());
        assert(forall|i: int| 0 <= i < s.len() - 1 ==> s.drop_last()[i] == s[i]);
        if count_true(s) == s.len() {
            assert(s.last());
            assert forall|i: int| 0 <= i < s.len() implies s[i] by {
                if i < s.len() - 1 { assert(s.drop_last()[i]); }
            }
        }
        if (forall|i: int| 0 <= i < s.len() ==> s[i]) {
            assert(forall|i: int| 0 <= i < s.len() - 1 ==> s.drop_last()[i]);
        }
    }
}

pub proof fn lemma_count_true_set(s: Seq<bool>, i: int)
    requires 0 <= i < s.len(), !s[i],
    ensures count_true(s.update(i, true)) == count_true(s) + 1,
    decreases s.len(),
{
    if i == s.len() - 1 {
        assert(s.update(i, true).drop_last() =~= s.drop_last());
    } else {
        lemma_count_true_set(s.drop_last(), i);
        assert(s.update(i, true).drop_last() =~= s.drop_last().update(i, true));
    }
}

pub broadcast proof fn lemma_count_true_all_false(s: Seq<bool>)
    requires forall|i: int| 0 <= i < s.len() ==> !s[i],
    ensures #[trigger] count_true(s) == 0,
    decreases s.len(),
{
    if s.len() > 0 {
        lemma_count_true_all_false(s.drop_last());
    }
}

} // mod count_lemmas
pub use count_lemmas::*;
// ---- end shared count specs ----
