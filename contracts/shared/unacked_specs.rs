// ---- shared specification: UnackedMessage (spec functions only) ----
impl UnackedMessage {
    pub open spec fn msg(&self) -> Bytes {
        match *self {
            UnackedMessage::Small { message, last_sent } => message,
            UnackedMessage::Sliced { message, num_slices, num_acked_slices, next_slice_to_send, acked, last_sent } => message,
        }
    }

    /// representation invariant of one queued message
    pub open spec fn wf(&self) -> bool {
        match *self {
            UnackedMessage::Small { message, last_sent } => message@.len() <= 1200,
            // (a Rust allocation never exceeds isize::MAX bytes; established by the `len()` calls of the constructors)
            UnackedMessage::Sliced { message, num_slices, num_acked_slices, next_slice_to_send, acked, last_sent } => {
                &&& message@.len() > 1200
                &&& message@.len() <= 0x7fff_ffff_ffff_ffff
                &&& (num_slices - 1) * 1200 < message@.len() <= num_slices * 1200
                &&& acked@.len() == num_slices
                &&& last_sent@.len() == num_slices
                &&& num_acked_slices == count_true(acked@)
                &&& num_acked_slices < num_slices
                &&& next_slice_to_send <= num_slices
            }
        }
    }
}

// ---- end shared UnackedMessage specs ----
