// ---- shared specification: SliceConstructor (spec functions and lemmas; no executable code) ----

/// upper limit on the slice count a constructor is created with (Packet::from_bytes enforces it on the wire)
pub open spec fn max_slices() -> int { 1_000_000 }

impl SliceConstructor {
    /// representation invariant of an *incomplete* reassembly
    pub open spec fn wf(&self) -> bool {
        &&& 1 <= self.num_slices <= max_slices()
        &&& self.received@.len() == self.num_slices
        &&& self.num_received_slices == count_true(self.received@)
        &&& self.num_received_slices < self.num_slices
        &&& (!self.received@[self.num_slices - 1] ==> self.sliced_data@.len() == self.num_slices * 1200)
        &&& (self.received@[self.num_slices - 1] ==>
                (self.num_slices - 1) * 1200 <= self.sliced_data@.len() <= self.num_slices * 1200)
    }

    /// the bytes slice `i` of message `m` carries on the wire
    pub open spec fn slice_of(m: Seq<u8>, n: int, i: int) -> Seq<u8> {
        slice_bytes(m, n, i)
    }

    /// `m` is a message the peer could have cut into `num_slices` slices
    pub open spec fn fits(&self, m: Seq<u8>) -> bool {
        (self.num_slices - 1) * 1200 < m.len() <= self.num_slices * 1200
    }

    /// everything received so far agrees with `m`
    pub open spec fn agrees(&self, m: Seq<u8>) -> bool {
        &&& self.fits(m)
        &&& (self.received@[self.num_slices - 1] ==> self.sliced_data@.len() == m.len())
        &&& forall|j: int| 0 <= j < m.len() && self.received@[j / 1200] ==> #[trigger] self.sliced_data@[j] == m[j]
    }

}
// ---- end shared SliceConstructor specs ----
