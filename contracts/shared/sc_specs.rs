// ---- shared specification: SliceConstructor (spec functions and lemmas; no executable code) ----
pub mod count_lemmas {
use vstd::prelude::*;
pub open spec fn count_true(s: Seq<bool>) -> nat
    decreases s.len(),
{
    if s.len() == 0 { 0 } else { count_true(s.drop_last()) + if s.last() { 1nat } else { 0nat } }
}

pub proof fn lemma_count_true_bounds(s: Seq<bool>)
    ensures
        count_true(s) <= s.len(),
        count_true(s) == s.len() <==> (forall|i: int| 0 <= i < s.len() ==> s[i]),
    decreases s.len(),
{
    if s.len() > 0 {
        lemma_count_true_bounds(s.drop_last());
        assert(forall|i: int| 0 <= i < s.len() - 1 ==> s.drop_last()[i] == s[i]);
        if count_true(s) == s.len() {
            assert(s.last());
            assert forall|i: int| 0 <= i < s.len() implies s[i] by {
                if i < s.len() - 1 { assert(s.drop_last()[i]); }
            }
        }
        if (forall|i: int| 0 <= i < s.len() ==> s[i]) {
            assert(forall|i: int| 0 <= i < s.len() - 1 ==> s.drop_last()[i]);
        }
    }
}

pub proof fn lemma_count_true_set(s: Seq<bool>, i: int)
    requires 0 <= i < s.len(), !s[i],
    ensures count_true(s.update(i, true)) == count_true(s) + 1,
    decreases s.len(),
{
    if i == s.len() - 1 {
        assert(s.update(i, true).drop_last() =~= s.drop_last());
    } else {
        lemma_count_true_set(s.drop_last(), i);
        assert(s.update(i, true).drop_last() =~= s.drop_last().update(i, true));
    }
}

pub broadcast proof fn lemma_count_true_all_false(s: Seq<bool>)
    requires forall|i: int| 0 <= i < s.len() ==> !s[i],
    ensures #[trigger] count_true(s) == 0,
    decreases s.len(),
{
    if s.len() > 0 {
        lemma_count_true_all_false(s.drop_last());
    }
}

} // mod count_lemmas
pub use count_lemmas::*;

/// upper limit on the slice count a constructor is created with (Packet::from_bytes enforces it on the wire)
pub open spec fn max_slices() -> int { 1_000_000 }

impl SliceConstructor {
    /// representation invariant of an *incomplete* reassembly
    pub open spec fn wf(&self) -> bool {
        &&& 1 <= self.num_slices <= max_slices()
        &&& self.received@.len() == self.num_slices
        &&& self.num_received_slices == count_true(self.received@)
        &&& self.num_received_slices < self.num_slices
        &&& (!self.received@[self.num_slices - 1] ==> self.sliced_data@.len() == self.num_slices * 1200)
        &&& (self.received@[self.num_slices - 1] ==>
                (self.num_slices - 1) * 1200 <= self.sliced_data@.len() <= self.num_slices * 1200)
    }

    /// the bytes slice `i` of message `m` carries on the wire
    pub open spec fn slice_of(m: Seq<u8>, n: int, i: int) -> Seq<u8> {
        m.subrange(i * 1200, if i == n - 1 { m.len() as int } else { (i + 1) * 1200 })
    }

    /// `m` is a message the peer could have cut into `num_slices` slices
    pub open spec fn fits(&self, m: Seq<u8>) -> bool {
        (self.num_slices - 1) * 1200 < m.len() <= self.num_slices * 1200
    }

    /// everything received so far agrees with `m`
    pub open spec fn agrees(&self, m: Seq<u8>) -> bool {
        &&& self.fits(m)
        &&& (self.received@[self.num_slices - 1] ==> self.sliced_data@.len() == m.len())
        &&& forall|j: int| 0 <= j < m.len() && self.received@[j / 1200] ==> #[trigger] self.sliced_data@[j] == m[j]
    }

}
// ---- end shared SliceConstructor specs ----
