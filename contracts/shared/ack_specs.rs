// ---- shared specification: pending-ack range list (spec functions and lemmas; no executable code) ----
pub open spec fn in_r(r: core::ops::Range<u64>, x: u64) -> bool {
    r.start <= x && x < r.end
}

#[verifier::opaque]
pub open spec fn acks_wf(s: Seq<core::ops::Range<u64>>) -> bool {
    &&& forall|i: int| 0 <= i < s.len() ==> (#[trigger] s[i]).start < s[i].end && s[i].end <= 0x4000_0000_0000_0000
    &&& forall|i: int, j: int| 0 <= i < j < s.len() ==> (#[trigger] s[i]).end < (#[trigger] s[j]).start   // ascending, disjoint, not adjacent
}

/// the range list denotes this set of packet sequence numbers (opaque: unfolded only inside the lemmas below)
#[verifier::opaque]
pub open spec fn acks_cover(s: Seq<core::ops::Range<u64>>, x: u64) -> bool {
    exists|i: int| 0 <= i < s.len() && in_r(#[trigger] s[i], x)
}

pub proof fn lemma_cover_push(s: Seq<core::ops::Range<u64>>, r: core::ops::Range<u64>)
    ensures forall|x: u64| #![trigger acks_cover(s.push(r), x)] acks_cover(s.push(r), x) <==> acks_cover(s, x) || in_r(r, x),
{
    reveal(acks_cover);
    let t = s.push(r);
    assert forall|x: u64| acks_cover(t, x) <==> acks_cover(s, x) || in_r(r, x) by {
        if acks_cover(t, x) {
            let i = choose|i: int| 0 <= i < t.len() && in_r(#[trigger] t[i], x);
            if i < s.len() { assert(in_r(s[i], x)); }
        }
        if acks_cover(s, x) {
            let i = choose|i: int| 0 <= i < s.len() && in_r(#[trigger] s[i], x);
            assert(in_r(t[i], x));
        }
        if in_r(r, x) { assert(in_r(t[s.len() as int], x)); }
    }
}

pub proof fn lemma_cover_insert(s: Seq<core::ops::Range<u64>>, k: int, r: core::ops::Range<u64>)
    requires 0 <= k <= s.len(),
    ensures forall|x: u64| #![trigger acks_cover(s.insert(k, r), x)] acks_cover(s.insert(k, r), x) <==> acks_cover(s, x) || in_r(r, x),
{
    reveal(acks_cover);
    let t = s.insert(k, r);
    assert forall|x: u64| acks_cover(t, x) <==> acks_cover(s, x) || in_r(r, x) by {
        if acks_cover(t, x) {
            let i = choose|i: int| 0 <= i < t.len() && in_r(#[trigger] t[i], x);
            if i < k { assert(in_r(s[i], x)); } else if i > k { assert(in_r(s[i - 1], x)); }
        }
        if acks_cover(s, x) {
            let i = choose|i: int| 0 <= i < s.len() && in_r(#[trigger] s[i], x);
            if i < k { assert(in_r(t[i], x)); } else { assert(in_r(t[i + 1], x)); }
        }
        if in_r(r, x) { assert(in_r(t[k], x)); }
    }
}

/// replacing range k by a range that contains it adds exactly the new elements
pub proof fn lemma_cover_widen(s: Seq<core::ops::Range<u64>>, k: int, r: core::ops::Range<u64>)
    requires 0 <= k < s.len(), r.start <= s[k].start, s[k].end <= r.end,
    ensures forall|x: u64| #![trigger acks_cover(s.update(k, r), x)] acks_cover(s.update(k, r), x) <==> acks_cover(s, x) || in_r(r, x),
{
    reveal(acks_cover);
    let t = s.update(k, r);
    assert forall|x: u64| acks_cover(t, x) <==> acks_cover(s, x) || in_r(r, x) by {
        if acks_cover(t, x) {
            let i = choose|i: int| 0 <= i < t.len() && in_r(#[trigger] t[i], x);
            if i != k { assert(in_r(s[i], x)); }
        }
        if acks_cover(s, x) {
            let i = choose|i: int| 0 <= i < s.len() && in_r(#[trigger] s[i], x);
            assert(in_r(t[i], x));
        }
        if in_r(r, x) { assert(in_r(t[k], x)); }
    }
}

/// removing a range that is contained in another range of the list loses nothing
pub proof fn lemma_cover_remove_redundant(s: Seq<core::ops::Range<u64>>, k: int, m: int)
    requires 0 <= k < s.len(), 0 <= m < s.len(), m != k, s[m].start <= s[k].start, s[k].end <= s[m].end,
    ensures forall|x: u64| #![trigger acks_cover(s.remove(k), x)] acks_cover(s.remove(k), x) <==> acks_cover(s, x),
{
    reveal(acks_cover);
    let t = s.remove(k);
    assert forall|x: u64| acks_cover(t, x) <==> acks_cover(s, x) by {
        if acks_cover(t, x) {
            let i = choose|i: int| 0 <= i < t.len() && in_r(#[trigger] t[i], x);
            if i < k { assert(in_r(s[i], x)); } else { assert(in_r(s[i + 1], x)); }
        }
        if acks_cover(s, x) {
            let i = choose|i: int| 0 <= i < s.len() && in_r(#[trigger] s[i], x);
            let j = if i == k { m } else { i };
            assert(in_r(s[j], x));
            if j < k { assert(in_r(t[j], x)); } else { assert(in_r(t[j - 1], x)); }
        }
    }
}

/// removing range k of a well-formed list removes exactly its elements
pub proof fn lemma_cover_remove(s: Seq<core::ops::Range<u64>>, k: int)
    requires 0 <= k < s.len(), acks_wf(s),
    ensures
        forall|x: u64| #![trigger acks_cover(s.remove(k), x)] acks_cover(s.remove(k), x) <==> acks_cover(s, x) && !in_r(s[k], x),
        acks_wf(s.remove(k)),
{
    reveal(acks_cover);
    reveal(acks_wf);
    let t = s.remove(k);
    assert forall|x: u64| acks_cover(t, x) <==> acks_cover(s, x) && !in_r(s[k], x) by {
        if acks_cover(t, x) {
            let i = choose|i: int| 0 <= i < t.len() && in_r(#[trigger] t[i], x);
            if i < k { assert(in_r(s[i], x)); } else { assert(in_r(s[i + 1], x)); }
        }
        if acks_cover(s, x) && !in_r(s[k], x) {
            let i = choose|i: int| 0 <= i < s.len() && in_r(#[trigger] s[i], x);
            if i < k { assert(in_r(t[i], x)); } else { assert(in_r(t[i - 1], x)); }
        }
    }
    assert forall|i: int, j: int| 0 <= i < j < t.len() implies (#[trigger] t[i]).end < (#[trigger] t[j]).start by {
        let i2 = if i < k { i } else { i + 1 };
        let j2 = if j < k { j } else { j + 1 };
        assert(s[i2].end < s[j2].start);
    }
}

/// in a well-formed list everything in range 0 is below everything in the other ranges
pub proof fn lemma_first_range_is_lowest(s: Seq<core::ops::Range<u64>>)
    requires acks_wf(s), s.len() >= 1,
    ensures forall|x: u64, y: u64| in_r(s[0], x) && acks_cover(s.remove(0), y) ==> x < y,
{
    reveal(acks_cover);
    reveal(acks_wf);
    let t = s.remove(0);
    assert forall|x: u64, y: u64| in_r(s[0], x) && acks_cover(t, y) implies x < y by {
        let i = choose|i: int| 0 <= i < t.len() && in_r(#[trigger] t[i], y);
        assert(t[i] == s[i + 1]);
        assert(s[0].end < s[i + 1].start);
    }
}
pub proof fn lemma_cover_intro(s: Seq<core::ops::Range<u64>>, i: int, x: u64)
    requires 0 <= i < s.len(), in_r(s[i], x),
    ensures acks_cover(s, x),
{
    reveal(acks_cover);
}

pub proof fn lemma_cover_empty(s: Seq<core::ops::Range<u64>>)
    requires s.len() == 0,
    ensures forall|x: u64| !acks_cover(s, x),
{
    reveal(acks_cover);
}

/// what add_pending_ack(q) must achieve, as one predicate over (list before, list after, q)
#[verifier::opaque]
pub open spec fn ack_added(o: Seq<core::ops::Range<u64>>, f: Seq<core::ops::Range<u64>>, q: u64) -> bool {
    &&& acks_wf(f)
    &&& f.len() <= 64
    &&& forall|x: u64| acks_cover(f, x) ==> x == q || acks_cover(o, x)
    &&& (o.len() < 64 ==> forall|x: u64| x == q || acks_cover(o, x) ==> acks_cover(f, x))
    &&& forall|x: u64, y: u64| (x == q || acks_cover(o, x)) && !acks_cover(f, x) && acks_cover(f, y) ==> x < y
}

pub open spec fn single(q: u64) -> core::ops::Range<u64> {
    core::ops::Range { start: q, end: (q + 1) as u64 }
}

/// cap at 64 ranges by dropping the lowest one
pub open spec fn capped(t: Seq<core::ops::Range<u64>>) -> Seq<core::ops::Range<u64>> {
    if t.len() > 64 { t.remove(0) } else { t }
}

/// t is well formed and denotes exactly old + {q}  ==>  capped(t) is a correct result
pub proof fn lemma_single(q: u64)
    requires q < 0x4000_0000_0000_0000,
    ensures forall|x: u64| #![trigger in_r(single(q), x)] in_r(single(q), x) <==> x == q,
{
}

pub proof fn lemma_added_from_exact(o: Seq<core::ops::Range<u64>>, t: Seq<core::ops::Range<u64>>, q: u64)
    requires
        acks_wf(t), t.len() <= o.len() + 1, o.len() <= 64,
        forall|x: u64| #![trigger acks_cover(t, x)] acks_cover(t, x) <==> x == q || acks_cover(o, x),
    ensures ack_added(o, capped(t), q),
{
    reveal(ack_added);
    if t.len() > 64 {
        lemma_cover_remove(t, 0);
        lemma_first_range_is_lowest(t);
        let f = t.remove(0);
        assert forall|x: u64, y: u64| (x == q || acks_cover(o, x)) && !acks_cover(f, x) && acks_cover(f, y) implies x < y by {
            assert(acks_cover(t, x));
            assert(in_r(t[0], x));
        }
    }
}

pub proof fn lemma_path_empty(o: Seq<core::ops::Range<u64>>, q: u64)
    requires o.len() == 0, q < 0x4000_0000_0000_0000,
    ensures ack_added(o, o.push(single(q)), q),
{
    let t = o.push(single(q));
    lemma_cover_push(o, single(q));
    lemma_single(q);
    lemma_cover_empty(o);
    assert(acks_wf(t)) by { reveal(acks_wf); }
    lemma_added_from_exact(o, t, q);
}

pub proof fn lemma_path_contained(o: Seq<core::ops::Range<u64>>, q: u64, i: int)
    requires acks_wf(o), o.len() <= 64, 0 <= i < o.len(), in_r(o[i], q),
    ensures ack_added(o, o, q),
{
    lemma_cover_intro(o, i, q);
    lemma_added_from_exact(o, o, q);
}

pub proof fn lemma_path_extend_left(o: Seq<core::ops::Range<u64>>, q: u64, i: int)
    requires
        acks_wf(o), o.len() <= 64, 0 <= i < o.len(), q < 0x4000_0000_0000_0000,
        forall|k: int| 0 <= k < i ==> (#[trigger] o[k]).end < q,
        o[i].start == q + 1,
    ensures ack_added(o, o.update(i, core::ops::Range { start: q, end: o[i].end }), q),
{
    let r = core::ops::Range { start: q, end: o[i].end };
    let t = o.update(i, r);
    assert(o[i].start < o[i].end) by { reveal(acks_wf); }
    lemma_cover_widen(o, i, r);
    assert(in_r(r, q));
    assert forall|x: u64| in_r(r, x) implies x == q || acks_cover(o, x) by {
        if x != q { assert(in_r(o[i], x)); lemma_cover_intro(o, i, x); }
    }
    assert(acks_wf(t)) by {
        reveal(acks_wf);
        assert forall|a: int, b: int| 0 <= a < b < t.len() implies (#[trigger] t[a]).end < (#[trigger] t[b]).start by {
            if b == i { assert(o[a].end < q); } else if a == i { assert(o[i].end < o[b].start); } else { assert(o[a].end < o[b].start); }
        }
    }
    lemma_added_from_exact(o, t, q);
}

pub proof fn lemma_path_extend_right(o: Seq<core::ops::Range<u64>>, q: u64, i: int)
    requires
        acks_wf(o), o.len() <= 64, 0 <= i < o.len(), q < 0x4000_0000_0000_0000,
        o[i].end == q,
        i + 1 < o.len() ==> o[i + 1].start != q + 1,
    ensures ack_added(o, o.update(i, core::ops::Range { start: o[i].start, end: (q + 1) as u64 }), q),
{
    let r = core::ops::Range { start: o[i].start, end: (q + 1) as u64 };
    let t = o.update(i, r);
    assert(o[i].start < o[i].end) by { reveal(acks_wf); }
    lemma_cover_widen(o, i, r);
    assert(in_r(r, q));
    assert forall|x: u64| in_r(r, x) implies x == q || acks_cover(o, x) by {
        if x != q { assert(in_r(o[i], x)); lemma_cover_intro(o, i, x); }
    }
    assert(acks_wf(t)) by {
        reveal(acks_wf);
        assert forall|a: int, b: int| 0 <= a < b < t.len() implies (#[trigger] t[a]).end < (#[trigger] t[b]).start by {
            if a == i { assert(o[i].end < o[b].start); if b == i + 1 { assert(o[b].start != q + 1); } else { assert(o[i + 1].start <= o[b].start) by { assert(o[i + 1].start < o[i + 1].end); assert(i + 1 < b ==> o[i + 1].end < o[b].start); } } }
            else if b == i { assert(o[a].end < o[i].start); } else { assert(o[a].end < o[b].start); }
        }
    }
    lemma_added_from_exact(o, t, q);
}

pub proof fn lemma_path_merge(o: Seq<core::ops::Range<u64>>, q: u64, i: int)
    requires
        acks_wf(o), o.len() <= 64, 0 <= i, i + 1 < o.len(), q < 0x4000_0000_0000_0000,
        o[i].end == q, o[i + 1].start == q + 1,
    ensures ack_added(o, o.update(i, core::ops::Range { start: o[i].start, end: o[i + 1].end }).remove(i + 1), q),
{
    let merged = core::ops::Range { start: o[i].start, end: o[i + 1].end };
    let u = o.update(i, merged);
    let t = u.remove(i + 1);
    assert(o[i].start < o[i].end && o[i + 1].start < o[i + 1].end) by { reveal(acks_wf); }
    lemma_cover_widen(o, i, merged);
    lemma_cover_remove_redundant(u, i + 1, i);
    assert forall|x: u64| in_r(merged, x) implies x == q || acks_cover(o, x) by {
        if x < q { assert(in_r(o[i], x)); lemma_cover_intro(o, i, x); } else if x > q { assert(in_r(o[i + 1], x)); lemma_cover_intro(o, i + 1, x); }
    }
    assert(in_r(merged, q));
    assert(acks_wf(t)) by {
        reveal(acks_wf);
        assert forall|a: int, b: int| 0 <= a < b < t.len() implies (#[trigger] t[a]).end < (#[trigger] t[b]).start by {
            let a2 = if a <= i { a } else { a + 1 };
            let b2 = if b <= i { b } else { b + 1 };
            if a == i { assert(o[i + 1].end < o[b2].start); } else { assert(o[a2].end < o[b2].start); }
        }
        assert forall|a: int| 0 <= a < t.len() implies (#[trigger] t[a]).start < t[a].end && t[a].end <= 0x4000_0000_0000_0000 by {
            let a2 = if a <= i { a } else { a + 1 };
            assert(o[a2].start < o[a2].end);
        }
    }
    lemma_added_from_exact(o, t, q);
}

pub proof fn lemma_path_insert(o: Seq<core::ops::Range<u64>>, q: u64, i: int)
    requires
        acks_wf(o), o.len() <= 64, 0 <= i < o.len(), q < 0x4000_0000_0000_0000,
        forall|k: int| 0 <= k < i ==> (#[trigger] o[k]).end < q,
        o[i].start > q + 1,
    ensures ack_added(o, capped(o.insert(i, single(q))), q),
{
    let t = o.insert(i, single(q));
    lemma_cover_insert(o, i, single(q));
    lemma_single(q);
    assert(acks_wf(t)) by {
        reveal(acks_wf);
        assert forall|a: int, b: int| 0 <= a < b < t.len() implies (#[trigger] t[a]).end < (#[trigger] t[b]).start by {
            let a2 = if a < i { a } else { a - 1 };
            let b2 = if b < i { b } else { b - 1 };
            if a != i && b != i { assert(o[a2].end < o[b2].start); }
            else if a == i { assert(o[i].start <= o[b2].start) by { assert(o[i].start < o[i].end); assert(i < b2 ==> o[i].end < o[b2].start); } }
            else { assert(o[a2].end < q); }
        }
        assert forall|a: int| 0 <= a < t.len() implies (#[trigger] t[a]).start < t[a].end && t[a].end <= 0x4000_0000_0000_0000 by {
            let a2 = if a < i { a } else { a - 1 };
            if a != i { assert(o[a2].start < o[a2].end); }
        }
    }
    lemma_added_from_exact(o, t, q);
}

pub proof fn lemma_path_append(o: Seq<core::ops::Range<u64>>, q: u64)
    requires
        acks_wf(o), o.len() <= 64, q < 0x4000_0000_0000_0000,
        forall|k: int| 0 <= k < o.len() ==> (#[trigger] o[k]).end < q,
    ensures ack_added(o, capped(o.push(single(q))), q),
{
    let t = o.push(single(q));
    lemma_cover_push(o, single(q));
    lemma_single(q);
    assert(acks_wf(t)) by {
        reveal(acks_wf);
        assert forall|a: int, b: int| 0 <= a < b < t.len() implies (#[trigger] t[a]).end < (#[trigger] t[b]).start by {
            if b == o.len() { assert(o[a].end < q); } else { assert(o[a].end < o[b].start); }
        }
    }
    lemma_added_from_exact(o, t, q);
}

/// what acked_largest(l) must achieve: exactly the sequence numbers above the horizon stay pending
#[verifier::opaque]
pub open spec fn ack_trimmed(o: Seq<core::ops::Range<u64>>, f: Seq<core::ops::Range<u64>>, l: u64) -> bool {
    &&& acks_wf(f)
    &&& f.len() <= o.len()
    &&& forall|x: u64| acks_cover(f, x) <==> acks_cover(o, x) && x > l
}

/// loop invariant of acked_largest: only ranges entirely at or below the horizon were dropped so far
#[verifier::opaque]
pub open spec fn ack_prefix_dropped(o: Seq<core::ops::Range<u64>>, s: Seq<core::ops::Range<u64>>, l: u64) -> bool {
    &&& acks_wf(s)
    &&& s.len() <= o.len()
    &&& forall|x: u64| acks_cover(s, x) ==> acks_cover(o, x)
    &&& forall|x: u64| acks_cover(o, x) && x > l ==> acks_cover(s, x)
}

pub proof fn lemma_trim_init(o: Seq<core::ops::Range<u64>>, l: u64)
    requires acks_wf(o),
    ensures ack_prefix_dropped(o, o, l),
{
    reveal(ack_prefix_dropped);
}

pub proof fn lemma_trim_drop_first(o: Seq<core::ops::Range<u64>>, s: Seq<core::ops::Range<u64>>, l: u64)
    requires ack_prefix_dropped(o, s, l), s.len() > 0, s[0].end <= l,
    ensures ack_prefix_dropped(o, s.remove(0), l),
{
    reveal(ack_prefix_dropped);
    lemma_cover_remove(s, 0);
}

pub proof fn lemma_trim_done_empty(o: Seq<core::ops::Range<u64>>, s: Seq<core::ops::Range<u64>>, l: u64)
    requires ack_prefix_dropped(o, s, l), s.len() == 0,
    ensures ack_trimmed(o, s, l),
{
    reveal(ack_prefix_dropped);
    reveal(ack_trimmed);
    lemma_cover_empty(s);
}

pub proof fn lemma_all_above_first_start(s: Seq<core::ops::Range<u64>>)
    requires acks_wf(s), s.len() > 0,
    ensures forall|x: u64| acks_cover(s, x) ==> x >= s[0].start,
{
    reveal(acks_cover);
    reveal(acks_wf);
    assert forall|x: u64| acks_cover(s, x) implies x >= s[0].start by {
        let i = choose|i: int| 0 <= i < s.len() && in_r(#[trigger] s[i], x);
        if i > 0 { assert(s[0].end < s[i].start); assert(s[0].start < s[0].end); }
    }
}

pub proof fn lemma_trim_done_below(o: Seq<core::ops::Range<u64>>, s: Seq<core::ops::Range<u64>>, l: u64)
    requires ack_prefix_dropped(o, s, l), s.len() > 0, l < s[0].start,
    ensures ack_trimmed(o, s, l),
{
    reveal(ack_prefix_dropped);
    reveal(ack_trimmed);
    lemma_all_above_first_start(s);
}

pub proof fn lemma_trim_done_cut(o: Seq<core::ops::Range<u64>>, s: Seq<core::ops::Range<u64>>, l: u64)
    requires ack_prefix_dropped(o, s, l), s.len() > 0, s[0].start <= l, l < s[0].end, l < 0x4000_0000_0000_0000,
    ensures
        l + 1 < s[0].end ==> ack_trimmed(o, s.update(0, core::ops::Range { start: (l + 1) as u64, end: s[0].end }), l),
        l + 1 >= s[0].end ==> ack_trimmed(o, s.remove(0), l),
{
    reveal(ack_prefix_dropped);
    reveal(ack_trimmed);
    lemma_cover_remove(s, 0);
    lemma_all_above_first_start(s);
    if l + 1 < s[0].end {
        let r = core::ops::Range { start: (l + 1) as u64, end: s[0].end };
        let t = s.update(0, r);
        assert(acks_wf(t)) by {
            reveal(acks_wf);
            assert forall|a: int, b: int| 0 <= a < b < t.len() implies (#[trigger] t[a]).end < (#[trigger] t[b]).start by {
                assert(s[a].end < s[b].start);
            }
            assert forall|a: int| 0 <= a < t.len() implies (#[trigger] t[a]).start < t[a].end && t[a].end <= 0x4000_0000_0000_0000 by {
                assert(s[a].start < s[a].end);
            }
        }
        // t = s minus the elements of s[0] that are <= l
        assert forall|x: u64| acks_cover(t, x) <==> acks_cover(s, x) && x > l by {
            reveal(acks_cover);
            if acks_cover(t, x) {
                let i = choose|i: int| 0 <= i < t.len() && in_r(#[trigger] t[i], x);
                if i == 0 { assert(in_r(s[0], x)); } else {
                    assert(in_r(s[i], x));
                    assert(s[0].end < s[i].start) by { reveal(acks_wf); }
                }
            }
            if acks_cover(s, x) && x > l {
                let i = choose|i: int| 0 <= i < s.len() && in_r(#[trigger] s[i], x);
                assert(in_r(t[i], x));
            }
        }
    } else {
        let t = s.remove(0);
        assert forall|x: u64| acks_cover(t, x) implies x > l by {
            reveal(acks_cover);
            reveal(acks_wf);
            let i = choose|i: int| 0 <= i < t.len() && in_r(#[trigger] t[i], x);
            assert(t[i] == s[i + 1]);
            assert(s[0].end < s[i + 1].start);
        }
    }
}
// ---- end shared ack specs ----
