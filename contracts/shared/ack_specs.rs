// ---- shared specification: pending-ack range list (spec functions only) ----
pub open spec fn acks_wf(s: Seq<core::ops::Range<u64>>) -> bool {
    &&& forall|i: int| 0 <= i < s.len() ==> (#[trigger] s[i]).start < s[i].end && s[i].end <= 0x4000_0000_0000_0000
    &&& forall|i: int, j: int| 0 <= i < j < s.len() ==> (#[trigger] s[i]).end < (#[trigger] s[j]).start   // ascending, disjoint, not adjacent
}

/// the range list denotes this set of packet sequence numbers
pub open spec fn acks_cover(s: Seq<core::ops::Range<u64>>, x: u64) -> bool {
    exists|i: int| 0 <= i < s.len() && (#[trigger] s[i]).start <= x && x < s[i].end
}
// ---- end shared ack specs ----
