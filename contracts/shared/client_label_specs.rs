// ---- shared specification: packets handed out by RenetClient::get_packets_to_send are labelled with channels of the send order ----
/// C03/C11: a message-carrying packet is labelled with a channel of the send order, of the matching kind (reliable kinds <-> a reliable channel)
pub open spec fn labelled_from_order(p: Packet, order: Seq<ChannelOrder>) -> bool {
    match p {
        Packet::SmallReliable { sequence, channel_id, messages } => exists|j: int| 0 <= j < order.len() && #[trigger] order[j] == ChannelOrder::Reliable(channel_id),
        Packet::ReliableSlice { sequence, channel_id, slice } => exists|j: int| 0 <= j < order.len() && #[trigger] order[j] == ChannelOrder::Reliable(channel_id),
        Packet::SmallUnreliable { sequence, channel_id, messages } => exists|j: int| 0 <= j < order.len() && #[trigger] order[j] == ChannelOrder::Unreliable(channel_id),
        Packet::UnreliableSlice { sequence, channel_id, slice } => exists|j: int| 0 <= j < order.len() && #[trigger] order[j] == ChannelOrder::Unreliable(channel_id),
        Packet::Ack { sequence, ack_ranges } => true,
    }
}
pub open spec fn all_labelled(s: Seq<Packet>, order: Seq<ChannelOrder>) -> bool {
    forall|i: int| 0 <= i < s.len() ==> labelled_from_order(#[trigger] s[i], order)
}
pub proof fn lemma_all_labelled_append(a: Seq<Packet>, b: Seq<Packet>, order: Seq<ChannelOrder>)
    requires all_labelled(a, order), all_labelled(b, order),
    ensures all_labelled(a + b, order),
{
    assert forall|i: int| 0 <= i < (a + b).len() implies labelled_from_order(#[trigger] (a + b)[i], order) by {
        if i >= a.len() { assert((a + b)[i] == b[i - a.len()]); }
    }
}

// ---- end shared client label specs ----
