// ---- shared specification: packets handed out by RenetClient::get_packets_to_send are labelled with channels of the send order ----
/// C03/C11: a message-carrying packet is labelled with a channel of the send order, of the matching kind (reliable kinds <-> a reliable channel)
pub open spec fn labelled_from_order(p: Packet, order: Seq<ChannelOrder>) -> bool {
    match p {
        Packet::SmallReliable { sequence, channel_id, messages } => exists|j: int| 0 <= j < order.len() && #[trigger] order[j] == ChannelOrder::Reliable(channel_id),
        Packet::ReliableSlice { sequence, channel_id, slice } => exists|j: int| 0 <= j < order.len() && #[trigger] order[j] == ChannelOrder::Reliable(channel_id),
        Packet::SmallUnreliable { sequence, channel_id, messages } => exists|j: int| 0 <= j < order.len() && #[trigger] order[j] == ChannelOrder::Unreliable(channel_id),
        Packet::UnreliableSlice { sequence, channel_id, slice } => exists|j: int| 0 <= j < order.len() && #[trigger] order[j] == ChannelOrder::Unreliable(channel_id),
        Packet::Ack { sequence, ack_ranges } => true,
    }
}
pub open spec fn all_labelled(s: Seq<Packet>, order: Seq<ChannelOrder>) -> bool {
    forall|i: int| 0 <= i < s.len() ==> labelled_from_order(#[trigger] s[i], order)
}
pub proof fn lemma_all_labelled_append(a: Seq<Packet>, b: Seq<Packet>, order: Seq<ChannelOrder>)
    requires all_labelled(a, order), all_labelled(b, order),
    ensures all_labelled(a + b, order),
{
    assert forall|i: int| 0 <= i < (a + b).len() implies labelled_from_order(#[trigger] (a + b)[i], order) by {
        if i >= a.len() { assert((a + b)[i] == b[i - a.len()]); }
    }
}

/// C08: what a reliable packet carries names queued messages (of the kind it carries them as) of the channel it is labelled with
pub open spec fn carried_in(p: Packet, chans: Map<u8, SendChannelReliable>) -> bool {
    match p {
        Packet::SmallReliable { sequence, channel_id, messages } => chans.contains_key(channel_id) && carried_ok(p, chans[channel_id].unacked_messages@),
        Packet::ReliableSlice { sequence, channel_id, slice } => chans.contains_key(channel_id) && carried_ok(p, chans[channel_id].unacked_messages@),
        _ => true,
    }
}
pub open spec fn all_carried_in(s: Seq<Packet>, chans: Map<u8, SendChannelReliable>) -> bool {
    forall|i: int| 0 <= i < s.len() ==> carried_in(#[trigger] s[i], chans)
}
/// the reliable send channels of `b` are those of `a` with the same queues up to what sending changes: same ids, same kinds, same slice counts
#[verifier::opaque]
pub open spec fn kinds_kept(a: Map<u8, SendChannelReliable>, b: Map<u8, SendChannelReliable>) -> bool {
    &&& a.dom() == b.dom()
    &&& forall|c: u8| #[trigger] a.contains_key(c) ==> a[c].unacked_messages@.dom() == b[c].unacked_messages@.dom()
            && a[c].next_reliable_message_id == b[c].next_reliable_message_id
            && forall|id: u64| #[trigger] a[c].unacked_messages@.contains_key(id) ==> same_kind(a[c].unacked_messages@[id], b[c].unacked_messages@[id])
}
pub proof fn lemma_carried_in_kinds_kept(s: Seq<Packet>, a: Map<u8, SendChannelReliable>, b: Map<u8, SendChannelReliable>)
    requires all_carried_in(s, a), kinds_kept(a, b),
    ensures all_carried_in(s, b),
{
    reveal(kinds_kept);
    assert forall|i: int| 0 <= i < s.len() implies carried_in(#[trigger] s[i], b) by {
        assert(carried_in(s[i], a));
        match s[i] {
            Packet::SmallReliable { sequence, channel_id, messages } => {
                assert(a.contains_key(channel_id));
                lemma_carried_same_kinds(seq![s[i]], Seq::<(u64, Bytes)>::empty(), a[channel_id].unacked_messages@, b[channel_id].unacked_messages@);
                assert(carried_ok(seq![s[i]][0], b[channel_id].unacked_messages@));
            },
            Packet::ReliableSlice { sequence, channel_id, slice } => {
                assert(a.contains_key(channel_id));
                lemma_carried_same_kinds(seq![s[i]], Seq::<(u64, Bytes)>::empty(), a[channel_id].unacked_messages@, b[channel_id].unacked_messages@);
                assert(carried_ok(seq![s[i]][0], b[channel_id].unacked_messages@));
            },
            _ => {},
        }
    }
}
pub proof fn lemma_all_carried_in_append(a: Seq<Packet>, b: Seq<Packet>, chans: Map<u8, SendChannelReliable>)
    requires all_carried_in(a, chans), all_carried_in(b, chans),
    ensures all_carried_in(a + b, chans),
{
    assert forall|i: int| 0 <= i < (a + b).len() implies carried_in(#[trigger] (a + b)[i], chans) by {
        if i >= a.len() { assert((a + b)[i] == b[i - a.len()]); }
    }
}
/// a record that satisfies the record invariant keeps doing so while the reliable send channels only change by sending (same ids, same kinds)
pub proof fn lemma_record_ok_kinds_kept(a: RenetClient, b: RenetClient, info: PacketSentInfo)
    requires a.record_ok(info), kinds_kept(a.send_reliable_channels@, b.send_reliable_channels@),
    ensures b.record_ok(info),
{
    reveal(kinds_kept);
    match info {
        PacketSentInfo::ReliableMessages { channel_id, message_ids } => {
            assert(a.send_reliable_channels@.contains_key(channel_id));
            assert forall|k: int| 0 <= k < message_ids@.len() implies
                (b.send_reliable_channels@[channel_id].unacked_messages@.contains_key(#[trigger] message_ids@[k])
                    ==> b.send_reliable_channels@[channel_id].unacked_messages@[message_ids@[k]] is Small) by {
                if b.send_reliable_channels@[channel_id].unacked_messages@.contains_key(message_ids@[k]) {
                    assert(a.send_reliable_channels@[channel_id].unacked_messages@.contains_key(message_ids@[k]));
                }
            }
        },
        PacketSentInfo::ReliableSliceMessage { channel_id, message_id, slice_index } => {
            assert(a.send_reliable_channels@.contains_key(channel_id));
            if b.send_reliable_channels@[channel_id].unacked_messages@.contains_key(message_id) {
                assert(a.send_reliable_channels@[channel_id].unacked_messages@.contains_key(message_id));
            }
        },
        _ => {},
    }
}
/// the records filed under `seq0 .. seq0 + n` exist and satisfy the record invariant of client `c`
#[verifier::opaque]
pub open spec fn new_records_ok(c: RenetClient, sp: Map<u64, PacketSent>, seq0: int, n: int) -> bool {
    forall|i: int| 0 <= i < n ==> sp.contains_key((seq0 + i) as u64) && c.record_ok((#[trigger] sp[(seq0 + i) as u64]).info)
}
pub proof fn lemma_kinds_kept_refl(a: Map<u8, SendChannelReliable>)
    ensures kinds_kept(a, a),
{ reveal(kinds_kept); }
pub proof fn lemma_kinds_kept_trans(a: Map<u8, SendChannelReliable>, b: Map<u8, SendChannelReliable>, c: Map<u8, SendChannelReliable>)
    requires kinds_kept(a, b), kinds_kept(b, c),
    ensures kinds_kept(a, c),
{
    reveal(kinds_kept);
    assert forall|ch: u8| #[trigger] a.contains_key(ch) implies a[ch].unacked_messages@.dom() == c[ch].unacked_messages@.dom()
            && a[ch].next_reliable_message_id == c[ch].next_reliable_message_id
            && forall|id: u64| #[trigger] a[ch].unacked_messages@.contains_key(id) ==> same_kind(a[ch].unacked_messages@[id], c[ch].unacked_messages@[id]) by {
        assert(b.contains_key(ch));
        assert forall|id: u64| #[trigger] a[ch].unacked_messages@.contains_key(id) implies same_kind(a[ch].unacked_messages@[id], c[ch].unacked_messages@[id]) by {
            assert(b[ch].unacked_messages@.contains_key(id));
        }
    }
}
/// one reliable channel replaced by what its get_packets_to_send leaves (same ids, kinds, id counter), every other channel untouched
pub proof fn lemma_kinds_kept_one(a: Map<u8, SendChannelReliable>, b: Map<u8, SendChannelReliable>, c: u8)
    requires a.dom() == b.dom(), a.contains_key(c),
        forall|x: u8| #[trigger] a.contains_key(x) && x != c ==> b[x] == a[x],
        a[c].unacked_messages@.dom() == b[c].unacked_messages@.dom(), a[c].next_reliable_message_id == b[c].next_reliable_message_id,
        forall|id: u64| #[trigger] a[c].unacked_messages@.contains_key(id) ==> same_kind(b[c].unacked_messages@[id], a[c].unacked_messages@[id]),
    ensures kinds_kept(a, b),
{
    reveal(kinds_kept);
    assert forall|x: u8| #[trigger] a.contains_key(x) implies a[x].unacked_messages@.dom() == b[x].unacked_messages@.dom()
            && a[x].next_reliable_message_id == b[x].next_reliable_message_id
            && forall|id: u64| #[trigger] a[x].unacked_messages@.contains_key(id) ==> same_kind(a[x].unacked_messages@[id], b[x].unacked_messages@[id]) by {
        if x != c { assert(b[x] == a[x]); }
    }
}
// ---- end shared client label specs ----
