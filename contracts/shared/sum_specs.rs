// ---- shared specification: sums over finite key sets (accounting invariants); proof code only ----
pub mod sum_lemmas {
use vstd::prelude::*;

pub open spec fn sum_over(s: Set<u64>, w: spec_fn(u64) -> nat) -> nat
    decreases s.len(),
{
    if s.len() == 0 { 0 } else { let k = s.choose(); w(k) + sum_over(s.remove(k), w) }
}

pub proof fn lemma_sum_remove(s: Set<u64>, w: spec_fn(u64) -> nat, k: u64)
    requires s.contains(k),
    ensures sum_over(s, w) == w(k) + sum_over(s.remove(k), w),
    decreases s.len(),
{
    let c = s.choose();
    if c != k {
        lemma_sum_remove(s.remove(c), w, k);
        lemma_sum_remove(s.remove(k), w, c);
        assert(s.remove(c).remove(k) =~= s.remove(k).remove(c));
    }
}

pub proof fn lemma_sum_insert(s: Set<u64>, w: spec_fn(u64) -> nat, k: u64)
    requires !s.contains(k),
    ensures sum_over(s.insert(k), w) == w(k) + sum_over(s, w),
{
    lemma_sum_remove(s.insert(k), w, k);
    assert(s.insert(k).remove(k) =~= s);
}

pub proof fn lemma_sum_ext(s: Set<u64>, w1: spec_fn(u64) -> nat, w2: spec_fn(u64) -> nat)
    requires forall|k: u64| s.contains(k) ==> w1(k) == w2(k),
    ensures sum_over(s, w1) == sum_over(s, w2),
    decreases s.len(),
{
    if s.len() != 0 {
        lemma_sum_ext(s.remove(s.choose()), w1, w2);
    }
}

pub proof fn lemma_sum_empty(w: spec_fn(u64) -> nat)
    ensures sum_over(Set::<u64>::empty(), w) == 0,
{}

pub proof fn lemma_sum_ge(s: Set<u64>, w: spec_fn(u64) -> nat, k: u64)
    requires s.contains(k),
    ensures sum_over(s, w) >= w(k),
{
    lemma_sum_remove(s, w, k);
}
} // mod sum_lemmas
pub use sum_lemmas::*;
// ---- end shared sums ----
