// ---- shared specification: the sent-packet records RenetClient::get_packets_to_send writes (C01/C08/C15: an acknowledgement of packet q
//      releases exactly what packet q carried, so the record filed under q must name exactly that) ----
/// `info` is the record of packet `p`: the same channel, the message ids in packet order (reliable messages), the message id and slice index
/// (reliable slice), nothing for unreliable kinds, the end of the newest range minus one for an acknowledgement packet
pub open spec fn info_matches(info: PacketSentInfo, p: Packet) -> bool {
    match p {
        Packet::SmallReliable { sequence, channel_id, messages } => {
            &&& info matches PacketSentInfo::ReliableMessages { channel_id: c, message_ids }
            &&& c == channel_id
            &&& message_ids@.len() == messages@.len()
            &&& forall|k: int| 0 <= k < messages@.len() ==> #[trigger] message_ids@[k] == messages@[k].0
        },
        Packet::ReliableSlice { sequence, channel_id, slice } => {
            info == (PacketSentInfo::ReliableSliceMessage { channel_id, message_id: slice.message_id, slice_index: slice.slice_index })
        },
        Packet::SmallUnreliable { sequence, channel_id, messages } => info is None,
        Packet::UnreliableSlice { sequence, channel_id, slice } => info is None,
        Packet::Ack { sequence, ack_ranges } => {
            &&& ack_ranges@.len() > 0
            &&& info == (PacketSentInfo::Ack { largest_acked_packet: (ack_ranges@.last().end - 1) as u64 })
        },
    }
}

/// the records of the first `n` packets of `pk` (numbered from `seq0`) are filed under their sequence numbers with time stamp `now`,
/// every other record is as in `pre`
#[verifier::opaque]
pub open spec fn records_written(pre: Map<u64, PacketSent>, post: Map<u64, PacketSent>, pk: Seq<Packet>, seq0: int, n: int, now: Duration) -> bool {
    &&& forall|i: int| 0 <= i < n ==> {
            &&& post.contains_key((seq0 + i) as u64)
            &&& (#[trigger] post[(seq0 + i) as u64]).sent_at == now
            &&& info_matches(post[(seq0 + i) as u64].info, pk[i])
        }
    &&& forall|q: u64| !(seq0 <= q < seq0 + n) ==> (#[trigger] post.contains_key(q) <==> pre.contains_key(q))
    &&& forall|q: u64| !(seq0 <= q < seq0 + n) && #[trigger] pre.contains_key(q) ==> post[q] == pre[q]
}
// ---- end shared client record specs ----
