// ---- shared specification: Slice (what the wire guarantees / what an honest sender produces) ----
/// the bytes slice `i` of `n` of message `m` carries
pub open spec fn slice_bytes(m: Seq<u8>, n: int, i: int) -> Seq<u8> {
    m.subrange(i * 1200, if i == n - 1 { m.len() as int } else { (i + 1) * 1200 })
}

impl Slice {
    /// what Packet::from_bytes guarantees about a decoded slice (nothing else may be assumed of a hostile peer)
    pub open spec fn wire_valid(&self) -> bool {
        1 <= self.num_slices <= 1_000_000
    }

    /// the slice is one the peer's sender produces for submitted message `m`
    pub open spec fn authentic(&self, m: Seq<u8>) -> bool {
        &&& m.len() > 1200     // the sender slices only messages longer than one slice
        &&& (self.num_slices - 1) * 1200 < m.len() <= self.num_slices * 1200
        &&& self.slice_index < self.num_slices
        &&& self.payload@ == slice_bytes(m, self.num_slices as int, self.slice_index as int)
    }
}
// ---- end shared Slice specs ----
