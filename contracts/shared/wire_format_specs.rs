// ---- shared specification: the renet wire format as two spec functions -- serializer `wire`, parser `parse` -- and their round trip ----
// `wire` is what the property calls encode, `parse` what it calls decode; the real Packet::to_bytes is proved to write `wire`
// (message-carrying kinds) and the real Packet::from_bytes to compute `parse` (all kinds), so the lemma
// parse(wire(p) ++ tail) == (p, tail) carries over to the code.  Values are compared through views (Bytes -> Seq<u8>).
pub open spec fn enc(v: u64) -> Seq<u8> { octets::varint_enc(v) }
pub open spec fn blob(b: Seq<u8>) -> Seq<u8> { enc(b.len() as u64) + b }
pub open spec fn lim() -> int { 0x4000_0000_0000_0000 }

/// mathematical content of a Packet
pub enum PacketV {
    SmallReliable { sequence: u64, channel_id: u8, messages: Seq<(u64, Seq<u8>)> },
    SmallUnreliable { sequence: u64, channel_id: u8, messages: Seq<Seq<u8>> },
    ReliableSlice { sequence: u64, channel_id: u8, message_id: u64, slice_index: u64, num_slices: u64, payload: Seq<u8> },
    UnreliableSlice { sequence: u64, channel_id: u8, message_id: u64, slice_index: u64, num_slices: u64, payload: Seq<u8> },
    /// ranges as (start, end) with exclusive end, ascending
    Ack { sequence: u64, ranges: Seq<(u64, u64)> },
}

pub open spec fn rel_msgs_view(s: Seq<(u64, Bytes)>) -> Seq<(u64, Seq<u8>)> { Seq::new(s.len(), |i: int| (s[i].0, s[i].1@)) }
pub open spec fn unrel_msgs_view(s: Seq<Bytes>) -> Seq<Seq<u8>> { Seq::new(s.len(), |i: int| s[i]@) }
pub open spec fn ranges_view(s: Seq<core::ops::Range<u64>>) -> Seq<(u64, u64)> { Seq::new(s.len(), |i: int| (s[i].start, s[i].end)) }

pub open spec fn pview(p: Packet) -> PacketV {
    match p {
        Packet::SmallReliable { sequence, channel_id, messages } => PacketV::SmallReliable { sequence, channel_id, messages: rel_msgs_view(messages@) },
        Packet::SmallUnreliable { sequence, channel_id, messages } => PacketV::SmallUnreliable { sequence, channel_id, messages: unrel_msgs_view(messages@) },
        Packet::ReliableSlice { sequence, channel_id, slice } => PacketV::ReliableSlice {
            sequence, channel_id, message_id: slice.message_id, slice_index: slice.slice_index as u64, num_slices: slice.num_slices as u64, payload: slice.payload@ },
        Packet::UnreliableSlice { sequence, channel_id, slice } => PacketV::UnreliableSlice {
            sequence, channel_id, message_id: slice.message_id, slice_index: slice.slice_index as u64, num_slices: slice.num_slices as u64, payload: slice.payload@ },
        Packet::Ack { sequence, ack_ranges } => PacketV::Ack { sequence, ranges: ranges_view(ack_ranges@) },
    }
}

// ---- serializer ----
pub open spec fn wire_rel_msgs(s: Seq<(u64, Seq<u8>)>) -> Seq<u8>
    decreases s.len(),
{
    if s.len() == 0 { Seq::empty() } else { wire_rel_msgs(s.drop_last()) + (enc(s.last().0) + blob(s.last().1)) }
}

pub open spec fn wire_unrel_msgs(s: Seq<Seq<u8>>) -> Seq<u8>
    decreases s.len(),
{
    if s.len() == 0 { Seq::empty() } else { wire_unrel_msgs(s.drop_last()) + blob(s.last()) }
}

/// `d` is the range list in descending order; entries from position `i` on, each written as (gap to the previous start, size - 1)
pub open spec fn wire_ack_tail(d: Seq<(u64, u64)>, i: int) -> Seq<u8>
    decreases d.len() - i,
{
    if i < 1 || i >= d.len() { Seq::empty() } else {
        enc((d[i - 1].0 - d[i].1 - 1) as u64) + enc((d[i].1 - 1 - d[i].0) as u64) + wire_ack_tail(d, i + 1)
    }
}

pub open spec fn wire_slice(t: u8, sequence: u64, channel_id: u8, message_id: u64, slice_index: u64, num_slices: u64, payload: Seq<u8>) -> Seq<u8> {
    seq![t] + enc(sequence) + seq![channel_id] + enc(message_id) + enc(slice_index) + enc(num_slices) + blob(payload)
}

#[verifier::opaque]
pub open spec fn wire(p: PacketV) -> Seq<u8> {
    match p {
        PacketV::SmallReliable { sequence, channel_id, messages } =>
            seq![0u8] + enc(sequence) + seq![channel_id] + octets::u16_be(messages.len() as u16) + wire_rel_msgs(messages),
        PacketV::SmallUnreliable { sequence, channel_id, messages } =>
            seq![1u8] + enc(sequence) + seq![channel_id] + octets::u16_be(messages.len() as u16) + wire_unrel_msgs(messages),
        PacketV::ReliableSlice { sequence, channel_id, message_id, slice_index, num_slices, payload } =>
            wire_slice(2, sequence, channel_id, message_id, slice_index, num_slices, payload),
        PacketV::UnreliableSlice { sequence, channel_id, message_id, slice_index, num_slices, payload } =>
            wire_slice(3, sequence, channel_id, message_id, slice_index, num_slices, payload),
        PacketV::Ack { sequence, ranges } => {
            let d = ranges.reverse();
            seq![4u8] + enc(sequence) + enc((d[0].1 - 1) as u64) + enc((d[0].1 - 1 - d[0].0) as u64) + enc((d.len() - 1) as u64) + wire_ack_tail(d, 1)
        },
    }
}

/// ascending, non-empty ranges below 2^62, disjoint and non-adjacent
#[verifier::opaque]
pub open spec fn rangesv_wf(s: Seq<(u64, u64)>) -> bool {
    &&& forall|i: int| 0 <= i < s.len() ==> (#[trigger] s[i]).0 < s[i].1 && s[i].1 <= lim()
    &&& forall|i: int, j: int| 0 <= i < j < s.len() ==> (#[trigger] s[i]).1 < (#[trigger] s[j]).0
}
#[verifier::opaque]
pub open spec fn rangesv_desc_wf(s: Seq<(u64, u64)>) -> bool {
    &&& forall|i: int| 0 <= i < s.len() ==> (#[trigger] s[i]).0 < s[i].1 && s[i].1 <= lim()
    &&& forall|i: int, j: int| 0 <= i < j < s.len() ==> (#[trigger] s[j]).1 < (#[trigger] s[i]).0
}

/// the packets the format can carry: every varint field below 2^62, counts within their fixed-width fields, and the limits
/// the decoder enforces (slice count 1..=1_000_000, reliable slice payload 1..=1200 bytes, well-formed ack ranges)
pub open spec fn wire_ok(p: PacketV) -> bool {
    match p {
        PacketV::SmallReliable { sequence, channel_id, messages } => sequence < lim() && messages.len() <= 65535
            && forall|i: int| 0 <= i < messages.len() ==> (#[trigger] messages[i]).0 < lim() && messages[i].1.len() < lim(),
        PacketV::SmallUnreliable { sequence, channel_id, messages } => sequence < lim() && messages.len() <= 65535
            && forall|i: int| 0 <= i < messages.len() ==> (#[trigger] messages[i]).len() < lim(),
        PacketV::ReliableSlice { sequence, channel_id, message_id, slice_index, num_slices, payload } =>
            sequence < lim() && message_id < lim() && slice_index < lim() && 1 <= num_slices <= 1_000_000 && 1 <= payload.len() <= 1200,
        PacketV::UnreliableSlice { sequence, channel_id, message_id, slice_index, num_slices, payload } =>
            sequence < lim() && message_id < lim() && slice_index < lim() && 1 <= num_slices <= 1_000_000 && payload.len() < lim(),
        PacketV::Ack { sequence, ranges } => sequence < lim() && 1 <= ranges.len() <= lim() && rangesv_wf(ranges),
    }
}

// ---- parser ----
pub open spec fn parse_rel_msgs(s: Seq<u8>, n: nat, acc: Seq<(u64, Seq<u8>)>) -> Option<(Seq<(u64, Seq<u8>)>, Seq<u8>)>
    decreases n,
{
    if n == 0 { Some((acc, s)) } else {
        match octets::p_var(s) {
            None => None,
            Some((id, s1)) => match octets::p_blob(s1) {
                None => None,
                Some((payload, s2)) => parse_rel_msgs(s2, (n - 1) as nat, acc.push((id, payload))),
            },
        }
    }
}

pub open spec fn parse_unrel_msgs(s: Seq<u8>, n: nat, acc: Seq<Seq<u8>>) -> Option<(Seq<Seq<u8>>, Seq<u8>)>
    decreases n,
{
    if n == 0 { Some((acc, s)) } else {
        match octets::p_blob(s) {
            None => None,
            Some((payload, s1)) => parse_unrel_msgs(s1, (n - 1) as nat, acc.push(payload)),
        }
    }
}

/// remaining `n` ranges after one whose start is `prev_start`; collected in descending order
pub open spec fn parse_ack_ranges(s: Seq<u8>, n: nat, prev_start: u64, acc: Seq<(u64, u64)>) -> Option<(Seq<(u64, u64)>, Seq<u8>)>
    decreases n,
{
    if n == 0 { Some((acc, s)) } else {
        match octets::p_var(s) {
            None => None,
            Some((gap, s1)) => if prev_start < 2 + gap { None } else {
                let range_end = (prev_start - gap - 2) as u64;
                match octets::p_var(s1) {
                    None => None,
                    Some((size, s2)) => if range_end < size { None } else {
                        let range_start = (range_end - size) as u64;
                        parse_ack_ranges(s2, (n - 1) as nat, range_start, acc.push((range_start, (range_end + 1) as u64)))
                    },
                }
            },
        }
    }
}

pub open spec fn parse_small_reliable(s1: Seq<u8>) -> Option<(PacketV, Seq<u8>)> {
    match octets::p_var(s1) { None => None, Some((sequence, s2)) =>
    match octets::p_u8(s2) { None => None, Some((channel_id, s3)) =>
    match octets::p_u16(s3) { None => None, Some((n, s4)) =>
    match parse_rel_msgs(s4, n as nat, Seq::empty()) { None => None, Some((messages, s5)) =>
        Some((PacketV::SmallReliable { sequence, channel_id, messages }, s5)) } } } }
}

pub open spec fn parse_small_unreliable(s1: Seq<u8>) -> Option<(PacketV, Seq<u8>)> {
    match octets::p_var(s1) { None => None, Some((sequence, s2)) =>
    match octets::p_u8(s2) { None => None, Some((channel_id, s3)) =>
    match octets::p_u16(s3) { None => None, Some((n, s4)) =>
    match parse_unrel_msgs(s4, n as nat, Seq::empty()) { None => None, Some((messages, s5)) =>
        Some((PacketV::SmallUnreliable { sequence, channel_id, messages }, s5)) } } } }
}

pub open spec fn parse_slice(s1: Seq<u8>, reliable: bool) -> Option<(PacketV, Seq<u8>)> {
    match octets::p_var(s1) { None => None, Some((sequence, s2)) =>
    match octets::p_u8(s2) { None => None, Some((channel_id, s3)) =>
    match octets::p_var(s3) { None => None, Some((message_id, s4)) =>
    match octets::p_var(s4) { None => None, Some((slice_index, s5)) =>
    match octets::p_var(s5) { None => None, Some((num_slices, s6)) =>
        if num_slices == 0 || num_slices > 1_000_000 { None } else {
    match octets::p_blob(s6) { None => None, Some((payload, s7)) =>
        if reliable && (payload.len() == 0 || payload.len() > 1200) { None }
        else if reliable { Some((PacketV::ReliableSlice { sequence, channel_id, message_id, slice_index, num_slices, payload }, s7)) }
        else { Some((PacketV::UnreliableSlice { sequence, channel_id, message_id, slice_index, num_slices, payload }, s7)) } } } } } } } }
}

pub open spec fn parse_ack(s1: Seq<u8>) -> Option<(PacketV, Seq<u8>)> {
    match octets::p_var(s1) { None => None, Some((sequence, s2)) =>
    match octets::p_var(s2) { None => None, Some((first_end, s3)) =>
    match octets::p_var(s3) { None => None, Some((first_size, s4)) =>
    match octets::p_var(s4) { None => None, Some((remaining, s5)) =>
        if first_end < first_size { None } else {
            let first_start = (first_end - first_size) as u64;
            match parse_ack_ranges(s5, remaining as nat, first_start, seq![(first_start, (first_end + 1) as u64)]) {
                None => None,
                Some((d, s6)) => Some((PacketV::Ack { sequence, ranges: d.reverse() }, s6)),
            }
        } } } } }
}

pub open spec fn parse(s: Seq<u8>) -> Option<(PacketV, Seq<u8>)> {
    match octets::p_u8(s) {
        None => None,
        Some((t, s1)) =>
            if t == 0 { parse_small_reliable(s1) }
            else if t == 1 { parse_small_unreliable(s1) }
            else if t == 2 { parse_slice(s1, true) }
            else if t == 3 { parse_slice(s1, false) }
            else if t == 4 { parse_ack(s1) }
            else { None },
    }
}

// ---- primitive round trips ----
pub proof fn lemma_p_u8(v: u8, x: Seq<u8>)
    ensures octets::p_u8(seq![v] + x) == Some((v, x)),
{
    assert((seq![v] + x).skip(1) =~= x);
}

pub proof fn lemma_p_u16(v: u16, x: Seq<u8>)
    ensures octets::p_u16(octets::u16_be(v) + x) == Some((v, x)),
{
    let s = octets::u16_be(v) + x;
    assert(s.skip(2) =~= x);
    assert(s[0] == (v / 256) as u8 && s[1] == (v % 256) as u8);
    assert(octets::be16((v / 256) as u8, (v % 256) as u8) == v);
}

pub proof fn lemma_p_var(v: u64, x: Seq<u8>)
    requires v < lim(),
    ensures octets::p_var(enc(v) + x) == Some((v, x)),
{
    broadcast use octets::axiom_varint_enc_len, octets::axiom_varint_roundtrip;
    assert(octets::varint_dec(octets::varint_enc(v) + x) == Some((v, octets::varint_len_spec(v))));
    assert((enc(v) + x).skip(octets::varint_len_spec(v) as int) =~= x);
}

pub proof fn lemma_p_blob(b: Seq<u8>, x: Seq<u8>)
    requires b.len() < lim(),
    ensures octets::p_blob(blob(b) + x) == Some((b, x)),
{
    broadcast use octets::axiom_varint_enc_len, octets::axiom_varint_roundtrip;
    let len = b.len() as u64;
    let s = blob(b) + x;
    assert(s =~= octets::varint_enc(len) + (b + x));
    assert(octets::varint_dec(octets::varint_enc(len) + (b + x)) == Some((len, octets::varint_len_spec(len))));
    let n = octets::varint_len_spec(len);
    assert(s.subrange(n as int, n + len) =~= b);
    assert(s.skip(n + len) =~= x);
}

// ---- message lists ----
pub proof fn lemma_wire_rel_front(s: Seq<(u64, Seq<u8>)>)
    requires s.len() > 0,
    ensures wire_rel_msgs(s) == (enc(s[0].0) + blob(s[0].1)) + wire_rel_msgs(s.drop_first()),
    decreases s.len(),
{
    if s.len() == 1 {
        assert(s.drop_last() =~= Seq::<(u64, Seq<u8>)>::empty());
        assert(s.drop_first() =~= Seq::<(u64, Seq<u8>)>::empty());
        assert(wire_rel_msgs(s.drop_last()) =~= Seq::<u8>::empty());
        assert(wire_rel_msgs(s) =~= (enc(s[0].0) + blob(s[0].1)) + wire_rel_msgs(s.drop_first()));
    } else {
        lemma_wire_rel_front(s.drop_last());
        assert(s.drop_last().drop_first() =~= s.drop_first().drop_last());
        assert(s.drop_first().last() == s.last());
        assert(s.drop_last()[0] == s[0]);
        let item0 = enc(s[0].0) + blob(s[0].1);
        let iteml = enc(s.last().0) + blob(s.last().1);
        let mid = wire_rel_msgs(s.drop_first().drop_last());
        assert(wire_rel_msgs(s) == (item0 + mid) + iteml);
        assert(wire_rel_msgs(s.drop_first()) == mid + iteml);
        assert((item0 + mid) + iteml =~= item0 + (mid + iteml));
    }
}

pub proof fn lemma_wire_unrel_front(s: Seq<Seq<u8>>)
    requires s.len() > 0,
    ensures wire_unrel_msgs(s) == blob(s[0]) + wire_unrel_msgs(s.drop_first()),
    decreases s.len(),
{
    if s.len() == 1 {
        assert(s.drop_last() =~= Seq::<Seq<u8>>::empty());
        assert(s.drop_first() =~= Seq::<Seq<u8>>::empty());
        assert(wire_unrel_msgs(s.drop_last()) =~= Seq::<u8>::empty());
        assert(wire_unrel_msgs(s) =~= blob(s[0]) + wire_unrel_msgs(s.drop_first()));
    } else {
        lemma_wire_unrel_front(s.drop_last());
        assert(s.drop_last().drop_first() =~= s.drop_first().drop_last());
        assert(s.drop_first().last() == s.last());
        assert(s.drop_last()[0] == s[0]);
        let item0 = blob(s[0]);
        let iteml = blob(s.last());
        let mid = wire_unrel_msgs(s.drop_first().drop_last());
        assert(wire_unrel_msgs(s) == (item0 + mid) + iteml);
        assert(wire_unrel_msgs(s.drop_first()) == mid + iteml);
        assert((item0 + mid) + iteml =~= item0 + (mid + iteml));
    }
}

pub proof fn lemma_parse_rel_roundtrip(m: Seq<(u64, Seq<u8>)>, tail: Seq<u8>, acc: Seq<(u64, Seq<u8>)>)
    requires forall|i: int| 0 <= i < m.len() ==> (#[trigger] m[i]).0 < lim() && m[i].1.len() < lim(),
    ensures parse_rel_msgs(wire_rel_msgs(m) + tail, m.len(), acc) == Some((acc + m, tail)),
    decreases m.len(),
{
    if m.len() == 0 {
        assert(wire_rel_msgs(m) + tail =~= tail);
        assert(acc + m =~= acc);
    } else {
        lemma_wire_rel_front(m);
        let rest = m.drop_first();
        let x2 = wire_rel_msgs(rest) + tail;
        let x1 = blob(m[0].1) + x2;
        assert(wire_rel_msgs(m) + tail =~= enc(m[0].0) + x1);
        lemma_p_var(m[0].0, x1);
        lemma_p_blob(m[0].1, x2);
        assert forall|i: int| 0 <= i < rest.len() implies (#[trigger] rest[i]).0 < lim() && rest[i].1.len() < lim() by {
            assert(rest[i] == m[i + 1]);
        }
        lemma_parse_rel_roundtrip(rest, tail, acc.push(m[0]));
        assert(acc.push(m[0]) + rest =~= acc + m);
    }
}

pub proof fn lemma_parse_unrel_roundtrip(m: Seq<Seq<u8>>, tail: Seq<u8>, acc: Seq<Seq<u8>>)
    requires forall|i: int| 0 <= i < m.len() ==> (#[trigger] m[i]).len() < lim(),
    ensures parse_unrel_msgs(wire_unrel_msgs(m) + tail, m.len(), acc) == Some((acc + m, tail)),
    decreases m.len(),
{
    if m.len() == 0 {
        assert(wire_unrel_msgs(m) + tail =~= tail);
        assert(acc + m =~= acc);
    } else {
        lemma_wire_unrel_front(m);
        let rest = m.drop_first();
        let x1 = wire_unrel_msgs(rest) + tail;
        assert(wire_unrel_msgs(m) + tail =~= blob(m[0]) + x1);
        lemma_p_blob(m[0], x1);
        assert forall|i: int| 0 <= i < rest.len() implies (#[trigger] rest[i]).len() < lim() by {
            assert(rest[i] == m[i + 1]);
        }
        lemma_parse_unrel_roundtrip(rest, tail, acc.push(m[0]));
        assert(acc.push(m[0]) + rest =~= acc + m);
    }
}

// ---- ack ranges ----
pub proof fn lemma_parse_ack_roundtrip(d: Seq<(u64, u64)>, i: int, tail: Seq<u8>)
    requires rangesv_desc_wf(d), 1 <= i <= d.len(),
    ensures parse_ack_ranges(wire_ack_tail(d, i) + tail, (d.len() - i) as nat, d[i - 1].0, d.take(i)) == Some((d, tail)),
    decreases d.len() - i,
{
    reveal(rangesv_desc_wf);
    if i == d.len() {
        assert(wire_ack_tail(d, i) + tail =~= tail);
        assert(d.take(i) =~= d);
    } else {
        let gap = (d[i - 1].0 - d[i].1 - 1) as u64;
        let size = (d[i].1 - 1 - d[i].0) as u64;
        assert(d[i].1 < d[i - 1].0);
        let x2 = wire_ack_tail(d, i + 1) + tail;
        let x1 = enc(size) + x2;
        assert(wire_ack_tail(d, i) + tail =~= enc(gap) + x1);
        lemma_p_var(gap, x1);
        lemma_p_var(size, x2);
        lemma_parse_ack_roundtrip(d, i + 1, tail);
        assert(d.take(i).push((d[i].0, d[i].1)) =~= d.take(i + 1));
    }
}

pub proof fn lemma_reverse_wf(s: Seq<(u64, u64)>)
    requires rangesv_wf(s),
    ensures rangesv_desc_wf(s.reverse()), s.reverse().reverse() == s,
{
    reveal(rangesv_wf); reveal(rangesv_desc_wf);
    let r = s.reverse();
    assert forall|i: int| 0 <= i < r.len() implies (#[trigger] r[i]).0 < r[i].1 && r[i].1 <= lim() by {
        assert(r[i] == s[s.len() - 1 - i]);
    }
    assert forall|i: int, j: int| 0 <= i < j < r.len() implies (#[trigger] r[j]).1 < (#[trigger] r[i]).0 by {
        assert(r[i] == s[s.len() - 1 - i]);
        assert(r[j] == s[s.len() - 1 - j]);
    }
    assert(r.reverse() =~= s);
}

// ---- the round trip (C16): whatever the format can carry parses back to itself, leaving exactly the bytes that followed ----
pub proof fn lemma_roundtrip(p: PacketV, tail: Seq<u8>)
    requires wire_ok(p),
    ensures parse(wire(p) + tail) == Some((p, tail)),           // @C16 wire_format.parse_inverts_wire
{
    reveal(wire);
    match p {
        PacketV::SmallReliable { sequence, channel_id, messages } => {
            lemma_small_reliable_roundtrip(sequence, channel_id, messages, tail);
        },
        PacketV::SmallUnreliable { sequence, channel_id, messages } => {
            lemma_small_unreliable_roundtrip(sequence, channel_id, messages, tail);
        },
        PacketV::ReliableSlice { sequence, channel_id, message_id, slice_index, num_slices, payload } => {
            lemma_slice_roundtrip(2, sequence, channel_id, message_id, slice_index, num_slices, payload, tail);
        },
        PacketV::UnreliableSlice { sequence, channel_id, message_id, slice_index, num_slices, payload } => {
            lemma_slice_roundtrip(3, sequence, channel_id, message_id, slice_index, num_slices, payload, tail);
        },
        PacketV::Ack { sequence, ranges } => {
            lemma_ack_roundtrip(sequence, ranges, tail);
        },
    }
}

pub proof fn lemma_small_reliable_roundtrip(sequence: u64, channel_id: u8, messages: Seq<(u64, Seq<u8>)>, tail: Seq<u8>)
    requires wire_ok(PacketV::SmallReliable { sequence, channel_id, messages }),
    ensures parse(wire(PacketV::SmallReliable { sequence, channel_id, messages }) + tail) == Some((PacketV::SmallReliable { sequence, channel_id, messages }, tail)),
{
    reveal(wire);
    let p = PacketV::SmallReliable { sequence, channel_id, messages };
    let x4 = wire_rel_msgs(messages) + tail;
    let x3 = octets::u16_be(messages.len() as u16) + x4;
    let x2 = seq![channel_id] + x3;
    let x1 = enc(sequence) + x2;
    assert(wire(p) + tail =~= seq![0u8] + x1);
    lemma_p_u8(0, x1);
    lemma_p_var(sequence, x2);
    lemma_p_u8(channel_id, x3);
    lemma_p_u16(messages.len() as u16, x4);
    lemma_parse_rel_roundtrip(messages, tail, Seq::empty());
    assert(Seq::<(u64, Seq<u8>)>::empty() + messages =~= messages);
    assert(parse_small_reliable(x1) == Some((p, tail)));
}

pub proof fn lemma_small_unreliable_roundtrip(sequence: u64, channel_id: u8, messages: Seq<Seq<u8>>, tail: Seq<u8>)
    requires wire_ok(PacketV::SmallUnreliable { sequence, channel_id, messages }),
    ensures parse(wire(PacketV::SmallUnreliable { sequence, channel_id, messages }) + tail) == Some((PacketV::SmallUnreliable { sequence, channel_id, messages }, tail)),
{
    reveal(wire);
    let p = PacketV::SmallUnreliable { sequence, channel_id, messages };
    let x4 = wire_unrel_msgs(messages) + tail;
    let x3 = octets::u16_be(messages.len() as u16) + x4;
    let x2 = seq![channel_id] + x3;
    let x1 = enc(sequence) + x2;
    assert(wire(p) + tail =~= seq![1u8] + x1);
    lemma_p_u8(1, x1);
    lemma_p_var(sequence, x2);
    lemma_p_u8(channel_id, x3);
    lemma_p_u16(messages.len() as u16, x4);
    lemma_parse_unrel_roundtrip(messages, tail, Seq::empty());
    assert(Seq::<Seq<u8>>::empty() + messages =~= messages);
    assert(parse_small_unreliable(x1) == Some((p, tail)));
}

pub proof fn lemma_ack_roundtrip(sequence: u64, ranges: Seq<(u64, u64)>, tail: Seq<u8>)
    requires wire_ok(PacketV::Ack { sequence, ranges }),
    ensures parse(wire(PacketV::Ack { sequence, ranges }) + tail) == Some((PacketV::Ack { sequence, ranges }, tail)),
{
    reveal(rangesv_desc_wf);
    reveal(wire);
    let p = PacketV::Ack { sequence, ranges };
    lemma_reverse_wf(ranges);
    let d = ranges.reverse();
    let first_end = (d[0].1 - 1) as u64;
    let first_size = (d[0].1 - 1 - d[0].0) as u64;
    let x5 = wire_ack_tail(d, 1) + tail;
    let x4 = enc((d.len() - 1) as u64) + x5;
    let x3 = enc(first_size) + x4;
    let x2 = enc(first_end) + x3;
    let x1 = enc(sequence) + x2;
    assert(wire(p) + tail =~= seq![4u8] + x1);
    lemma_p_u8(4, x1);
    lemma_p_var(sequence, x2);
    lemma_p_var(first_end, x3);
    lemma_p_var(first_size, x4);
    lemma_p_var((d.len() - 1) as u64, x5);
    lemma_parse_ack_roundtrip(d, 1, tail);
    assert(d.take(1) =~= seq![(d[0].0, d[0].1)]);
    assert(d[0] == (d[0].0, d[0].1));
    assert(parse_ack(x1) == Some((p, tail)));
}

pub proof fn lemma_slice_roundtrip(t: u8, sequence: u64, channel_id: u8, message_id: u64, slice_index: u64, num_slices: u64, payload: Seq<u8>, tail: Seq<u8>)
    requires t == 2 || t == 3, sequence < lim(), message_id < lim(), slice_index < lim(), 1 <= num_slices <= 1_000_000, payload.len() < lim(),
        t == 2 ==> 1 <= payload.len() <= 1200,
    ensures parse(wire_slice(t, sequence, channel_id, message_id, slice_index, num_slices, payload) + tail) == Some((
        if t == 2 { PacketV::ReliableSlice { sequence, channel_id, message_id, slice_index, num_slices, payload } }
        else { PacketV::UnreliableSlice { sequence, channel_id, message_id, slice_index, num_slices, payload } }, tail)),
{
    let x6 = blob(payload) + tail;
    let x5 = enc(num_slices) + x6;
    let x4 = enc(slice_index) + x5;
    let x3 = enc(message_id) + x4;
    let x2 = seq![channel_id] + x3;
    let x1 = enc(sequence) + x2;
    assert(wire_slice(t, sequence, channel_id, message_id, slice_index, num_slices, payload) + tail =~= seq![t] + x1);
    lemma_p_u8(t, x1);
    lemma_p_var(sequence, x2);
    lemma_p_u8(channel_id, x3);
    lemma_p_var(message_id, x4);
    lemma_p_var(slice_index, x5);
    lemma_p_var(num_slices, x6);
    lemma_p_blob(payload, tail);
}
/// entries 1..i of the descending list, in writing order (what the encoder has put after i-1 rounds of its loop)
pub open spec fn wire_ack_upto(d: Seq<(u64, u64)>, i: int) -> Seq<u8>
    decreases i,
{
    if i <= 1 || i > d.len() { Seq::empty() } else {
        wire_ack_upto(d, i - 1) + (enc((d[i - 2].0 - d[i - 1].1 - 1) as u64) + enc((d[i - 1].1 - 1 - d[i - 1].0) as u64))
    }
}

pub proof fn lemma_ack_upto_tail(d: Seq<(u64, u64)>, i: int)
    requires 1 <= i <= d.len(),
    ensures wire_ack_upto(d, i) + wire_ack_tail(d, i) == wire_ack_tail(d, 1),
    decreases i,
{
    if i == 1 {
        assert(wire_ack_upto(d, 1) + wire_ack_tail(d, 1) =~= wire_ack_tail(d, 1));
    } else {
        lemma_ack_upto_tail(d, i - 1);
        let e = enc((d[i - 2].0 - d[i - 1].1 - 1) as u64) + enc((d[i - 1].1 - 1 - d[i - 1].0) as u64);
        assert(wire_ack_upto(d, i) == wire_ack_upto(d, i - 1) + e);
        assert(wire_ack_tail(d, i - 1) =~= e + wire_ack_tail(d, i));
        assert((wire_ack_upto(d, i - 1) + e) + wire_ack_tail(d, i) =~= wire_ack_upto(d, i - 1) + (e + wire_ack_tail(d, i)));
    }
}

/// ranges_wf of the concrete list is rangesv_wf of its view
pub proof fn lemma_ranges_view_wf(s: Seq<core::ops::Range<u64>>)
    requires ranges_wf(s),
    ensures rangesv_wf(ranges_view(s)),
{
    reveal(rangesv_wf); reveal(ranges_wf);
    let v = ranges_view(s);
    assert forall|i: int| 0 <= i < v.len() implies (#[trigger] v[i]).0 < v[i].1 && v[i].1 <= lim() by { assert(s[i].start < s[i].end); }
    assert forall|i: int, j: int| 0 <= i < j < v.len() implies (#[trigger] v[i]).1 < (#[trigger] v[j]).0 by { assert(s[i].end < s[j].start); }
}

pub proof fn lemma_ack_upto_len(d: Seq<(u64, u64)>, i: int)
    requires rangesv_desc_wf(d), 1 <= i <= d.len(),
    ensures wire_ack_upto(d, i).len() <= 16 * (i - 1),
    decreases i,
{
    reveal(rangesv_desc_wf);
    broadcast use octets::axiom_varint_enc_len;
    if i > 1 {
        lemma_ack_upto_len(d, i - 1);
        assert(d[i - 1].1 < d[i - 2].0);
    }
}

/// C13: an acknowledgement packet with at most 64 well-formed ranges serializes to at most 1 + 4*8 + 63*16 = 1041 bytes
pub proof fn lemma_ack_wire_len_bound(sequence: u64, ranges: Seq<(u64, u64)>)
    requires wire_ok(PacketV::Ack { sequence, ranges }), ranges.len() <= 64,
    ensures wire(PacketV::Ack { sequence, ranges }).len() <= 1041,          // @C13 wire_format.ack_packet_at_most_1041_bytes
{
    reveal(rangesv_wf); reveal(rangesv_desc_wf);
    reveal(wire);
    broadcast use octets::axiom_varint_enc_len;
    lemma_reverse_wf(ranges);
    let d = ranges.reverse();
    lemma_ack_upto_tail(d, d.len() as int);
    lemma_ack_upto_len(d, d.len() as int);
    assert(wire_ack_tail(d, d.len() as int) =~= Seq::<u8>::empty());
    assert(wire_ack_upto(d, d.len() as int) + Seq::<u8>::empty() =~= wire_ack_upto(d, d.len() as int));
    assert(wire_ack_tail(d, 1).len() <= 16 * 63);
}

pub mod seq_assoc {
    use vstd::prelude::*;
    verus! {
    /// concatenation re-associated to the right (used as a rewrite rule inside to_bytes, so that byte strings built put by put
    /// and the nested definition of `wire` meet in one normal form without extensionality reasoning)
    pub broadcast proof fn lemma_concat_assoc(a: Seq<u8>, b: Seq<u8>, c: Seq<u8>)
        ensures #[trigger] ((a + b) + c) == a + (b + c),
    { assert(((a + b) + c) =~= a + (b + c)); }
    }
}
// ---- end shared wire format specs ----
