// ---- shared specification: body of the 'messages loop of SendChannelReliable::get_packets_to_send (rule D6) ----
pub open spec fn due(last: Option<Duration>, now: Duration, resend: Duration) -> bool {
    last is None || now.nanos - last->Some_0.nanos >= resend.nanos
}

impl UnackedMessage {
    /// no transmission timestamp lies in the future (time only moves forward between calls)
    pub open spec fn sent_not_after(&self, now: Duration) -> bool {
        match *self {
            UnackedMessage::Small { message, last_sent } => last_sent is Some ==> last_sent->Some_0.nanos <= now.nanos,
            UnackedMessage::Sliced { message, num_slices, num_acked_slices, next_slice_to_send, acked, last_sent } =>
                forall|i: int| 0 <= i < last_sent@.len() ==> ((#[trigger] last_sent@[i]) is Some ==> last_sent@[i]->Some_0.nanos <= now.nanos),
        }
    }
}

/// what one packet produced for message (id, um) at time `now` must satisfy
pub open spec fn rpkt_ok(p: Packet, seq: int, channel: u8, id: u64, um: UnackedMessage, now: Duration, resend: Duration) -> bool {
    &&& packet_fits(p)
    &&& packet_seq(p) == seq
    &&& match p {
            Packet::SmallReliable { sequence, channel_id, messages } => channel_id == channel,
            Packet::ReliableSlice { sequence, channel_id, slice } => {
                &&& channel_id == channel
                &&& slice.message_id == id
                &&& um matches UnackedMessage::Sliced { message, num_slices, num_acked_slices, next_slice_to_send, acked, last_sent }
                &&& slice.num_slices == um->Sliced_num_slices
                &&& slice.authentic(um.msg()@)                                           // C01/C03: cut from this very message
                &&& !um->Sliced_acked@[slice.slice_index as int]                         // C15: never once acknowledged
                &&& due(um->Sliced_last_sent@[slice.slice_index as int], now, resend)    // C15: not before resend_time
            },
            _ => false,
        }
}

#[verifier::opaque]
pub open spec fn rnew_pkts_ok(old_p: Seq<Packet>, new_p: Seq<Packet>, seq0: int, channel: u8, id: u64, um: UnackedMessage, now: Duration, resend: Duration,
    pending: Seq<(u64, Bytes)>) -> bool {
    &&& old_p.len() <= new_p.len()
    &&& new_p.subrange(0, old_p.len() as int) =~= old_p
    &&& forall|i: int| old_p.len() <= i < new_p.len() ==> {
            ||| rpkt_ok(#[trigger] new_p[i], seq0 + (i - old_p.len()), channel, id, um, now, resend)
            // or it is the flush of the batch that was pending on entry
            ||| (new_p[i] matches Packet::SmallReliable { sequence, channel_id, messages } && messages@ == pending
                    && packet_seq(new_p[i]) == seq0 + (i - old_p.len()) && channel_id == channel)
        }
}

pub proof fn lemma_rnew_refl(p: Seq<Packet>, seq0: int, channel: u8, id: u64, um: UnackedMessage, now: Duration, resend: Duration, pending: Seq<(u64, Bytes)>)
    ensures rnew_pkts_ok(p, p, seq0, channel, id, um, now, resend, pending),
{
    reveal(rnew_pkts_ok);
}

pub proof fn lemma_rnew_push(old_p: Seq<Packet>, cur: Seq<Packet>, pk: Packet, seq0: int, channel: u8, id: u64, um: UnackedMessage, now: Duration, resend: Duration,
    pending: Seq<(u64, Bytes)>)
    requires
        rnew_pkts_ok(old_p, cur, seq0, channel, id, um, now, resend, pending),
        rpkt_ok(pk, seq0 + (cur.len() - old_p.len()), channel, id, um, now, resend)
            || (pk matches Packet::SmallReliable { sequence, channel_id, messages } && messages@ == pending
                    && packet_seq(pk) == seq0 + (cur.len() - old_p.len()) && channel_id == channel),
    ensures rnew_pkts_ok(old_p, cur.push(pk), seq0, channel, id, um, now, resend, pending),
{
    reveal(rnew_pkts_ok);
    assert(cur.push(pk).subrange(0, old_p.len() as int) =~= cur.subrange(0, old_p.len() as int));
}

/// the pending batch of small reliable messages and its serialized size
#[verifier::opaque]
pub open spec fn rsmall_ok(s: Seq<(u64, Bytes)>, bytes: int) -> bool {
    &&& bytes == small_reliable_body(s)
    &&& (bytes <= 1200 || s.len() == 1)
    &&& bytes <= 1210
    &&& forall|j: int| 0 <= j < s.len() ==> (#[trigger] s[j]).1@.len() <= 1200 && s[j].0 < 0x4000_0000_0000_0000
}

pub proof fn lemma_rsmall_ok_empty()
    ensures rsmall_ok(Seq::<(u64, Bytes)>::empty(), 0),
{
    reveal(rsmall_ok);
}

pub proof fn lemma_rsmall_ok_bound(s: Seq<(u64, Bytes)>, bytes: int)
    requires rsmall_ok(s, bytes),
    ensures 0 <= bytes <= 1210, s.len() == 0 ==> bytes == 0,
{
    reveal(rsmall_ok);
}

pub proof fn lemma_rsmall_ok_push(s: Seq<(u64, Bytes)>, p: (u64, Bytes), bytes: int)
    requires rsmall_ok(s, bytes), p.1@.len() <= 1200, p.0 < 0x4000_0000_0000_0000,
        bytes + p.1@.len() + octets::varint_len_spec(p.1@.len() as u64) + octets::varint_len_spec(p.0) <= 1200 || s.len() == 0,
    ensures rsmall_ok(s.push(p), bytes + p.1@.len() + octets::varint_len_spec(p.1@.len() as u64) + octets::varint_len_spec(p.0)),
{
    reveal(rsmall_ok);
    lemma_small_reliable_body_push(s, p);
}

pub proof fn lemma_small_reliable_body_ge_len(s: Seq<(u64, Bytes)>)
    ensures small_reliable_body(s) >= 2 * s.len(),
    decreases s.len(),
{
    if s.len() > 0 { lemma_small_reliable_body_ge_len(s.drop_last()); }
}

pub proof fn lemma_rsmall_packet_fits(s: Vec<(u64, Bytes)>, bytes: int, sequence: u64, channel_id: u8)
    requires rsmall_ok(s@, bytes),
    ensures packet_fits(Packet::SmallReliable { sequence, channel_id, messages: s }),
{
    reveal(rsmall_ok);
    lemma_small_reliable_body_ge_len(s@);
}
// ---- end shared send-loop specs ----
