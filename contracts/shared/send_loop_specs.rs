// ---- shared specification: body of the 'messages loop of SendChannelReliable::get_packets_to_send (rule D6) ----
pub open spec fn due(last: Option<Duration>, now: Duration, resend: Duration) -> bool {
    last is None || now.nanos - last->Some_0.nanos >= resend.nanos
}

impl UnackedMessage {
    /// no transmission timestamp lies in the future (time only moves forward between calls)
    pub open spec fn sent_not_after(&self, now: Duration) -> bool {
        match *self {
            UnackedMessage::Small { message, last_sent } => last_sent is Some ==> last_sent->Some_0.nanos <= now.nanos,
            UnackedMessage::Sliced { message, num_slices, num_acked_slices, next_slice_to_send, acked, last_sent } =>
                forall|i: int| 0 <= i < last_sent@.len() ==> ((#[trigger] last_sent@[i]) is Some ==> last_sent@[i]->Some_0.nanos <= now.nanos),
        }
    }
}

/// what one packet produced for message (id, um) at time `now` must satisfy
pub open spec fn rpkt_ok(p: Packet, seq: int, channel: u8, id: u64, um: UnackedMessage, now: Duration, resend: Duration) -> bool {
    &&& packet_fits(p)
    &&& packet_seq(p) == seq
    &&& match p {
            // inside the loop a SmallReliable packet is only ever the flush of the pending batch (second disjunct of rnew_pkts_ok)
            Packet::SmallReliable { sequence, channel_id, messages } => false,
            Packet::ReliableSlice { sequence, channel_id, slice } => {
                &&& channel_id == channel
                &&& slice.message_id == id
                &&& slice.slice_index < um->Sliced_num_slices
                &&& um matches UnackedMessage::Sliced { message, num_slices, num_acked_slices, next_slice_to_send, acked, last_sent }
                &&& slice.num_slices == um->Sliced_num_slices
                &&& slice.authentic(um.msg()@)                                           // C01/C03: cut from this very message
                &&& !um->Sliced_acked@[slice.slice_index as int]                         // C15: never once acknowledged
                &&& due(um->Sliced_last_sent@[slice.slice_index as int], now, resend)    // C15: not before resend_time
            },
            _ => false,
        }
}

#[verifier::opaque]
pub open spec fn rnew_pkts_ok(old_p: Seq<Packet>, new_p: Seq<Packet>, seq0: int, channel: u8, id: u64, um: UnackedMessage, now: Duration, resend: Duration,
    pending: Seq<(u64, Bytes)>) -> bool {
    &&& old_p.len() <= new_p.len()
    &&& new_p.subrange(0, old_p.len() as int) =~= old_p
    &&& forall|i: int| old_p.len() <= i < new_p.len() ==> {
            ||| rpkt_ok(#[trigger] new_p[i], seq0 + (i - old_p.len()), channel, id, um, now, resend)
            // or it is the flush of the batch that was pending on entry
            ||| (new_p[i] matches Packet::SmallReliable { sequence, channel_id, messages } && messages@ == pending
                    && packet_seq(new_p[i]) == seq0 + (i - old_p.len()) && channel_id == channel)
        }
}

pub proof fn lemma_rnew_refl(p: Seq<Packet>, seq0: int, channel: u8, id: u64, um: UnackedMessage, now: Duration, resend: Duration, pending: Seq<(u64, Bytes)>)
    ensures rnew_pkts_ok(p, p, seq0, channel, id, um, now, resend, pending),
{
    reveal(rnew_pkts_ok);
}

pub proof fn lemma_rnew_push(old_p: Seq<Packet>, cur: Seq<Packet>, pk: Packet, seq0: int, channel: u8, id: u64, um: UnackedMessage, now: Duration, resend: Duration,
    pending: Seq<(u64, Bytes)>)
    requires
        rnew_pkts_ok(old_p, cur, seq0, channel, id, um, now, resend, pending),
        rpkt_ok(pk, seq0 + (cur.len() - old_p.len()), channel, id, um, now, resend)
            || (pk matches Packet::SmallReliable { sequence, channel_id, messages } && messages@ == pending
                    && packet_seq(pk) == seq0 + (cur.len() - old_p.len()) && channel_id == channel),
    ensures rnew_pkts_ok(old_p, cur.push(pk), seq0, channel, id, um, now, resend, pending),
{
    reveal(rnew_pkts_ok);
    assert(cur.push(pk).subrange(0, old_p.len() as int) =~= cur.subrange(0, old_p.len() as int));
}

/// two queue entries are of the same kind (small / sliced into the same number of slices): sending never changes that
pub open spec fn same_kind(a: UnackedMessage, b: UnackedMessage) -> bool {
    &&& (a is Small) == (b is Small)
    &&& (a is Sliced ==> a->Sliced_num_slices == b->Sliced_num_slices)
}
/// every id of a batch names a queued small message
pub open spec fn batch_ids_small(b: Seq<(u64, Bytes)>, m: Map<u64, UnackedMessage>) -> bool {
    forall|j: int| 0 <= j < b.len() ==> m.contains_key((#[trigger] b[j]).0) && m[b[j].0] is Small
}
/// C08: what a packet carries names queued messages of the kind it carries them as (small messages in a batch, a slice of a sliced message
/// with an index inside its slice count) -- the premise under which an acknowledgement of that packet releases the right thing
pub open spec fn carried_ok(p: Packet, m: Map<u64, UnackedMessage>) -> bool {
    match p {
        Packet::SmallReliable { sequence, channel_id, messages } => batch_ids_small(messages@, m),
        Packet::ReliableSlice { sequence, channel_id, slice } => m.contains_key(slice.message_id) && m[slice.message_id] is Sliced
            && slice.slice_index < m[slice.message_id]->Sliced_num_slices,
        _ => true,
    }
}
pub open spec fn all_carried_ok(s: Seq<Packet>, m: Map<u64, UnackedMessage>) -> bool {
    forall|i: int| 0 <= i < s.len() ==> carried_ok(#[trigger] s[i], m)
}
pub proof fn lemma_carried_same_kinds(s: Seq<Packet>, b: Seq<(u64, Bytes)>, m1: Map<u64, UnackedMessage>, m2: Map<u64, UnackedMessage>)
    requires all_carried_ok(s, m1), batch_ids_small(b, m1), m1.dom() == m2.dom(),
        forall|id: u64| #[trigger] m1.contains_key(id) ==> same_kind(m1[id], m2[id]),
    ensures all_carried_ok(s, m2), batch_ids_small(b, m2),
{
    assert forall|i: int| 0 <= i < s.len() implies carried_ok(#[trigger] s[i], m2) by {
        assert(carried_ok(s[i], m1));
        match s[i] {
            Packet::SmallReliable { sequence, channel_id, messages } => {
                assert forall|j: int| 0 <= j < messages@.len() implies m2.contains_key((#[trigger] messages@[j]).0) && m2[messages@[j].0] is Small by {
                    assert(m1.contains_key(messages@[j].0));
                }
            },
            Packet::ReliableSlice { sequence, channel_id, slice } => { assert(m1.contains_key(slice.message_id)); },
            _ => {},
        }
    }
    assert forall|j: int| 0 <= j < b.len() implies m2.contains_key((#[trigger] b[j]).0) && m2[b[j].0] is Small by {
        assert(m1.contains_key(b[j].0));
    }
}
/// the pending batch of small reliable messages and its serialized size
#[verifier::opaque]
pub open spec fn rsmall_ok(s: Seq<(u64, Bytes)>, bytes: int) -> bool {
    &&& bytes == small_reliable_body(s)
    &&& (bytes <= 1200 || s.len() == 1)
    &&& bytes <= 1210
    &&& forall|j: int| 0 <= j < s.len() ==> (#[trigger] s[j]).1@.len() <= 1200 && s[j].0 < 0x4000_0000_0000_0000
}

pub proof fn lemma_rsmall_ok_empty()
    ensures rsmall_ok(Seq::<(u64, Bytes)>::empty(), 0),
{
    reveal(rsmall_ok);
}

pub proof fn lemma_rsmall_ok_bound(s: Seq<(u64, Bytes)>, bytes: int)
    requires rsmall_ok(s, bytes),
    ensures 0 <= bytes <= 1210, s.len() == 0 ==> bytes == 0,
{
    reveal(rsmall_ok);
}

pub proof fn lemma_rsmall_ok_push(s: Seq<(u64, Bytes)>, p: (u64, Bytes), bytes: int)
    requires rsmall_ok(s, bytes), p.1@.len() <= 1200, p.0 < 0x4000_0000_0000_0000,
        bytes + p.1@.len() + octets::varint_len_spec(p.1@.len() as u64) + octets::varint_len_spec(p.0) <= 1200 || s.len() == 0,
    ensures rsmall_ok(s.push(p), bytes + p.1@.len() + octets::varint_len_spec(p.1@.len() as u64) + octets::varint_len_spec(p.0)),
{
    reveal(rsmall_ok);
    lemma_small_reliable_body_push(s, p);
}

pub proof fn lemma_small_reliable_body_ge_len(s: Seq<(u64, Bytes)>)
    ensures small_reliable_body(s) >= 2 * s.len(),
    decreases s.len(),
{
    if s.len() > 0 { lemma_small_reliable_body_ge_len(s.drop_last()); }
}

pub proof fn lemma_rsmall_packet_fits(s: Vec<(u64, Bytes)>, bytes: int, sequence: u64, channel_id: u8)
    requires rsmall_ok(s@, bytes),
    ensures packet_fits(Packet::SmallReliable { sequence, channel_id, messages: s }),
{
    reveal(rsmall_ok);
    lemma_small_reliable_body_ge_len(s@);
}
// ---- end shared send-loop specs ----
