// ---- shared specification: invariant of the 'messages loop of SendChannelReliable::get_packets_to_send (rule D18) ----
/// state of the loop: what has been produced so far, the pending batch, the two counters
pub struct RLoop {
    pub packets: Seq<Packet>,
    pub small: Seq<(u64, Bytes)>,
    pub small_bytes: int,
    pub seq: int,
    pub avail: int,
}

/// the loop invariant after `steps` iterations, relative to the counters at loop entry
pub open spec fn rloop_inv(st: RLoop, seq0: int, avail0: int, steps: int) -> bool {
    &&& all_sendable(st.packets, seq0)
    &&& forall|i: int| 0 <= i < st.packets.len() ==> (#[trigger] st.packets[i] is SmallReliable || st.packets[i] is ReliableSlice)
    &&& st.seq == seq0 + st.packets.len()
    &&& rsmall_ok(st.small, st.small_bytes)
    &&& packets_payload(st.packets) + pairs_total(st.small) + st.avail == avail0
    &&& 0 <= st.avail
    &&& st.packets.len() <= (avail0 - st.avail) + steps
    &&& 0 <= steps
}

/// one packet the loop body produced (or the flush of the batch pending on entry) is sendable
pub proof fn lemma_rpkt_sendable(p: Packet, seq: int, channel: u8, id: u64, um: UnackedMessage, now: Duration, resend: Duration)
    requires rpkt_ok(p, seq, channel, id, um, now, resend), um.wf(), id < 0x4000_0000_0000_0000, 0 <= seq < 0x4000_0000_0000_0000,
    ensures sendable(p), packet_seq(p) == seq, p is SmallReliable || p is ReliableSlice,
{
    match p {
        Packet::ReliableSlice { sequence, channel_id, slice } => {
            let m = um.msg()@;
            assert(slice.authentic(m));
            assert(slice.num_slices < 0x4000_0000_0000_0000) by (nonlinear_arith)
                requires (slice.num_slices - 1) * 1200 < m.len(), m.len() <= 0x7fff_ffff_ffff_ffff;
        },
        _ => {},
    }
}

pub proof fn lemma_rflush_sendable(s: Vec<(u64, Bytes)>, bytes: int, sequence: u64, channel_id: u8)
    requires rsmall_ok(s@, bytes), sequence < 0x4000_0000_0000_0000,
    ensures sendable(Packet::SmallReliable { sequence, channel_id, messages: s }),
{
    lemma_rsmall_packet_fits(s, bytes, sequence, channel_id);
    reveal(rsmall_ok);
}

/// the body's contract (U9) carries the invariant from one iteration to the next
pub proof fn lemma_rloop_step(pre: RLoop, post: RLoop, seq0: int, avail0: int, steps: int, channel: u8, id: u64, um: UnackedMessage, now: Duration, resend: Duration)
    requires
        rloop_inv(pre, seq0, avail0, steps),
        um.wf(), id < 0x4000_0000_0000_0000,
        seq0 + avail0 + steps + 2 <= 0x4000_0000_0000_0000,
        // what reliable_send_loop_body ensures
        rnew_pkts_ok(pre.packets, post.packets, pre.seq, channel, id, um, now, resend, pre.small),
        post.seq == pre.seq + (post.packets.len() - pre.packets.len()),
        post.packets.len() - pre.packets.len() <= (pre.avail - post.avail) + 1,
        packets_payload(post.packets) + pairs_total(post.small) + post.avail == packets_payload(pre.packets) + pairs_total(pre.small) + pre.avail,
        0 <= post.avail <= pre.avail,
        rsmall_ok(post.small, post.small_bytes),
    ensures
        rloop_inv(post, seq0, avail0, steps + 1),
{
    reveal(rnew_pkts_ok);
    reveal(all_sendable);
    assert forall|i: int| 0 <= i < post.packets.len() implies sendable(#[trigger] post.packets[i]) && packet_seq(post.packets[i]) == seq0 + i
        && (post.packets[i] is SmallReliable || post.packets[i] is ReliableSlice) by {
        if i < pre.packets.len() {
            assert(post.packets.subrange(0, pre.packets.len() as int)[i] == post.packets[i]);
            assert(post.packets[i] == pre.packets[i]);
        } else {
            let sq = pre.seq + (i - pre.packets.len());
            if rpkt_ok(post.packets[i], sq, channel, id, um, now, resend) {
                lemma_rpkt_sendable(post.packets[i], sq, channel, id, um, now, resend);
            } else {
                match post.packets[i] {
                    Packet::SmallReliable { sequence, channel_id, messages } => {
                        lemma_rflush_sendable(messages, pre.small_bytes, sequence, channel_id);
                    },
                    _ => {},
                }
            }
        }
    }
}
/// one loop step keeps "everything carried names a queued message of the right kind"
pub proof fn lemma_rloop_step_carried(pre: Seq<Packet>, post: Seq<Packet>, pre_small: Seq<(u64, Bytes)>, post_small: Seq<(u64, Bytes)>, seq: int, channel: u8,
    id: u64, um: UnackedMessage, now: Duration, resend: Duration, m: Map<u64, UnackedMessage>)
    requires
        all_carried_ok(pre, m), batch_ids_small(pre_small, m),
        rnew_pkts_ok(pre, post, seq, channel, id, um, now, resend, pre_small),
        m.contains_key(id), same_kind(um, m[id]),
        post_small == pre_small
            || (um is Small && post_small.len() >= 1 && post_small.last().0 == id && (post_small.drop_last() == pre_small || post_small.len() == 1)),
    ensures all_carried_ok(post, m), batch_ids_small(post_small, m),
{
    reveal(rnew_pkts_ok);
    assert forall|i: int| 0 <= i < post.len() implies carried_ok(#[trigger] post[i], m) by {
        if i < pre.len() {
            assert(post.subrange(0, pre.len() as int)[i] == post[i]);
            assert(post[i] == pre[i]);
        }
    }
    assert forall|j: int| 0 <= j < post_small.len() implies m.contains_key((#[trigger] post_small[j]).0) && m[post_small[j].0] is Small by {
        if post_small != pre_small {
            if j < post_small.len() - 1 {
                assert(post_small.len() != 1);
                assert(post_small.drop_last()[j] == post_small[j]);
            }
        }
    }
}
/// the packets one loop step appends are labelled with this channel's id (both disjuncts of rnew_pkts_ok say so)
pub proof fn lemma_rloop_step_channel(pre: Seq<Packet>, post: Seq<Packet>, seq: int, channel: u8, id: u64, um: UnackedMessage, now: Duration, resend: Duration,
    pending: Seq<(u64, Bytes)>)
    requires all_from_channel(pre, channel), rnew_pkts_ok(pre, post, seq, channel, id, um, now, resend, pending),
    ensures all_from_channel(post, channel),
{
    reveal(rnew_pkts_ok);
    assert forall|i: int| 0 <= i < post.len() implies packet_channel(#[trigger] post[i]) == Some(channel) by {
        if i < pre.len() {
            assert(post.subrange(0, pre.len() as int)[i] == post[i]);
            assert(post[i] == pre[i]);
        }
    }
}
/// sending changes no stored byte: the accounting sum is the same
pub proof fn lemma_accounted_same_msgs(m1: Map<u64, UnackedMessage>, m2: Map<u64, UnackedMessage>)
    requires m1.dom() == m2.dom(), forall|id: u64| #[trigger] m1.contains_key(id) ==> m2[id].msg() == m1[id].msg(),
    ensures SendChannelReliable::accounted_of(m1) == SendChannelReliable::accounted_of(m2),
{
    assert forall|k: u64| m1.dom().contains(k) implies SendChannelReliable::len_w(m1)(k) == SendChannelReliable::len_w(m2)(k) by {
        assert(m1.contains_key(k) && m2.contains_key(k));
    }
    lemma_sum_ext(m1.dom(), SendChannelReliable::len_w(m1), SendChannelReliable::len_w(m2));
}
// ---- end shared reliable send summary specs ----
