// ---- shared specification: what RenetClient::get_packets_to_send hands to the transport ----
/// a packet the serializer accepts and whose size is bounded: fields below 2^62 (octets' varint range), message part within the
/// channels' packing bound, or an acknowledgement packet with 1..=64 well-formed ranges
pub open spec fn sendable(p: Packet) -> bool {
    &&& packet_encodable(p)
    &&& (p matches Packet::Ack { sequence, ack_ranges } ==> ack_ranges@.len() <= 64)
    &&& (!(p is Ack) ==> packet_fits(p))
}

/// number of bytes Packet::to_bytes writes for `p`
pub open spec fn plen(p: Packet) -> nat {
    if p is Ack { wire(pview(p)).len() } else { wire_len(p) }
}

/// C13: every sendable packet serializes to at most 1300 bytes
pub proof fn lemma_sendable_fits_carrier(p: Packet)
    requires sendable(p),
    ensures plen(p) <= 1300,
{
    match p {
        Packet::Ack { sequence, ack_ranges } => {
            lemma_ranges_view_wf(ack_ranges@);
            lemma_ack_wire_len_bound(sequence, ranges_view(ack_ranges@));
        },
        _ => { lemma_wire_len_bound(p); },
    }
}

/// packets number `seq0, seq0+1, ...` and all sendable
#[verifier::opaque]
pub open spec fn all_sendable(s: Seq<Packet>, seq0: int) -> bool {
    forall|i: int| 0 <= i < s.len() ==> sendable(#[trigger] s[i]) && packet_seq(s[i]) == seq0 + i
}

pub proof fn lemma_all_sendable_empty(seq0: int)
    ensures all_sendable(Seq::<Packet>::empty(), seq0),
{
    reveal(all_sendable);
}

pub proof fn lemma_all_sendable_append(a: Seq<Packet>, b: Seq<Packet>, seq0: int)
    requires all_sendable(a, seq0), all_sendable(b, seq0 + a.len()),
    ensures all_sendable(a + b, seq0),
{
    reveal(all_sendable);
    assert forall|i: int| 0 <= i < (a + b).len() implies sendable(#[trigger] (a + b)[i]) && packet_seq((a + b)[i]) == seq0 + i by {
        if i >= a.len() { assert((a + b)[i] == b[i - a.len()]); }
    }
}

pub proof fn lemma_all_sendable_push(a: Seq<Packet>, p: Packet, seq0: int)
    requires all_sendable(a, seq0), sendable(p), packet_seq(p) == seq0 + a.len(),
    ensures all_sendable(a.push(p), seq0),
{
    reveal(all_sendable);
}

pub proof fn lemma_all_sendable_at(s: Seq<Packet>, seq0: int, i: int)
    requires all_sendable(s, seq0), 0 <= i < s.len(),
    ensures sendable(s[i]), packet_seq(s[i]) == seq0 + i,
{
    reveal(all_sendable);
}

pub proof fn lemma_packets_payload_append(a: Seq<Packet>, b: Seq<Packet>)
    ensures packets_payload(a + b) == packets_payload(a) + packets_payload(b),
    decreases b.len(),
{
    if b.len() == 0 {
        assert(a + b =~= a);
    } else {
        lemma_packets_payload_append(a, b.drop_last());
        assert((a + b).drop_last() =~= a + b.drop_last());
        assert((a + b).last() == b.last());
    }
}

pub proof fn lemma_bytes_total_ge(s: Seq<Bytes>, k: int)
    requires 0 <= k < s.len(),
    ensures bytes_total(s) >= s[k]@.len(),
    decreases s.len(),
{
    if k < s.len() - 1 {
        lemma_bytes_total_ge(s.drop_last(), k);
    }
}

/// what SendChannelUnreliable::get_packets_to_send guarantees (upkt_ok + uids_ok) makes every packet sendable
pub proof fn lemma_unreliable_packets_sendable(r: Seq<Packet>, seq0: int, q0: Seq<Bytes>, m: Map<u64, int>, lo: int, hi: int)
    requires
        forall|i: int| 0 <= i < r.len() ==> upkt_ok(#[trigger] r[i], seq0 + i, q0),
        uids_ok(r, q0, m, lo, hi),
        bytes_total(q0) <= 0x200_0000_0000,
        hi <= 0x4000_0000_0000_0000,
        seq0 + r.len() <= 0x4000_0000_0000_0000,
    ensures all_sendable(r, seq0),
{
    reveal(all_sendable);
    reveal(uids_ok);
    assert forall|i: int| 0 <= i < r.len() implies sendable(#[trigger] r[i]) && packet_seq(r[i]) == seq0 + i by {
        assert(upkt_ok(r[i], seq0 + i, q0));
        assert(uslice_id_ok(r[i], q0, m));
        match r[i] {
            Packet::UnreliableSlice { sequence, channel_id, slice } => {
                assert(m.contains_key(slice.message_id));
                let mm = q0[m[slice.message_id]]@;
                assert(slice.authentic(mm));
                lemma_bytes_total_ge(q0, m[slice.message_id]);
                assert(slice.num_slices < 0x4000_0000_0000_0000) by (nonlinear_arith)
                    requires (slice.num_slices - 1) * 1200 < mm.len(), mm.len() <= 0x7fff_ffff_ffff_ffff;
            },
            Packet::SmallUnreliable { sequence, channel_id, messages } => {},
            _ => {},
        }
    }
}

/// the pending-ack list of a live client (U1's invariant) is exactly what an acknowledgement packet may carry
pub proof fn lemma_pending_acks_sendable(sequence: u64, acks: Vec<core::ops::Range<u64>>)
    requires acks_wf(acks@), 1 <= acks@.len() <= 64, sequence < 0x4000_0000_0000_0000,
    ensures sendable(Packet::Ack { sequence, ack_ranges: acks }),
{
    let s = acks@;
    assert(ranges_wf(s)) by { reveal(ranges_wf); reveal(acks_wf); }
}

/// the first k payloads are the serializations (by length) of the first k packets, each at most 1300 bytes
pub open spec fn payload_lens_ok(sp: Seq<Vec<u8>>, pk: Seq<Packet>, k: int) -> bool {
    &&& sp.len() == k
    &&& forall|j: int| 0 <= j < k ==> (#[trigger] sp[j])@.len() == plen(pk[j]) && plen(pk[j]) <= 1300
}

impl SendChannelUnreliable {
    /// wf plus the size assumptions that keep counters below 2^62 over one tick
    pub open spec fn send_ok(&self) -> bool {
        &&& self.wf()
        &&& self.unreliable_messages@.len() <= 0x100_0000_0000
        &&& self.memory_usage_bytes <= 0x200_0000_0000
        &&& self.sliced_message_id + self.unreliable_messages@.len() <= 0x2000_0000_0000_0000
    }
}

impl SendChannelReliable {
    pub open spec fn send_ok(&self) -> bool {
        &&& self.wf()
        &&& self.unacked_messages@.len() <= 0x100_0000_0000
        &&& self.memory_usage_bytes <= 0x200_0000_0000
    }

    /// no transmission timestamp lies in the future (history assumption: time only moves forward between calls)
    pub open spec fn times_ok(&self, now: Duration) -> bool {
        forall|id: u64| #[trigger] self.unacked_messages@.contains_key(id) ==> self.unacked_messages@[id].sent_not_after(now)
    }
}

// ---- end shared client send specs ----
