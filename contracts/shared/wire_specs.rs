// ---- shared specification: renet wire format sizes and validity of decoded packets (spec functions and lemmas only) ----
pub open spec fn vl(v: u64) -> nat { octets::varint_len_spec(v) }

/// what Packet::from_bytes guarantees about everything it returns (the next stage relies on exactly this)
pub open spec fn packet_wire_valid(p: Packet) -> bool {
    match p {
        Packet::SmallReliable { sequence, channel_id, messages } =>
            sequence < 0x4000_0000_0000_0000 && forall|i: int| 0 <= i < messages@.len() ==> (#[trigger] messages@[i]).0 < 0x4000_0000_0000_0000,
        Packet::SmallUnreliable { sequence, channel_id, messages } => sequence < 0x4000_0000_0000_0000,
        Packet::ReliableSlice { sequence, channel_id, slice } =>
            sequence < 0x4000_0000_0000_0000 && slice.wire_valid() && slice.message_id < 0x4000_0000_0000_0000
            && 1 <= slice.payload@.len() <= 1200,
        Packet::UnreliableSlice { sequence, channel_id, slice } =>
            sequence < 0x4000_0000_0000_0000 && slice.wire_valid() && slice.message_id < 0x4000_0000_0000_0000,
        Packet::Ack { sequence, ack_ranges } =>
            sequence < 0x4000_0000_0000_0000 && ack_ranges@.len() >= 1 && ranges_wf(ack_ranges@),
    }
}

/// sorted ascending, disjoint, non-adjacent, every range non-empty and below 2^62 (same shape as RenetClient::pending_acks)
#[verifier::opaque]
pub open spec fn ranges_wf(s: Seq<core::ops::Range<u64>>) -> bool {
    &&& forall|i: int| 0 <= i < s.len() ==> (#[trigger] s[i]).start < s[i].end && s[i].end <= 0x4000_0000_0000_0000
    &&& forall|i: int, j: int| 0 <= i < j < s.len() ==> (#[trigger] s[i]).end < (#[trigger] s[j]).start
}

/// the same, in the descending order in which the ack decoder collects the ranges
#[verifier::opaque]
pub open spec fn ranges_desc_wf(s: Seq<core::ops::Range<u64>>) -> bool {
    &&& forall|i: int| 0 <= i < s.len() ==> (#[trigger] s[i]).start < s[i].end && s[i].end <= 0x4000_0000_0000_0000
    &&& forall|i: int, j: int| 0 <= i < j < s.len() ==> (#[trigger] s[j]).end < (#[trigger] s[i]).start
}

pub proof fn lemma_reverse_desc_is_wf(s: Seq<core::ops::Range<u64>>)
    requires ranges_desc_wf(s),
    ensures ranges_wf(s.reverse()),
{
    reveal(ranges_wf); reveal(ranges_desc_wf);
    let r = s.reverse();
    assert forall|i: int| 0 <= i < r.len() implies (#[trigger] r[i]).start < r[i].end && r[i].end <= 0x4000_0000_0000_0000 by {
        assert(r[i] == s[s.len() - 1 - i]);
    }
    assert forall|i: int, j: int| 0 <= i < j < r.len() implies (#[trigger] r[i]).end < (#[trigger] r[j]).start by {
        assert(r[i] == s[s.len() - 1 - i]);
        assert(r[j] == s[s.len() - 1 - j]);
    }
}

pub proof fn lemma_desc_single(r: core::ops::Range<u64>)
    requires r.start < r.end <= 0x4000_0000_0000_0000,
    ensures ranges_desc_wf(seq![r]),
{
    reveal(ranges_desc_wf);
}

/// a further range entirely below (and not adjacent to) the last one keeps the descending list well formed
pub proof fn lemma_desc_push(s: Seq<core::ops::Range<u64>>, r: core::ops::Range<u64>)
    requires ranges_desc_wf(s), s.len() >= 1, r.start < r.end <= 0x4000_0000_0000_0000, r.end < s.last().start,
    ensures ranges_desc_wf(s.push(r)),
{
    reveal(ranges_desc_wf);
    let t = s.push(r);
    assert forall|i: int, j: int| 0 <= i < j < t.len() implies (#[trigger] t[j]).end < (#[trigger] t[i]).start by {
        if j == s.len() {
            if i < s.len() - 1 { assert(s[s.len() - 1].end < s[i].start); }
            assert(s[s.len() - 1].start < s[s.len() - 1].end);
        }
    }
}

/// the facts the encoder needs about one position of a well-formed ascending list
pub proof fn lemma_ranges_wf_at(s: Seq<core::ops::Range<u64>>, i: int)
    requires ranges_wf(s), 0 <= i < s.len(),
    ensures s[i].start < s[i].end <= 0x4000_0000_0000_0000, i + 1 < s.len() ==> s[i].end < s[i + 1].start,
{
    reveal(ranges_wf);
}

/// every varint field of the packet is below 2^62 (octets::put_varint panics otherwise) and counts fit their fixed-width fields
pub open spec fn packet_encodable(p: Packet) -> bool {
    match p {
        Packet::SmallReliable { sequence, channel_id, messages } =>
            sequence < 0x4000_0000_0000_0000 && messages@.len() <= 65535
            && forall|i: int| 0 <= i < messages@.len() ==> (#[trigger] messages@[i]).0 < 0x4000_0000_0000_0000 && messages@[i].1@.len() < 0x4000_0000_0000_0000,
        Packet::SmallUnreliable { sequence, channel_id, messages } => sequence < 0x4000_0000_0000_0000 && messages@.len() <= 65535
            && forall|i: int| 0 <= i < messages@.len() ==> (#[trigger] messages@[i])@.len() < 0x4000_0000_0000_0000,
        Packet::ReliableSlice { sequence, channel_id, slice } =>
            sequence < 0x4000_0000_0000_0000 && slice.message_id < 0x4000_0000_0000_0000
            && slice.slice_index < 0x4000_0000_0000_0000 && slice.num_slices < 0x4000_0000_0000_0000 && slice.payload@.len() < 0x4000_0000_0000_0000,
        Packet::UnreliableSlice { sequence, channel_id, slice } =>
            sequence < 0x4000_0000_0000_0000 && slice.message_id < 0x4000_0000_0000_0000
            && slice.slice_index < 0x4000_0000_0000_0000 && slice.num_slices < 0x4000_0000_0000_0000 && slice.payload@.len() < 0x4000_0000_0000_0000,
        // an ack packet is built from a non-empty, well-formed pending list (RenetClient::get_packets_to_send; U1 keeps that shape)
        Packet::Ack { sequence, ack_ranges } => sequence < 0x4000_0000_0000_0000 && 1 <= ack_ranges@.len() <= 0x4000_0000_0000_0000 && ranges_wf(ack_ranges@),
    }
}

pub open spec fn slice_wire_len(sequence: u64, slice: Slice) -> nat {
    1 + vl(sequence) + 1 + vl(slice.message_id) + vl(slice.slice_index as u64) + vl(slice.num_slices as u64)
        + vl(slice.payload@.len() as u64) + slice.payload@.len()
}

/// number of bytes Packet::to_bytes writes (message-carrying packet kinds)
pub open spec fn wire_len(p: Packet) -> nat {
    match p {
        Packet::SmallReliable { sequence, channel_id, messages } => 1 + vl(sequence) + 1 + 2 + small_reliable_body(messages@),
        Packet::SmallUnreliable { sequence, channel_id, messages } => 1 + vl(sequence) + 1 + 2 + small_unreliable_body(messages@),
        Packet::ReliableSlice { sequence, channel_id, slice } => slice_wire_len(sequence, slice),
        Packet::UnreliableSlice { sequence, channel_id, slice } => slice_wire_len(sequence, slice),
        Packet::Ack { sequence, ack_ranges } => 0,
    }
}

/// L1 (C13): a message-carrying packet that satisfies the channels' packing bound serializes to at most 1300 bytes
pub proof fn lemma_wire_len_bound(p: Packet)
    requires packet_fits(p), !(p is Ack),
    ensures wire_len(p) <= 1300,
{
    match p {
        Packet::SmallReliable { sequence, channel_id, messages } => {
            if messages@.len() == 1 {
                assert(messages@.drop_last() =~= Seq::<(u64, Bytes)>::empty());
                assert(small_reliable_body(messages@) <= 8 + 2 + 1200) by {
                    assert(messages@[0].1@.len() <= 1200);
                    assert(small_reliable_body(messages@.drop_last()) == 0);
                    assert(messages@.last() == messages@[0]);
                }
            }
        },
        Packet::SmallUnreliable { sequence, channel_id, messages } => {
            if messages@.len() == 1 {
                assert(messages@.drop_last() =~= Seq::<Bytes>::empty());
                assert(small_unreliable_body(messages@) <= 2 + 1200) by {
                    assert(messages@[0]@.len() <= 1200);
                    assert(small_unreliable_body(messages@.drop_last()) == 0);
                    assert(messages@.last() == messages@[0]);
                }
            }
        },
        _ => {},
    }
}

pub proof fn lemma_reliable_body_take(s: Seq<(u64, Bytes)>)
    ensures
        small_reliable_body(s.take(0)) == 0,
        small_reliable_body(s.take(s.len() as int)) == small_reliable_body(s),
        forall|k: int| 0 <= k < s.len() ==> #[trigger] small_reliable_body(s.take(k + 1))
            == small_reliable_body(s.take(k)) + vl(s[k].0) + vl(s[k].1@.len() as u64) + s[k].1@.len(),
        forall|k: int| 0 <= k <= s.len() ==> #[trigger] small_reliable_body(s.take(k)) <= small_reliable_body(s),
    decreases s.len(),
{
    assert(s.take(s.len() as int) =~= s);
    assert forall|k: int| 0 <= k < s.len() implies #[trigger] small_reliable_body(s.take(k + 1))
        == small_reliable_body(s.take(k)) + vl(s[k].0) + vl(s[k].1@.len() as u64) + s[k].1@.len() by {
        assert(s.take(k + 1).drop_last() =~= s.take(k));
        assert(s.take(k + 1).last() == s[k]);
    }
    if s.len() > 0 {
        lemma_reliable_body_take(s.drop_last());
        assert forall|k: int| 0 <= k <= s.len() implies #[trigger] small_reliable_body(s.take(k)) <= small_reliable_body(s) by {
            if k < s.len() {
                assert(s.drop_last().take(k) =~= s.take(k));
            }
        }
    }
}

pub proof fn lemma_unreliable_body_take(s: Seq<Bytes>)
    ensures
        small_unreliable_body(s.take(0)) == 0,
        small_unreliable_body(s.take(s.len() as int)) == small_unreliable_body(s),
        forall|k: int| 0 <= k < s.len() ==> #[trigger] small_unreliable_body(s.take(k + 1))
            == small_unreliable_body(s.take(k)) + vl(s[k]@.len() as u64) + s[k]@.len(),
        forall|k: int| 0 <= k <= s.len() ==> #[trigger] small_unreliable_body(s.take(k)) <= small_unreliable_body(s),
    decreases s.len(),
{
    assert(s.take(s.len() as int) =~= s);
    assert forall|k: int| 0 <= k < s.len() implies #[trigger] small_unreliable_body(s.take(k + 1))
        == small_unreliable_body(s.take(k)) + vl(s[k]@.len() as u64) + s[k]@.len() by {
        assert(s.take(k + 1).drop_last() =~= s.take(k));
        assert(s.take(k + 1).last() == s[k]);
    }
    if s.len() > 0 {
        lemma_unreliable_body_take(s.drop_last());
        assert forall|k: int| 0 <= k <= s.len() implies #[trigger] small_unreliable_body(s.take(k)) <= small_unreliable_body(s) by {
            if k < s.len() {
                assert(s.drop_last().take(k) =~= s.take(k));
            }
        }
    }
}
// ---- end shared wire specs ----
