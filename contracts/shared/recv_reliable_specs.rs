// ---- shared specification: ReceiveChannelReliable (spec functions only) ----
impl ReceiveChannelReliable {
    pub open spec fn is_ordered(&self) -> bool {
        self.reliable_order is Ordered
    }

    /// ids remembered as received by the unordered variant (empty for the ordered one)
    pub open spec fn recv_set(&self) -> Set<u64> {
        match self.reliable_order {
            ReliableOrder::Ordered => Set::<u64>::empty(),
            ReliableOrder::Unordered { most_recent_message_id, received_messages } => received_messages@,
        }
    }

    /// ids that will never be stored again: already handed over, or buffered
    pub open spec fn done(&self, id: u64) -> bool {
        ||| id < self.oldest_pending_message_id
        ||| (self.is_ordered() && self.messages@.contains_key(id))
        ||| (!self.is_ordered() && self.recv_set().contains(id))
    }

    pub open spec fn msg_w(m: Map<u64, Bytes>) -> spec_fn(u64) -> nat {
        |id: u64| if m.contains_key(id) { m[id]@.len() } else { 0nat }
    }

    pub open spec fn slice_w(sl: Map<u64, SliceConstructor>) -> spec_fn(u64) -> nat {
        |id: u64| if sl.contains_key(id) { (sl[id].num_slices * 1200) as nat } else { 0nat }
    }

    /// bytes that are really buffered: complete messages + reserved reassembly buffers
    pub open spec fn accounted_of(m: Map<u64, Bytes>, sl: Map<u64, SliceConstructor>) -> nat {
        sum_over(m.dom(), Self::msg_w(m)) + sum_over(sl.dom(), Self::slice_w(sl))
    }

    pub open spec fn accounted(&self) -> nat {
        Self::accounted_of(self.messages@, self.slices@)
    }

    /// structural invariant (holds for any input, hostile or not)
    pub open spec fn wf(&self) -> bool {
        &&& self.memory_usage_bytes <= self.max_memory_usage_bytes
        &&& self.max_memory_usage_bytes <= 0x4000_0000_0000_0000
        &&& forall|id: u64| #[trigger] self.slices@.contains_key(id) ==> id < 0x4000_0000_0000_0000
                && 1 <= self.slices@[id].num_slices <= max_slices()
        &&& forall|id: u64| #[trigger] self.messages@.contains_key(id) ==> self.done(id) && id < 0x4000_0000_0000_0000
        &&& forall|id: u64| #[trigger] self.recv_set().contains(id) ==> id < 0x4000_0000_0000_0000
        &&& self.oldest_pending_message_id <= 0x4000_0000_0000_0000
    }

    /// every reassembly in progress satisfies the SliceConstructor invariant
    pub open spec fn slices_wf(&self) -> bool {
        forall|id: u64| #[trigger] self.slices@.contains_key(id) ==> self.slices@[id].wf()
    }

    /// accounting equation with a ghost offset `d` (d = 0 between public calls; process_slice calls
    /// process_message while the completed reassembly buffer is already subtracted, i.e. with d = n*1200)
    pub open spec fn acc_off(&self, d: int) -> bool {
        self.memory_usage_bytes + d == self.accounted()
    }

    /// the invariant between public calls: 0 <= memory = sum of what is stored <= max
    pub open spec fn acc(&self) -> bool {
        self.wf() && self.slices_wf() && self.acc_off(0)
    }

    /// no reassembly buffer is kept for a message that is already complete or handed over (otherwise its
    /// reserved bytes would never come back).  Holds for authentic traffic; a hostile peer can only hurt itself.
    pub open spec fn clean(&self) -> bool {
        forall|id: u64| #[trigger] self.slices@.contains_key(id) ==> !self.done(id) && !self.messages@.contains_key(id)
    }

    /// everything buffered is what the peer submitted under that id (`sub` = ghost map id -> submitted bytes)
    pub open spec fn auth(&self, sub: Map<u64, Seq<u8>>) -> bool {
        &&& forall|id: u64| #[trigger] self.messages@.contains_key(id) ==> sub.contains_key(id) && self.messages@[id]@ == sub[id]
        &&& forall|id: u64| #[trigger] self.slices@.contains_key(id) ==> sub.contains_key(id) && self.slices@[id].agrees(sub[id])
                && sub[id].len() > 1200
    }
}

impl ReceiveChannelReliable {
    pub proof fn lemma_acc_insert_message(m: Map<u64, Bytes>, sl: Map<u64, SliceConstructor>, id: u64, b: Bytes)
        requires !m.contains_key(id),
        ensures Self::accounted_of(m.insert(id, b), sl) == Self::accounted_of(m, sl) + b@.len(),
    {
        let m2 = m.insert(id, b);
        lemma_sum_insert(m.dom(), Self::msg_w(m2), id);
        lemma_sum_ext(m.dom(), Self::msg_w(m), Self::msg_w(m2));
        assert(m2.dom() =~= m.dom().insert(id));
    }

    pub proof fn lemma_acc_remove_message(m: Map<u64, Bytes>, sl: Map<u64, SliceConstructor>, id: u64)
        requires m.contains_key(id),
        ensures Self::accounted_of(m.remove(id), sl) + m[id]@.len() == Self::accounted_of(m, sl),
    {
        let m2 = m.remove(id);
        lemma_sum_remove(m.dom(), Self::msg_w(m), id);
        lemma_sum_ext(m2.dom(), Self::msg_w(m), Self::msg_w(m2));
        assert(m2.dom() =~= m.dom().remove(id));
    }

    pub proof fn lemma_acc_insert_slice(m: Map<u64, Bytes>, sl: Map<u64, SliceConstructor>, id: u64, c: SliceConstructor)
        requires !sl.contains_key(id),
        ensures Self::accounted_of(m, sl.insert(id, c)) == Self::accounted_of(m, sl) + c.num_slices * 1200,
    {
        let s2 = sl.insert(id, c);
        lemma_sum_insert(sl.dom(), Self::slice_w(s2), id);
        lemma_sum_ext(sl.dom(), Self::slice_w(sl), Self::slice_w(s2));
        assert(s2.dom() =~= sl.dom().insert(id));
    }

    pub proof fn lemma_acc_update_slice(m: Map<u64, Bytes>, sl: Map<u64, SliceConstructor>, id: u64, c: SliceConstructor)
        requires sl.contains_key(id), c.num_slices == sl[id].num_slices,
        ensures Self::accounted_of(m, sl.insert(id, c)) == Self::accounted_of(m, sl),
    {
        let s2 = sl.insert(id, c);
        assert(s2.dom() =~= sl.dom());
        lemma_sum_ext(sl.dom(), Self::slice_w(sl), Self::slice_w(s2));
    }

    pub proof fn lemma_acc_remove_slice(m: Map<u64, Bytes>, sl: Map<u64, SliceConstructor>, id: u64)
        requires sl.contains_key(id),
        ensures Self::accounted_of(m, sl.remove(id)) + sl[id].num_slices * 1200 == Self::accounted_of(m, sl),
    {
        let s2 = sl.remove(id);
        lemma_sum_remove(sl.dom(), Self::slice_w(sl), id);
        lemma_sum_ext(s2.dom(), Self::slice_w(sl), Self::slice_w(s2));
        assert(s2.dom() =~= sl.dom().remove(id));
    }
}

pub mod recv_rel_lemmas {
use vstd::prelude::*;
use super::*;
/// the accounted sum depends only on the two map views (extensional equality is enough)
pub broadcast proof fn lemma_accounted_ext(m1: Map<u64, Bytes>, s1: Map<u64, SliceConstructor>, m2: Map<u64, Bytes>, s2: Map<u64, SliceConstructor>)
    requires m1 =~= m2, s1 =~= s2,
    ensures #[trigger] ReceiveChannelReliable::accounted_of(m1, s1) == #[trigger] ReceiveChannelReliable::accounted_of(m2, s2),
{
}
}

// ---- end shared ReceiveChannelReliable specs ----
