// ---- shared specification: total length of a sequence of Bytes (lemmas only) ----
pub open spec fn bytes_total(s: Seq<Bytes>) -> nat
    decreases s.len(),
{
    if s.len() == 0 { 0 } else { bytes_total(s.drop_last()) + s.last()@.len() }
}

pub proof fn lemma_bytes_total_push(s: Seq<Bytes>, b: Bytes)
    ensures bytes_total(s.push(b)) == bytes_total(s) + b@.len(),
{
    assert(s.push(b).drop_last() =~= s);
}

pub proof fn lemma_bytes_total_pop_front(s: Seq<Bytes>)
    requires s.len() > 0,
    ensures bytes_total(s) == s[0]@.len() + bytes_total(s.subrange(1, s.len() as int)),
    decreases s.len(),
{
    let t = s.subrange(1, s.len() as int);
    if s.len() == 1 {
        assert(s.drop_last() =~= Seq::<Bytes>::empty());
        assert(t =~= Seq::<Bytes>::empty());
    } else {
        lemma_bytes_total_pop_front(s.drop_last());
        assert(s.drop_last().subrange(1, s.len() - 1) =~= t.drop_last());
        assert(t.last() == s.last());
    }
}

// ---- end ----
