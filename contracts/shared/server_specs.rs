// ---- shared specification: RenetServer (spec functions only) ----
// The per-connection operations that are out of Verus' reach (RenetClient::{send_message, receive_message, process_packet,
// get_packets_to_send, update}) are known here only as deterministic functions of their inputs (uninterpreted):
// what the server layer is checked for is WHICH connection they are applied to, how often, and that nothing else changes.
pub uninterp spec fn client_after_send<I, B>(c: RenetClient, channel_id: I, message: B) -> RenetClient;
pub uninterp spec fn client_after_receive<I>(c: RenetClient, channel_id: I) -> (RenetClient, Option<Bytes>);
pub uninterp spec fn client_after_packet(c: RenetClient, packet: Seq<u8>) -> RenetClient;
pub uninterp spec fn client_after_get_packets(c: RenetClient) -> (RenetClient, Vec<Vec<u8>>);
pub uninterp spec fn client_after_update(c: RenetClient, d: Duration) -> RenetClient;

impl RenetServer {
    pub open spec fn ids(&self) -> Set<u64> {
        self.connections@.dom()
    }

    /// every connection except `id` is exactly as before, and no connection appeared or vanished
    pub open spec fn others_untouched(pre: RenetServer, post: RenetServer, id: u64) -> bool {
        &&& post.connections@.dom() == pre.connections@.dom()
        &&& forall|j: u64| j != id && #[trigger] pre.connections@.contains_key(j) ==> post.connections@[j] == pre.connections@[j]
    }
}
pub mod server_lemmas {
use vstd::prelude::*;
use super::*;
/// two maps with the same domain that agree once key `id` is dropped agree on every other key
pub broadcast proof fn lemma_same_but_one(a: Map<u64, RenetClient>, b: Map<u64, RenetClient>, m2: Map<u64, RenetClient>, id: u64)
    requires
        #[trigger] vstd::std_specs::hash::borrowed_key_removed(a, m2, &id),
        #[trigger] vstd::std_specs::hash::borrowed_key_removed(b, m2, &id),
        a.dom() == b.dom(),
    ensures
        forall|j: u64| j != id && #[trigger] a.contains_key(j) ==> b[j] == a[j],
{
    assert forall|j: u64| j != id && #[trigger] a.contains_key(j) implies b[j] == a[j] by {
        assert(a.remove(id)[j] == a[j]);
        assert(b.remove(id)[j] == b[j]);
    }
}
}
// ---- end shared server specs ----
