// ---- shared specification: renet Packet (payload byte counts, wire sizes); spec functions and lemmas only ----
pub open spec fn pairs_total(s: Seq<(u64, Bytes)>) -> nat
    decreases s.len(),
{
    if s.len() == 0 { 0 } else { pairs_total(s.drop_last()) + s.last().1@.len() }
}

pub proof fn lemma_pairs_total_push(s: Seq<(u64, Bytes)>, p: (u64, Bytes))
    ensures pairs_total(s.push(p)) == pairs_total(s) + p.1@.len(),
{
    assert(s.push(p).drop_last() =~= s);
}

/// message payload bytes carried by one packet (what the per-tick bandwidth budget counts)
pub open spec fn packet_payload(p: Packet) -> nat {
    match p {
        Packet::SmallReliable { sequence, channel_id, messages } => pairs_total(messages@),
        Packet::SmallUnreliable { sequence, channel_id, messages } => bytes_total(messages@),
        Packet::UnreliableSlice { sequence, channel_id, slice } => slice.payload@.len(),
        Packet::ReliableSlice { sequence, channel_id, slice } => slice.payload@.len(),
        Packet::Ack { sequence, ack_ranges } => 0,
    }
}

pub open spec fn packets_payload(s: Seq<Packet>) -> nat
    decreases s.len(),
{
    if s.len() == 0 { 0 } else { packets_payload(s.drop_last()) + packet_payload(s.last()) }
}

pub proof fn lemma_packets_payload_push(s: Seq<Packet>, p: Packet)
    ensures packets_payload(s.push(p)) == packets_payload(s) + packet_payload(p),
{
    assert(s.push(p).drop_last() =~= s);
}

pub open spec fn packet_seq(p: Packet) -> u64 {
    match p {
        Packet::SmallReliable { sequence, channel_id, messages } => sequence,
        Packet::SmallUnreliable { sequence, channel_id, messages } => sequence,
        Packet::UnreliableSlice { sequence, channel_id, slice } => sequence,
        Packet::ReliableSlice { sequence, channel_id, slice } => sequence,
        Packet::Ack { sequence, ack_ranges } => sequence,
    }
}

/// the channel a message-carrying packet is labelled with on the wire (the receiver routes by it); an Ack packet carries none
pub open spec fn packet_channel(p: Packet) -> Option<u8> {
    match p {
        Packet::SmallReliable { sequence, channel_id, messages } => Some(channel_id),
        Packet::SmallUnreliable { sequence, channel_id, messages } => Some(channel_id),
        Packet::UnreliableSlice { sequence, channel_id, slice } => Some(channel_id),
        Packet::ReliableSlice { sequence, channel_id, slice } => Some(channel_id),
        Packet::Ack { sequence, ack_ranges } => None,
    }
}

/// C03/C11: every packet of `s` is labelled with channel `c` (nothing a channel hands out can be delivered to another channel)
pub open spec fn all_from_channel(s: Seq<Packet>, c: u8) -> bool {
    forall|i: int| 0 <= i < s.len() ==> packet_channel(#[trigger] s[i]) == Some(c)
}

/// serialized size of the message part of a SmallUnreliable packet: sum of (varint length prefix + bytes)
pub open spec fn small_unreliable_body(s: Seq<Bytes>) -> nat
    decreases s.len(),
{
    if s.len() == 0 { 0 } else { small_unreliable_body(s.drop_last()) + octets::varint_len_spec(s.last()@.len() as u64) + s.last()@.len() }
}

pub proof fn lemma_small_unreliable_body_push(s: Seq<Bytes>, b: Bytes)
    ensures small_unreliable_body(s.push(b)) == small_unreliable_body(s) + octets::varint_len_spec(b@.len() as u64) + b@.len(),
{
    assert(s.push(b).drop_last() =~= s);
}

/// serialized size of the message part of a SmallReliable packet: sum of (varint id + varint length + bytes)
pub open spec fn small_reliable_body(s: Seq<(u64, Bytes)>) -> nat
    decreases s.len(),
{
    if s.len() == 0 { 0 } else {
        small_reliable_body(s.drop_last()) + octets::varint_len_spec(s.last().0) + octets::varint_len_spec(s.last().1@.len() as u64) + s.last().1@.len()
    }
}

pub proof fn lemma_small_reliable_body_push(s: Seq<(u64, Bytes)>, p: (u64, Bytes))
    ensures small_reliable_body(s.push(p)) == small_reliable_body(s) + octets::varint_len_spec(p.0) + octets::varint_len_spec(p.1@.len() as u64) + p.1@.len(),
{
    assert(s.push(p).drop_last() =~= s);
}

/// C13: the message part of every packet a send channel produces fits one slice, or the packet carries a single small message
/// (a packet without any message is possible: the code flushes an empty batch when the first message of a tick does not fit)
pub open spec fn packet_fits(p: Packet) -> bool {
    match p {
        Packet::SmallReliable { sequence, channel_id, messages } =>
            (small_reliable_body(messages@) <= 1200 || messages@.len() == 1) && messages@.len() <= 1200
            && forall|i: int| 0 <= i < messages@.len() ==> (#[trigger] messages@[i]).1@.len() <= 1200 && messages@[i].0 < 0x4000_0000_0000_0000,
        Packet::SmallUnreliable { sequence, channel_id, messages } =>
            (small_unreliable_body(messages@) <= 1200 || messages@.len() == 1) && messages@.len() <= 1200
            && forall|i: int| 0 <= i < messages@.len() ==> (#[trigger] messages@[i])@.len() <= 1200,
        Packet::UnreliableSlice { sequence, channel_id, slice } => 1 <= slice.payload@.len() <= 1200 && slice.slice_index < slice.num_slices,
        Packet::ReliableSlice { sequence, channel_id, slice } => 1 <= slice.payload@.len() <= 1200 && slice.slice_index < slice.num_slices,
        Packet::Ack { sequence, ack_ranges } => true,
    }
}
// ---- end shared Packet specs ----
