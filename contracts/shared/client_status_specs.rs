// ---- shared specification: RenetClient connection status (spec functions only) ----
impl RenetClient {
    pub open spec fn disconnected(&self) -> bool {
        self.connection_status is Disconnected
    }

    /// nothing but the connection status differs between the two states
    pub open spec fn only_status_changed(pre: RenetClient, post: RenetClient) -> bool {
        post == (RenetClient { connection_status: post.connection_status, ..pre })
    }

    /// C12: a status transition never leaves Disconnected and never changes the stored (first) reason
    pub open spec fn status_step(pre: RenetConnectionStatus, post: RenetConnectionStatus) -> bool {
        pre is Disconnected ==> post == pre
    }
}
// ---- end shared client status specs ----
