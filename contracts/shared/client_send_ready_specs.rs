// ---- shared specification: precondition of RenetClient::get_packets_to_send ----
impl RenetClient {
    /// what get_packets_to_send needs of the sending side: every entry of the send order names an existing channel of that kind
    /// (U14 builds it so), at most 256 entries (ids are u8 and distinct), counters far enough from 2^62 (history assumption)
    pub open spec fn send_ready(&self) -> bool {
        &&& self.channel_send_order@.len() <= 256
        &&& forall|i: int| 0 <= i < self.channel_send_order@.len() ==> match #[trigger] self.channel_send_order@[i] {
                ChannelOrder::Reliable(c) => self.send_reliable_channels@.contains_key(c),
                ChannelOrder::Unreliable(c) => self.send_unreliable_channels@.contains_key(c),
            }
        // every send channel is filed under its own id (U14 builds the maps so; no operation changes a channel's id)
        &&& forall|c: u8| #[trigger] self.send_reliable_channels@.contains_key(c) ==> self.send_reliable_channels@[c].channel_id == c
        &&& forall|c: u8| #[trigger] self.send_unreliable_channels@.contains_key(c) ==> self.send_unreliable_channels@[c].channel_id == c
        &&& self.packet_sequence < 0x2000_0000_0000_0000
        &&& self.available_bytes_per_tick <= 0x1_0000_0000_0000
        &&& (!self.disconnected() ==> {
                &&& forall|c: u8| #[trigger] self.send_reliable_channels@.contains_key(c) ==> self.send_reliable_channels@[c].send_ok()
                        && self.send_reliable_channels@[c].times_ok(self.current_time)
                &&& forall|c: u8| #[trigger] self.send_unreliable_channels@.contains_key(c) ==> self.send_unreliable_channels@[c].send_ok()
            })
    }
}
// ---- end shared client send-ready specs ----
