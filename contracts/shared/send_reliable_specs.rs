// ---- shared specification: SendChannelReliable / UnackedMessage (spec functions and lemmas only) ----
impl SendChannelReliable {
    pub open spec fn len_w(m: Map<u64, UnackedMessage>) -> spec_fn(u64) -> nat {
        |id: u64| if m.contains_key(id) { m[id].msg()@.len() } else { 0nat }
    }

    /// bytes held for messages that are not acknowledged yet
    pub open spec fn accounted_of(m: Map<u64, UnackedMessage>) -> nat {
        sum_over(m.dom(), Self::len_w(m))
    }

    pub open spec fn wf(&self) -> bool {
        &&& self.memory_usage_bytes == Self::accounted_of(self.unacked_messages@)
        &&& self.memory_usage_bytes <= self.max_memory_usage_bytes
        &&& self.max_memory_usage_bytes <= 0x4000_0000_0000_0000
        &&& self.next_reliable_message_id <= 0x4000_0000_0000_0000
        &&& forall|id: u64| #[trigger] self.unacked_messages@.contains_key(id) ==>
                id < self.next_reliable_message_id && self.unacked_messages@[id].wf()
    }

    /// every queued message is byte-identical to what the application submitted under that id (`sub` is ghost)
    pub open spec fn stored(&self, sub: Map<u64, Seq<u8>>) -> bool {
        forall|id: u64| #[trigger] self.unacked_messages@.contains_key(id) ==> sub.contains_key(id) && self.unacked_messages@[id].msg()@ == sub[id]
    }

    pub proof fn lemma_acc_insert(m: Map<u64, UnackedMessage>, id: u64, u: UnackedMessage)
        requires !m.contains_key(id),
        ensures Self::accounted_of(m.insert(id, u)) == Self::accounted_of(m) + u.msg()@.len(),
    {
        let m2 = m.insert(id, u);
        lemma_sum_insert(m.dom(), Self::len_w(m2), id);
        lemma_sum_ext(m.dom(), Self::len_w(m), Self::len_w(m2));
        assert(m2.dom() =~= m.dom().insert(id));
    }

    pub proof fn lemma_acc_remove(m: Map<u64, UnackedMessage>, id: u64)
        requires m.contains_key(id),
        ensures Self::accounted_of(m.remove(id)) + m[id].msg()@.len() == Self::accounted_of(m),
    {
        let m2 = m.remove(id);
        lemma_sum_remove(m.dom(), Self::len_w(m), id);
        lemma_sum_ext(m2.dom(), Self::len_w(m), Self::len_w(m2));
        assert(m2.dom() =~= m.dom().remove(id));
    }

    pub proof fn lemma_acc_update(m: Map<u64, UnackedMessage>, id: u64, u: UnackedMessage)
        requires m.contains_key(id), u.msg()@.len() == m[id].msg()@.len(),
        ensures Self::accounted_of(m.insert(id, u)) == Self::accounted_of(m),
    {
        let m2 = m.insert(id, u);
        assert(m2.dom() =~= m.dom());
        lemma_sum_ext(m.dom(), Self::len_w(m), Self::len_w(m2));
    }
}

pub mod send_rel_lemmas {
use vstd::prelude::*;
use super::*;
pub broadcast proof fn lemma_send_accounted_ext(m1: Map<u64, UnackedMessage>, m2: Map<u64, UnackedMessage>)
    requires m1 =~= m2,
    ensures #[trigger] SendChannelReliable::accounted_of(m1) == #[trigger] SendChannelReliable::accounted_of(m2),
{
}
}
// ---- end shared SendChannelReliable specs ----
