// ---- shared specification: bytes reserved by a map of reassembly buffers (lemmas only) ----
pub open spec fn reserved_w(sl: Map<u64, SliceConstructor>) -> spec_fn(u64) -> nat {
    |id: u64| if sl.contains_key(id) { (sl[id].num_slices * 1200) as nat } else { 0nat }
}

pub open spec fn reserved_of(sl: Map<u64, SliceConstructor>) -> nat {
    sum_over(sl.dom(), reserved_w(sl))
}

pub proof fn lemma_reserved_insert(sl: Map<u64, SliceConstructor>, id: u64, c: SliceConstructor)
    requires !sl.contains_key(id),
    ensures reserved_of(sl.insert(id, c)) == reserved_of(sl) + c.num_slices * 1200,
{
    let s2 = sl.insert(id, c);
    lemma_sum_insert(sl.dom(), reserved_w(s2), id);
    lemma_sum_ext(sl.dom(), reserved_w(sl), reserved_w(s2));
    assert(s2.dom() =~= sl.dom().insert(id));
}

pub proof fn lemma_reserved_update(sl: Map<u64, SliceConstructor>, id: u64, c: SliceConstructor)
    requires sl.contains_key(id), c.num_slices == sl[id].num_slices,
    ensures reserved_of(sl.insert(id, c)) == reserved_of(sl),
{
    let s2 = sl.insert(id, c);
    assert(s2.dom() =~= sl.dom());
    lemma_sum_ext(sl.dom(), reserved_w(sl), reserved_w(s2));
}

pub proof fn lemma_reserved_remove(sl: Map<u64, SliceConstructor>, id: u64)
    requires sl.contains_key(id),
    ensures reserved_of(sl.remove(id)) + sl[id].num_slices * 1200 == reserved_of(sl),
{
    let s2 = sl.remove(id);
    lemma_sum_remove(sl.dom(), reserved_w(sl), id);
    lemma_sum_ext(s2.dom(), reserved_w(sl), reserved_w(s2));
    assert(s2.dom() =~= sl.dom().remove(id));
}

pub mod reserved_lemmas {
use vstd::prelude::*;
use super::*;
pub broadcast proof fn lemma_reserved_ext(s1: Map<u64, SliceConstructor>, s2: Map<u64, SliceConstructor>)
    requires s1 =~= s2,
    ensures #[trigger] reserved_of(s1) == #[trigger] reserved_of(s2),
{
}
}
// ---- end shared reserved-bytes specs ----
