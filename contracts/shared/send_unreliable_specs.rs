// ---- shared specification: SendChannelUnreliable (spec functions only) ----
impl SendChannelUnreliable {
    pub open spec fn wf(&self) -> bool {
        &&& self.memory_usage_bytes == bytes_total(self.unreliable_messages@)
        &&& self.memory_usage_bytes <= self.max_memory_usage_bytes
        &&& self.max_memory_usage_bytes <= 0x4000_0000_0000_0000
    }
}

pub proof fn lemma_small_unreliable_body_ge_len(s: Seq<Bytes>)
    ensures small_unreliable_body(s) >= s.len(),
    decreases s.len(),
{
    if s.len() > 0 { lemma_small_unreliable_body_ge_len(s.drop_last()); }
}

/// what one produced packet must satisfy: fits its carrier, carries the expected sequence number, is of an unreliable kind,
/// and a slice is cut from one of the queued messages `q0`
pub open spec fn upkt_ok(p: Packet, seq: int, q0: Seq<Bytes>) -> bool {
    &&& packet_fits(p)
    &&& packet_seq(p) == seq
    &&& (p is SmallUnreliable || p is UnreliableSlice)
    &&& (p matches Packet::UnreliableSlice { sequence, channel_id, slice } ==> exists|k: int| 0 <= k < q0.len() && slice.authentic(#[trigger] q0[k]@))
}

#[verifier::opaque]
pub open spec fn upkts_ok(s: Seq<Packet>, seq0: int, q0: Seq<Bytes>) -> bool {
    forall|i: int| 0 <= i < s.len() ==> upkt_ok(#[trigger] s[i], seq0 + i, q0)
}

pub proof fn lemma_upkts_ok_empty(seq0: int, q0: Seq<Bytes>)
    ensures upkts_ok(Seq::<Packet>::empty(), seq0, q0),
{
    reveal(upkts_ok);
}

pub proof fn lemma_upkts_ok_push(s: Seq<Packet>, p: Packet, seq0: int, q0: Seq<Bytes>)
    requires upkts_ok(s, seq0, q0), upkt_ok(p, seq0 + s.len(), q0),
    ensures upkts_ok(s.push(p), seq0, q0),
{
    reveal(upkts_ok);
}

/// the pending batch of small messages and its serialized size
#[verifier::opaque]
pub open spec fn usmall_ok(s: Seq<Bytes>, bytes: int) -> bool {
    &&& bytes == small_unreliable_body(s)
    &&& (bytes <= 1200 || s.len() == 1)
    &&& bytes <= 1202
    &&& forall|j: int| 0 <= j < s.len() ==> (#[trigger] s[j])@.len() <= 1200
}

pub proof fn lemma_usmall_ok_empty()
    ensures usmall_ok(Seq::<Bytes>::empty(), 0),
{
    reveal(usmall_ok);
}

pub proof fn lemma_usmall_ok_bound(s: Seq<Bytes>, bytes: int)
    requires usmall_ok(s, bytes),
    ensures 0 <= bytes <= 1202, s.len() == 0 ==> bytes == 0,
{
    reveal(usmall_ok);
}

pub proof fn lemma_usmall_ok_push(s: Seq<Bytes>, b: Bytes, bytes: int)
    requires usmall_ok(s, bytes), b@.len() <= 1200,
        bytes + b@.len() + octets::varint_len_spec(b@.len() as u64) <= 1200 || s.len() == 0,
    ensures usmall_ok(s.push(b), bytes + b@.len() + octets::varint_len_spec(b@.len() as u64)),
{
    reveal(usmall_ok);
    lemma_small_unreliable_body_push(s, b);
}

pub proof fn lemma_usmall_packet_fits(s: Vec<Bytes>, bytes: int, sequence: u64, channel_id: u8)
    requires usmall_ok(s@, bytes),
    ensures packet_fits(Packet::SmallUnreliable { sequence, channel_id, messages: s }),
{
    reveal(usmall_ok);
    lemma_small_unreliable_body_ge_len(s@);
}
// ---- end shared SendChannelUnreliable specs ----
