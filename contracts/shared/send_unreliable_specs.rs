// ---- shared specification: SendChannelUnreliable (spec functions only) ----
impl SendChannelUnreliable {
    pub open spec fn wf(&self) -> bool {
        &&& self.memory_usage_bytes == bytes_total(self.unreliable_messages@)
        &&& self.memory_usage_bytes <= self.max_memory_usage_bytes
        &&& self.max_memory_usage_bytes <= 0x4000_0000_0000_0000
    }
}

pub proof fn lemma_small_unreliable_body_ge_len(s: Seq<Bytes>)
    ensures small_unreliable_body(s) >= s.len(),
    decreases s.len(),
{
    if s.len() > 0 { lemma_small_unreliable_body_ge_len(s.drop_last()); }
}

/// what one produced packet must satisfy: fits its carrier, carries the expected sequence number, is of an unreliable kind,
/// and a slice is cut from one of the queued messages `q0`
pub open spec fn upkt_ok(p: Packet, seq: int, q0: Seq<Bytes>) -> bool {
    &&& packet_fits(p)
    &&& packet_seq(p) == seq
    &&& (p is SmallUnreliable || p is UnreliableSlice)
    &&& (p matches Packet::UnreliableSlice { sequence, channel_id, slice } ==> exists|k: int| 0 <= k < q0.len() && slice.authentic(#[trigger] q0[k]@))
}

#[verifier::opaque]
pub open spec fn upkts_ok(s: Seq<Packet>, seq0: int, q0: Seq<Bytes>) -> bool {
    forall|i: int| 0 <= i < s.len() ==> upkt_ok(#[trigger] s[i], seq0 + i, q0)
}

pub proof fn lemma_upkts_ok_empty(seq0: int, q0: Seq<Bytes>)
    ensures upkts_ok(Seq::<Packet>::empty(), seq0, q0),
{
    reveal(upkts_ok);
}

pub proof fn lemma_upkts_ok_push(s: Seq<Packet>, p: Packet, seq0: int, q0: Seq<Bytes>)
    requires upkts_ok(s, seq0, q0), upkt_ok(p, seq0 + s.len(), q0),
    ensures upkts_ok(s.push(p), seq0, q0),
{
    reveal(upkts_ok);
}

/// the pending batch of small messages and its serialized size
#[verifier::opaque]
pub open spec fn usmall_ok(s: Seq<Bytes>, bytes: int) -> bool {
    &&& bytes == small_unreliable_body(s)
    &&& (bytes <= 1200 || s.len() == 1)
    &&& bytes <= 1202
    &&& forall|j: int| 0 <= j < s.len() ==> (#[trigger] s[j])@.len() <= 1200
}

pub proof fn lemma_usmall_ok_empty()
    ensures usmall_ok(Seq::<Bytes>::empty(), 0),
{
    reveal(usmall_ok);
}

pub proof fn lemma_usmall_ok_bound(s: Seq<Bytes>, bytes: int)
    requires usmall_ok(s, bytes),
    ensures 0 <= bytes <= 1202, s.len() == 0 ==> bytes == 0,
{
    reveal(usmall_ok);
}

pub proof fn lemma_usmall_ok_push(s: Seq<Bytes>, b: Bytes, bytes: int)
    requires usmall_ok(s, bytes), b@.len() <= 1200,
        bytes + b@.len() + octets::varint_len_spec(b@.len() as u64) <= 1200 || s.len() == 0,
    ensures usmall_ok(s.push(b), bytes + b@.len() + octets::varint_len_spec(b@.len() as u64)),
{
    reveal(usmall_ok);
    lemma_small_unreliable_body_push(s, b);
}

pub proof fn lemma_usmall_packet_fits(s: Vec<Bytes>, bytes: int, sequence: u64, channel_id: u8)
    requires usmall_ok(s@, bytes),
    ensures packet_fits(Packet::SmallUnreliable { sequence, channel_id, messages: s }),
{
    reveal(usmall_ok);
    lemma_small_unreliable_body_ge_len(s@);
}
/// which queued message a slice id stands for: every slice packet's id is mapped by `m` to a position of `q0`, and the slice is
/// cut from exactly that message; ids used lie in [lo, hi).  Two slices with one id are therefore slices of one message.
pub open spec fn uslice_id_ok(p: Packet, q0: Seq<Bytes>, m: Map<u64, int>) -> bool {
    p matches Packet::UnreliableSlice { sequence, channel_id, slice } ==>
        m.contains_key(slice.message_id) && 0 <= m[slice.message_id] < q0.len() && slice.authentic(q0[m[slice.message_id]]@)
}

#[verifier::opaque]
pub open spec fn uids_ok(s: Seq<Packet>, q0: Seq<Bytes>, m: Map<u64, int>, lo: int, hi: int) -> bool {
    &&& forall|i: int| 0 <= i < s.len() ==> uslice_id_ok(#[trigger] s[i], q0, m)
    &&& forall|id: u64| #[trigger] m.contains_key(id) ==> lo <= id < hi
}

pub proof fn lemma_uids_ok_empty(q0: Seq<Bytes>, lo: int)
    ensures uids_ok(Seq::<Packet>::empty(), q0, Map::<u64, int>::empty(), lo, lo),
{
    reveal(uids_ok);
}

pub proof fn lemma_uids_ok_push(s: Seq<Packet>, p: Packet, q0: Seq<Bytes>, m: Map<u64, int>, lo: int, hi: int)
    requires uids_ok(s, q0, m, lo, hi), uslice_id_ok(p, q0, m),
    ensures uids_ok(s.push(p), q0, m, lo, hi),
{
    reveal(uids_ok);
}

/// opening a new id (the current counter value `hi`) for queue position `k` disturbs no earlier slice: all earlier ids are below `hi`
pub proof fn lemma_uids_ok_new_id(s: Seq<Packet>, q0: Seq<Bytes>, m: Map<u64, int>, lo: int, hi: int, k: int)
    requires uids_ok(s, q0, m, lo, hi), 0 <= lo <= hi < 0x8000_0000_0000_0000,
    ensures uids_ok(s, q0, m.insert(hi as u64, k), lo, hi + 1),
{
    reveal(uids_ok);
    assert forall|i: int| 0 <= i < s.len() implies uslice_id_ok(#[trigger] s[i], q0, m.insert(hi as u64, k)) by {
        assert(uslice_id_ok(s[i], q0, m));
    }
    assert forall|id: u64| #[trigger] m.insert(hi as u64, k).contains_key(id) implies lo <= id < hi + 1 by {
        if id != hi as u64 { assert(m.contains_key(id)); }
    }
}
// ---- end shared SendChannelUnreliable specs ----
