// ---- shared specification: channel wiring of RenetClient::from_channels ----
/// the channel ids of one configuration list are pairwise distinct (documented requirement; the constructor panics otherwise)
pub open spec fn ids_distinct(cfg: Seq<ChannelConfig>) -> bool {
    forall|i: int, j: int| 0 <= i < j < cfg.len() ==> cfg[i].channel_id != cfg[j].channel_id
}

pub open spec fn budgets_ok(cfg: Seq<ChannelConfig>) -> bool {
    forall|i: int| 0 <= i < cfg.len() ==> (#[trigger] cfg[i]).max_memory_usage_bytes <= 0x4000_0000_0000_0000
}

/// receive side built for configuration entry `c`: a reliable-ordered channel delivers in order, a reliable-unordered one hands over
/// as soon as complete, an unreliable one lives in the unreliable table; each fresh, with the configured budget
pub open spec fn recv_wired(c: ChannelConfig, rel: Map<u8, ReceiveChannelReliable>, unrel: Map<u8, ReceiveChannelUnreliable>) -> bool {
    match c.send_type {
        SendType::Unreliable => unrel.contains_key(c.channel_id) && !rel.contains_key(c.channel_id)
            && unrel[c.channel_id].max_memory_usage_bytes == c.max_memory_usage_bytes && unrel[c.channel_id].memory_usage_bytes == 0,
        SendType::ReliableOrdered { resend_time } => rel.contains_key(c.channel_id) && !unrel.contains_key(c.channel_id)
            && rel[c.channel_id].is_ordered() && rel[c.channel_id].max_memory_usage_bytes == c.max_memory_usage_bytes
            && rel[c.channel_id].oldest_pending_message_id == 0 && rel[c.channel_id].memory_usage_bytes == 0,
        SendType::ReliableUnordered { resend_time } => rel.contains_key(c.channel_id) && !unrel.contains_key(c.channel_id)
            && !rel[c.channel_id].is_ordered() && rel[c.channel_id].max_memory_usage_bytes == c.max_memory_usage_bytes
            && rel[c.channel_id].oldest_pending_message_id == 0 && rel[c.channel_id].memory_usage_bytes == 0,
    }
}

pub open spec fn send_wired(c: ChannelConfig, rel: Map<u8, SendChannelReliable>, unrel: Map<u8, SendChannelUnreliable>) -> bool {
    match c.send_type {
        SendType::Unreliable => unrel.contains_key(c.channel_id) && !rel.contains_key(c.channel_id)
            && unrel[c.channel_id].channel_id == c.channel_id
            && unrel[c.channel_id].max_memory_usage_bytes == c.max_memory_usage_bytes && unrel[c.channel_id].memory_usage_bytes == 0,
        SendType::ReliableOrdered { resend_time } => rel.contains_key(c.channel_id) && !unrel.contains_key(c.channel_id)
            && rel[c.channel_id].channel_id == c.channel_id && rel[c.channel_id].resend_time == resend_time
            && rel[c.channel_id].max_memory_usage_bytes == c.max_memory_usage_bytes && rel[c.channel_id].next_reliable_message_id == 0,
        SendType::ReliableUnordered { resend_time } => rel.contains_key(c.channel_id) && !unrel.contains_key(c.channel_id)
            && rel[c.channel_id].channel_id == c.channel_id && rel[c.channel_id].resend_time == resend_time
            && rel[c.channel_id].max_memory_usage_bytes == c.max_memory_usage_bytes && rel[c.channel_id].next_reliable_message_id == 0,
    }
}

pub open spec fn order_entry(c: ChannelConfig) -> ChannelOrder {
    match c.send_type {
        SendType::Unreliable => ChannelOrder::Unreliable(c.channel_id),
        _ => ChannelOrder::Reliable(c.channel_id),
    }
}
// ---- end shared wiring specs ----
