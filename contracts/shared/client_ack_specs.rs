// ---- shared specification: acknowledgement handling in RenetClient::process_packet ----
impl RenetClient {
    /// every record of a sent packet names an existing reliable send channel and message ids / slice indices of the kind they were recorded for
    /// (written by get_packets_to_send from the packets it hands out: established there for every new record and kept by every operation, round 4)
    pub open spec fn record_ok(&self, info: PacketSentInfo) -> bool {
        match info {
            PacketSentInfo::None => true,
            PacketSentInfo::ReliableMessages { channel_id, message_ids } => {
                &&& self.send_reliable_channels@.contains_key(channel_id)
                // the ids were handed out before the record was written (so a message submitted later never falls under an old record) ...
                &&& forall|k: int| 0 <= k < message_ids@.len() ==> (#[trigger] message_ids@[k]) < self.send_reliable_channels@[channel_id].next_reliable_message_id
                // ... and as long as they are queued they are small messages
                &&& forall|k: int| 0 <= k < message_ids@.len() ==>
                        (self.send_reliable_channels@[channel_id].unacked_messages@.contains_key(#[trigger] message_ids@[k])
                            ==> self.send_reliable_channels@[channel_id].unacked_messages@[message_ids@[k]] is Small)
            },
            PacketSentInfo::ReliableSliceMessage { channel_id, message_id, slice_index } => {
                &&& self.send_reliable_channels@.contains_key(channel_id)
                &&& message_id < self.send_reliable_channels@[channel_id].next_reliable_message_id
                &&& (self.send_reliable_channels@[channel_id].unacked_messages@.contains_key(message_id) ==>
                        (self.send_reliable_channels@[channel_id].unacked_messages@[message_id] matches
                            UnackedMessage::Sliced { message, num_slices, num_acked_slices, next_slice_to_send, acked, last_sent } && slice_index < num_slices))
            },
            PacketSentInfo::Ack { largest_acked_packet } => largest_acked_packet < 0x4000_0000_0000_0000,
        }
    }

    pub open spec fn records_ok(&self) -> bool {
        forall|q: u64| #[trigger] self.sent_packets@.contains_key(q) ==> self.record_ok(self.sent_packets@[q].info)
    }

    /// nothing is added to or changed in a reliable send channel: messages can only disappear (released) or have slices marked
    pub open spec fn send_reliable_only_released(pre: RenetClient, post: RenetClient) -> bool {
        &&& post.send_reliable_channels@.dom() == pre.send_reliable_channels@.dom()
        &&& forall|c: u8| #[trigger] pre.send_reliable_channels@.contains_key(c) ==> {
                let a = pre.send_reliable_channels@[c];
                let b = post.send_reliable_channels@[c];
                &&& b.wf()
                &&& b.next_reliable_message_id == a.next_reliable_message_id && b.max_memory_usage_bytes == a.max_memory_usage_bytes
                &&& forall|id: u64| #[trigger] b.unacked_messages@.contains_key(id) ==> a.unacked_messages@.contains_key(id)
                        && b.unacked_messages@[id].msg() == a.unacked_messages@[id].msg()
                        && (b.unacked_messages@[id] is Small) == (a.unacked_messages@[id] is Small)
                        && (a.unacked_messages@[id] matches UnackedMessage::Sliced { message, num_slices, num_acked_slices, next_slice_to_send, acked, last_sent }
                                ==> b.unacked_messages@[id]->Sliced_num_slices == num_slices)
            }
    }

    pub open spec fn in_some_range(ranges: Seq<(u64, u64)>, q: u64) -> bool {
        exists|i: int| 0 <= i < ranges.len() && (#[trigger] ranges[i]).0 <= q < ranges[i].1
    }

    /// what RenetClient::process_packet does with a decoded acknowledgement packet
    pub open spec fn ack_effect(pre: RenetClient, post: RenetClient, sequence: u64, ranges: Seq<(u64, u64)>) -> bool {
        &&& Self::recv_side_same(pre, post) && post.connection_status == pre.connection_status
        &&& post.send_unreliable_channels@ == pre.send_unreliable_channels@ && post.packet_sequence == pre.packet_sequence
        &&& post.channel_send_order@ == pre.channel_send_order@ && post.current_time == pre.current_time
        &&& post.available_bytes_per_tick == pre.available_bytes_per_tick
        // records: only removed, and exactly those whose sequence number lies inside a received range
        &&& forall|q: u64| #[trigger] post.sent_packets@.contains_key(q) ==> pre.sent_packets@.contains_key(q) && post.sent_packets@[q] == pre.sent_packets@[q]
        &&& forall|q: u64| #[trigger] pre.sent_packets@.contains_key(q) ==> (post.sent_packets@.contains_key(q) <==> !Self::in_some_range(ranges, q))
        // send side: nothing added or altered, messages only released
        &&& Self::send_reliable_only_released(pre, post)
        // our own pending acks: this packet's sequence is recorded, and the list is otherwise only trimmed (acknowledgement of our ack packets)
        &&& acks_wf(post.pending_acks@) && post.pending_acks@.len() <= 64
        &&& forall|x: u64| acks_cover(post.pending_acks@, x) ==> x == sequence || acks_cover(pre.pending_acks@, x)
    }
}

impl RenetClient {
    /// RenetClient::update keeps the record invariant: by its contract (unit U18, clauses `update.sent_records_only_removed` and `update.frame`)
    /// records are only removed and the reliable send channels are untouched
    pub proof fn lemma_records_ok_after_update(pre: RenetClient, post: RenetClient)
        requires
            pre.records_ok(),
            post.send_reliable_channels@ == pre.send_reliable_channels@,
            forall|q: u64| #[trigger] post.sent_packets@.contains_key(q) ==> pre.sent_packets@.contains_key(q) && post.sent_packets@[q] == pre.sent_packets@[q],
        ensures post.records_ok(),
    {
        assert forall|q: u64| #[trigger] post.sent_packets@.contains_key(q) implies post.record_ok(post.sent_packets@[q].info) by {
            assert(pre.record_ok(pre.sent_packets@[q].info));
        }
    }

    /// transitivity of `send_reliable_only_released`
    pub proof fn lemma_only_released_trans(a: RenetClient, b: RenetClient, c: RenetClient)
        requires Self::send_reliable_only_released(a, b), Self::send_reliable_only_released(b, c),
        ensures Self::send_reliable_only_released(a, c),
    {
        assert forall|ch: u8| #[trigger] a.send_reliable_channels@.contains_key(ch) implies {
            let x = a.send_reliable_channels@[ch];
            let z = c.send_reliable_channels@[ch];
            &&& z.wf()
            &&& z.next_reliable_message_id == x.next_reliable_message_id && z.max_memory_usage_bytes == x.max_memory_usage_bytes
            &&& forall|id: u64| #[trigger] z.unacked_messages@.contains_key(id) ==> x.unacked_messages@.contains_key(id)
                    && z.unacked_messages@[id].msg() == x.unacked_messages@[id].msg()
                    && (z.unacked_messages@[id] is Small) == (x.unacked_messages@[id] is Small)
                    && (x.unacked_messages@[id] matches UnackedMessage::Sliced { message, num_slices, num_acked_slices, next_slice_to_send, acked, last_sent }
                            ==> z.unacked_messages@[id]->Sliced_num_slices == num_slices)
        } by {
            assert(b.send_reliable_channels@.contains_key(ch));
            let x = a.send_reliable_channels@[ch];
            let y = b.send_reliable_channels@[ch];
            let z = c.send_reliable_channels@[ch];
            assert forall|id: u64| #[trigger] z.unacked_messages@.contains_key(id) implies x.unacked_messages@.contains_key(id)
                    && z.unacked_messages@[id].msg() == x.unacked_messages@[id].msg()
                    && (z.unacked_messages@[id] is Small) == (x.unacked_messages@[id] is Small)
                    && (x.unacked_messages@[id] matches UnackedMessage::Sliced { message, num_slices, num_acked_slices, next_slice_to_send, acked, last_sent }
                            ==> z.unacked_messages@[id]->Sliced_num_slices == num_slices) by {
                assert(y.unacked_messages@.contains_key(id));
            }
        }
    }

    pub proof fn lemma_only_released_refl(a: RenetClient)
        requires forall|c: u8| #[trigger] a.send_reliable_channels@.contains_key(c) ==> a.send_reliable_channels@[c].wf(),
        ensures Self::send_reliable_only_released(a, a),
    {}

    /// records stay consistent when messages are only released and records only removed
    pub proof fn lemma_records_ok_after_release(pre: RenetClient, post: RenetClient)
        requires
            pre.records_ok(), Self::send_reliable_only_released(pre, post),
            forall|q: u64| #[trigger] post.sent_packets@.contains_key(q) ==> pre.sent_packets@.contains_key(q) && post.sent_packets@[q] == pre.sent_packets@[q],
        ensures post.records_ok(),
    {
        assert forall|q: u64| #[trigger] post.sent_packets@.contains_key(q) implies post.record_ok(post.sent_packets@[q].info) by {
            assert(pre.sent_packets@.contains_key(q));
            assert(pre.record_ok(pre.sent_packets@[q].info));
            match post.sent_packets@[q].info {
                PacketSentInfo::ReliableMessages { channel_id, message_ids } => {
                    assert(pre.send_reliable_channels@.contains_key(channel_id));
                },
                PacketSentInfo::ReliableSliceMessage { channel_id, message_id, slice_index } => {
                    assert(pre.send_reliable_channels@.contains_key(channel_id));
                },
                _ => {},
            }
        }
    }
}

/// x is among the first k elements of s
pub open spec fn among_first(s: Seq<u64>, k: int, x: u64) -> bool {
    exists|j: int| 0 <= j < k && j < s.len() && #[trigger] s[j] == x
}

/// strictly ascending sequence numbers (hence pairwise distinct)
pub open spec fn strictly_ascending(s: Seq<u64>) -> bool {
    forall|a: int, b: int| 0 <= a < b < s.len() ==> s[a] < s[b]
}
// ---- end shared client ack specs ----
