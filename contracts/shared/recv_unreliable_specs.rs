// ---- shared specification: ReceiveChannelUnreliable (spec functions only) ----
impl ReceiveChannelUnreliable {
    /// structural + accounting invariant; holds after every call, also one that returned Err
    pub open spec fn wf(&self) -> bool {
        &&& self.memory_usage_bytes == bytes_total(self.messages@) + reserved_of(self.slices@)
        &&& self.memory_usage_bytes <= self.max_memory_usage_bytes
        &&& self.max_memory_usage_bytes <= 0x4000_0000_0000_0000
        &&& forall|id: u64| #[trigger] self.slices@.contains_key(id) ==> self.slices@[id].wf()
        &&& forall|id: u64| #[trigger] self.slices_last_received@.contains_key(id) ==> self.slices@.contains_key(id)
    }

    /// every reassembly in progress has a progress timestamp (so the 3 s discard reaches it)
    pub open spec fn clean(&self) -> bool {
        forall|id: u64| #[trigger] self.slices@.contains_key(id) ==> self.slices_last_received@.contains_key(id)
    }

    /// no progress timestamp lies in the future (time only moves forward between calls)
    pub open spec fn not_after(&self, now: Duration) -> bool {
        forall|id: u64| #[trigger] self.slices_last_received@.contains_key(id) ==> self.slices_last_received@[id].nanos <= now.nanos
    }

    /// partially reassembled messages agree with what the peer submitted under that sliced-message id
    pub open spec fn auth(&self, sub: Map<u64, Seq<u8>>) -> bool {
        forall|id: u64| #[trigger] self.slices@.contains_key(id) ==> sub.contains_key(id) && self.slices@[id].agrees(sub[id])
    }
}

pub open spec fn in_prefix(s: Seq<u64>, k: int, x: u64) -> bool {
    exists|j: int| 0 <= j < k && j < s.len() && #[trigger] s[j] == x
}

pub proof fn lemma_in_prefix_step(s: Seq<u64>, k: int)
    requires 0 <= k < s.len(),
    ensures forall|x: u64| in_prefix(s, k + 1, x) <==> in_prefix(s, k, x) || x == s[k],
{
    assert forall|x: u64| in_prefix(s, k + 1, x) <==> in_prefix(s, k, x) || x == s[k] by {
        if in_prefix(s, k + 1, x) {
            let j = choose|j: int| 0 <= j < k + 1 && j < s.len() && #[trigger] s[j] == x;
            if j < k { assert(in_prefix(s, k, x)); }
        }
        if in_prefix(s, k, x) {
            let j = choose|j: int| 0 <= j < k && j < s.len() && #[trigger] s[j] == x;
            assert(s[j] == x);
        }
        if x == s[k] { assert(s[k] == x); }
    }
}

pub proof fn lemma_in_prefix_all(s: Seq<u64>)
    ensures forall|x: u64| in_prefix(s, s.len() as int, x) <==> s.contains(x),
{
    assert forall|x: u64| in_prefix(s, s.len() as int, x) <==> s.contains(x) by {
        if s.contains(x) { let j = choose|j: int| 0 <= j < s.len() && s[j] == x; assert(s[j] == x); }
    }
}

pub open spec fn stale(now: Duration, t: Duration) -> bool {
    now.nanos - t.nanos >= 3_000_000_000
}
// ---- end shared ReceiveChannelUnreliable specs ----
