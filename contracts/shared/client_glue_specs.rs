// ---- shared specification: RenetClient as a whole (invariant between public calls) ----
impl RenetClient {
    /// every channel satisfies its own invariant while the connection is alive; the pending-ack list is always well formed.
    /// (After a disconnect no public call touches a channel again, so nothing is required of them.)
    pub open spec fn channels_wf(&self) -> bool {
        &&& forall|c: u8| #[trigger] self.receive_reliable_channels@.contains_key(c) ==> self.receive_reliable_channels@[c].acc()
        &&& forall|c: u8| #[trigger] self.receive_unreliable_channels@.contains_key(c) ==> self.receive_unreliable_channels@[c].wf()
        &&& forall|c: u8| #[trigger] self.send_reliable_channels@.contains_key(c) ==> self.send_reliable_channels@[c].wf()
        &&& forall|c: u8| #[trigger] self.send_unreliable_channels@.contains_key(c) ==> self.send_unreliable_channels@[c].wf()
    }

    pub open spec fn client_wf(&self) -> bool {
        &&& acks_wf(self.pending_acks@) && self.pending_acks@.len() <= 64
        &&& (!self.disconnected() ==> self.channels_wf())
    }

    /// nothing on the sending side differs
    pub open spec fn send_side_same(pre: RenetClient, post: RenetClient) -> bool {
        &&& post.send_reliable_channels@ == pre.send_reliable_channels@
        &&& post.send_unreliable_channels@ == pre.send_unreliable_channels@
        &&& post.packet_sequence == pre.packet_sequence
        &&& post.sent_packets@ == pre.sent_packets@
        &&& post.channel_send_order@ == pre.channel_send_order@
        &&& post.available_bytes_per_tick == pre.available_bytes_per_tick
        &&& post.current_time == pre.current_time
    }

    /// the reliable receive channels other than `c`, and all unreliable ones, are exactly as before
    pub open spec fn only_reliable_recv_changed(pre: RenetClient, post: RenetClient, c: u8) -> bool {
        &&& post.receive_unreliable_channels@ == pre.receive_unreliable_channels@
        &&& post.receive_reliable_channels@.dom() == pre.receive_reliable_channels@.dom()
        &&& forall|k: u8| k != c && #[trigger] pre.receive_reliable_channels@.contains_key(k) ==> post.receive_reliable_channels@[k] == pre.receive_reliable_channels@[k]
    }

    pub open spec fn only_unreliable_recv_changed(pre: RenetClient, post: RenetClient, c: u8) -> bool {
        &&& post.receive_reliable_channels@ == pre.receive_reliable_channels@
        &&& post.receive_unreliable_channels@.dom() == pre.receive_unreliable_channels@.dom()
        &&& forall|k: u8| k != c && #[trigger] pre.receive_unreliable_channels@.contains_key(k) ==> post.receive_unreliable_channels@[k] == pre.receive_unreliable_channels@[k]
    }

    pub open spec fn recv_side_same(pre: RenetClient, post: RenetClient) -> bool {
        &&& post.receive_reliable_channels@ == pre.receive_reliable_channels@
        &&& post.receive_unreliable_channels@ == pre.receive_unreliable_channels@
    }
}
/// Slice::authentic over the decoded fields of a slice packet
pub open spec fn sv_authentic(slice_index: u64, num_slices: u64, payload: Seq<u8>, m: Seq<u8>) -> bool {
    &&& m.len() > 1200
    &&& (num_slices - 1) * 1200 < m.len() <= num_slices * 1200
    &&& slice_index < num_slices
    &&& payload == slice_bytes(m, num_slices as int, slice_index as int)
}

impl ReceiveChannelReliable {
    /// effect of handing the first `k` (id, bytes) pairs of one packet, in order, to this channel (no error occurred)
    pub open spec fn after_messages_upto(pre: Self, post: Self, msgs: Seq<(u64, Seq<u8>)>, k: int) -> bool {
        &&& post.acc()
        &&& post.oldest_pending_message_id == pre.oldest_pending_message_id && post.is_ordered() == pre.is_ordered()
        &&& post.slices@ == pre.slices@ && post.max_memory_usage_bytes == pre.max_memory_usage_bytes
        &&& forall|id: u64| pre.done(id) ==> post.done(id)
        // every message of the packet is taken over, unless that id was handed over or buffered before
        &&& forall|i: int| 0 <= i < k ==> post.done((#[trigger] msgs[i]).0)
        // nothing fabricated: what is buffered was buffered before or came out of this packet under that id
        &&& forall|id: u64| #[trigger] post.messages@.contains_key(id) ==>
                (pre.messages@.contains_key(id) && post.messages@[id] == pre.messages@[id])
                || exists|i: int| 0 <= i < k && (#[trigger] msgs[i]).0 == id && post.messages@[id]@ == msgs[i].1
        // authentic content stays authentic
        &&& forall|sub: Map<u64, Seq<u8>>| #![trigger pre.auth(sub)] pre.auth(sub)
                && (forall|i: int| 0 <= i < msgs.len() ==> sub.contains_key((#[trigger] msgs[i]).0) && sub[msgs[i].0] == msgs[i].1) ==> post.auth(sub)
    }

    pub open spec fn after_messages(pre: Self, post: Self, msgs: Seq<(u64, Seq<u8>)>) -> bool {
        Self::after_messages_upto(pre, post, msgs, msgs.len() as int)
    }

    pub open spec fn after_slice(pre: Self, post: Self, message_id: u64, slice_index: u64, num_slices: u64, payload: Seq<u8>) -> bool {
        &&& post.acc()
        &&& post.oldest_pending_message_id == pre.oldest_pending_message_id && post.is_ordered() == pre.is_ordered()
        &&& post.max_memory_usage_bytes == pre.max_memory_usage_bytes
        &&& forall|id: u64| pre.done(id) ==> post.done(id)
        &&& (post.messages@ == pre.messages@ || (exists|x: Bytes| post.messages@ == pre.messages@.insert(message_id, x)) && !pre.done(message_id))
        &&& forall|id: u64| id != message_id ==> (post.slices@.contains_key(id) == pre.slices@.contains_key(id))
                && (pre.slices@.contains_key(id) ==> post.slices@[id] == pre.slices@[id])
        &&& forall|sub: Map<u64, Seq<u8>>| #![trigger pre.auth(sub)] pre.auth(sub) && sub.contains_key(message_id)
                && sv_authentic(slice_index, num_slices, payload, sub[message_id]) ==> post.auth(sub)
    }
}

impl ReceiveChannelUnreliable {
    pub open spec fn after_messages(pre: Self, post: Self, msgs: Seq<Seq<u8>>) -> bool {
        &&& post.wf()
        &&& post.slices@ == pre.slices@ && post.slices_last_received@ == pre.slices_last_received@
        &&& post.max_memory_usage_bytes == pre.max_memory_usage_bytes
        // what was queued stays queued in front; what is appended are messages of this packet, verbatim
        &&& post.messages@.len() >= pre.messages@.len()
        &&& post.messages@.take(pre.messages@.len() as int) == pre.messages@
        &&& forall|j: int| pre.messages@.len() <= j < post.messages@.len() ==> msgs.contains((#[trigger] post.messages@[j])@)
    }

    pub open spec fn after_slice(pre: Self, post: Self, message_id: u64, slice_index: u64, num_slices: u64, payload: Seq<u8>) -> bool {
        &&& post.wf()
        &&& post.max_memory_usage_bytes == pre.max_memory_usage_bytes
        &&& (post.messages@ == pre.messages@ || exists|x: Bytes| post.messages@ == pre.messages@.push(x))
        &&& forall|id: u64| id != message_id ==> (post.slices@.contains_key(id) == pre.slices@.contains_key(id))
                && (pre.slices@.contains_key(id) ==> post.slices@[id] == pre.slices@[id])
        &&& forall|sub: Map<u64, Seq<u8>>| #![trigger pre.auth(sub)] pre.auth(sub) && sub.contains_key(message_id)
                && sv_authentic(slice_index, num_slices, payload, sub[message_id]) ==> {
                    &&& post.auth(sub)
                    &&& (post.messages@ != pre.messages@ ==> post.messages@.last()@ == sub[message_id])
                }
    }
}

pub open spec fn pv_sequence(p: PacketV) -> u64 {
    match p {
        PacketV::SmallReliable { sequence, .. } => sequence,
        PacketV::SmallUnreliable { sequence, .. } => sequence,
        PacketV::ReliableSlice { sequence, .. } => sequence,
        PacketV::UnreliableSlice { sequence, .. } => sequence,
        PacketV::Ack { sequence, .. } => sequence,
    }
}

impl RenetClient {
    pub open spec fn dropped_for(post: RenetClient, reason: DisconnectReason) -> bool {
        post.connection_status == (RenetConnectionStatus::Disconnected { reason })
    }

    pub open spec fn dropped_by_channel(post: RenetClient, c: u8) -> bool {
        post.connection_status matches RenetConnectionStatus::Disconnected { reason: DisconnectReason::ReceiveChannelError { channel_id, error } } && channel_id == c
    }

    /// what RenetClient::process_packet does with a packet that decoded to `pv` on a connection that was alive (`pre`)
    pub open spec fn glue_effect(pre: RenetClient, post: RenetClient, pv: PacketV) -> bool {
        // the packet's sequence number is recorded for acknowledgement (an Ack packet may in addition trim the list)
        &&& (!(pv is Ack) ==> ack_added(pre.pending_acks@, post.pending_acks@, pv_sequence(pv)))
        &&& match pv {
            PacketV::SmallReliable { sequence, channel_id, messages } => Self::send_side_same(pre, post) && (
                if !pre.receive_reliable_channels@.contains_key(channel_id) {
                    Self::recv_side_same(pre, post) && Self::dropped_for(post, DisconnectReason::ReceivedInvalidChannelId(channel_id))
                } else {
                    &&& Self::only_reliable_recv_changed(pre, post, channel_id)
                    &&& (post.disconnected() ==> Self::dropped_by_channel(post, channel_id))
                    &&& (!post.disconnected() ==> ReceiveChannelReliable::after_messages(pre.receive_reliable_channels@[channel_id], post.receive_reliable_channels@[channel_id], messages))
                }),
            PacketV::SmallUnreliable { sequence, channel_id, messages } => Self::send_side_same(pre, post) && (
                if !pre.receive_unreliable_channels@.contains_key(channel_id) {
                    Self::recv_side_same(pre, post) && Self::dropped_for(post, DisconnectReason::ReceivedInvalidChannelId(channel_id))
                } else {
                    &&& Self::only_unreliable_recv_changed(pre, post, channel_id)
                    &&& !post.disconnected()
                    &&& ReceiveChannelUnreliable::after_messages(pre.receive_unreliable_channels@[channel_id], post.receive_unreliable_channels@[channel_id], messages)
                }),
            PacketV::ReliableSlice { sequence, channel_id, message_id, slice_index, num_slices, payload } => Self::send_side_same(pre, post) && (
                if !pre.receive_reliable_channels@.contains_key(channel_id) {
                    Self::recv_side_same(pre, post) && Self::dropped_for(post, DisconnectReason::ReceivedInvalidChannelId(channel_id))
                } else {
                    &&& Self::only_reliable_recv_changed(pre, post, channel_id)
                    &&& (post.disconnected() ==> Self::dropped_by_channel(post, channel_id))
                    &&& (!post.disconnected() ==> ReceiveChannelReliable::after_slice(pre.receive_reliable_channels@[channel_id],
                            post.receive_reliable_channels@[channel_id], message_id, slice_index, num_slices, payload))
                }),
            PacketV::UnreliableSlice { sequence, channel_id, message_id, slice_index, num_slices, payload } => Self::send_side_same(pre, post) && (
                if !pre.receive_unreliable_channels@.contains_key(channel_id) {
                    Self::recv_side_same(pre, post) && Self::dropped_for(post, DisconnectReason::ReceivedInvalidChannelId(channel_id))
                } else {
                    &&& Self::only_unreliable_recv_changed(pre, post, channel_id)
                    &&& (post.disconnected() ==> Self::dropped_by_channel(post, channel_id))
                    &&& ReceiveChannelUnreliable::after_slice(pre.receive_unreliable_channels@[channel_id],
                            post.receive_unreliable_channels@[channel_id], message_id, slice_index, num_slices, payload)
                    // a slice the peer's sender produced never costs the connection
                    &&& (forall|sub: Map<u64, Seq<u8>>| #![trigger pre.receive_unreliable_channels@[channel_id].auth(sub)]
                            pre.receive_unreliable_channels@[channel_id].auth(sub) && sub.contains_key(message_id)
                            && sv_authentic(slice_index, num_slices, payload, sub[message_id]) ==> !post.disconnected())
                }),
            PacketV::Ack { sequence, ranges } => Self::ack_effect(pre, post, sequence, ranges),
        }
    }
}

impl RenetClient {
    /// the fields that are not channel tables (nor the connection status) are as before
    pub open spec fn scalars_same(pre: RenetClient, post: RenetClient) -> bool {
        &&& post.packet_sequence == pre.packet_sequence && post.current_time == pre.current_time
        &&& post.sent_packets@ == pre.sent_packets@ && post.pending_acks@ == pre.pending_acks@
        &&& post.channel_send_order@ == pre.channel_send_order@ && post.available_bytes_per_tick == pre.available_bytes_per_tick
        &&& post.stats == pre.stats && post.rtt == pre.rtt
    }

    /// everything but the reliable send channel `c` (and possibly the connection status) is as before
    pub open spec fn only_reliable_send_changed(pre: RenetClient, post: RenetClient, c: u8) -> bool {
        &&& Self::scalars_same(pre, post) && Self::recv_side_same(pre, post) && post.send_unreliable_channels@ == pre.send_unreliable_channels@
        &&& post.send_reliable_channels@.dom() == pre.send_reliable_channels@.dom()
        &&& forall|k: u8| k != c && #[trigger] pre.send_reliable_channels@.contains_key(k) ==> post.send_reliable_channels@[k] == pre.send_reliable_channels@[k]
    }

    pub open spec fn only_unreliable_send_changed(pre: RenetClient, post: RenetClient, c: u8) -> bool {
        &&& Self::scalars_same(pre, post) && Self::recv_side_same(pre, post) && post.send_reliable_channels@ == pre.send_reliable_channels@
        &&& post.connection_status == pre.connection_status
        &&& post.send_unreliable_channels@.dom() == pre.send_unreliable_channels@.dom()
        &&& forall|k: u8| k != c && #[trigger] pre.send_unreliable_channels@.contains_key(k) ==> post.send_unreliable_channels@[k] == pre.send_unreliable_channels@[k]
    }

    /// RenetClient::send_message(c, b) on a live connection: the message goes to channel `c` and to no other
    pub open spec fn send_effect(pre: RenetClient, post: RenetClient, c: u8, b: Bytes) -> bool {
        if pre.send_reliable_channels@.contains_key(c) {
            let ch = pre.send_reliable_channels@[c];
            let ch2 = post.send_reliable_channels@[c];
            &&& Self::only_reliable_send_changed(pre, post, c)
            // refused only when the channel budget would be exceeded: the connection is dropped with that reason, the channel is untouched
            &&& (post.disconnected() ==> ch2 == ch && ch.memory_usage_bytes + b@.len() > ch.max_memory_usage_bytes
                    && (post.connection_status matches RenetConnectionStatus::Disconnected { reason: DisconnectReason::SendChannelError { channel_id, error } } && channel_id == c))
            // accepted: stored verbatim under the next message id, the budget is charged exactly its length
            &&& (!post.disconnected() ==> ch2.wf()
                    && ch2.next_reliable_message_id == ch.next_reliable_message_id + 1
                    && ch2.unacked_messages@.dom() == ch.unacked_messages@.dom().insert(ch.next_reliable_message_id)
                    && ch2.unacked_messages@[ch.next_reliable_message_id].msg() == b
                    && ch2.memory_usage_bytes == ch.memory_usage_bytes + b@.len()
                    && (forall|id: u64| ch.unacked_messages@.contains_key(id) ==> ch2.unacked_messages@[id] == ch.unacked_messages@[id]))
        } else {
            let ch = pre.send_unreliable_channels@[c];
            let ch2 = post.send_unreliable_channels@[c];
            &&& pre.send_unreliable_channels@.contains_key(c)
            &&& Self::only_unreliable_send_changed(pre, post, c)
            &&& ch2.wf()
            // queued verbatim at the end, or dropped whole when over budget (never an error)
            &&& (ch2.unreliable_messages@ == ch.unreliable_messages@.push(b) && ch2.memory_usage_bytes == ch.memory_usage_bytes + b@.len()
                 || ch2 == ch && ch.memory_usage_bytes + b@.len() > ch.max_memory_usage_bytes)
        }
    }
}

impl ReceiveChannelReliable {
    /// the contract of ReceiveChannelReliable::receive_message as one predicate (pre state, post state, result)
    pub open spec fn after_receive(pre: Self, post: Self, r: Option<Bytes>) -> bool {
        &&& post.acc()
        &&& post.max_memory_usage_bytes == pre.max_memory_usage_bytes && post.is_ordered() == pre.is_ordered() && post.slices@ == pre.slices@
        &&& forall|id: u64| pre.done(id) ==> post.done(id)
        &&& (r is None ==> post.messages@ == pre.messages@ && post.oldest_pending_message_id == pre.oldest_pending_message_id
                && post.memory_usage_bytes == pre.memory_usage_bytes)
        // ordered: exactly the next id, in order, no gap
        &&& (pre.is_ordered() ==> (r is Some <==> pre.messages@.contains_key(pre.oldest_pending_message_id)))
        &&& (pre.is_ordered() ==> (r matches Some(x) ==> x == pre.messages@[pre.oldest_pending_message_id]
                && post.oldest_pending_message_id == pre.oldest_pending_message_id + 1
                && post.messages@ == pre.messages@.remove(pre.oldest_pending_message_id)))
        // unordered: whenever something complete is buffered
        &&& (!pre.is_ordered() ==> (r is None <==> pre.messages@.len() == 0))
        &&& (!pre.is_ordered() ==> (r matches Some(x) ==> exists|id: u64| #![trigger pre.messages@.contains_key(id)]
                pre.messages@.contains_key(id) && x == pre.messages@[id] && post.messages@ == pre.messages@.remove(id)))
        &&& (r matches Some(x) ==> post.memory_usage_bytes + x@.len() == pre.memory_usage_bytes)
        &&& (pre.clean() ==> post.clean())
        &&& forall|sub: Map<u64, Seq<u8>>| #![trigger pre.auth(sub)] pre.auth(sub) ==> post.auth(sub)
    }
}

impl ReceiveChannelUnreliable {
    pub open spec fn after_receive(pre: Self, post: Self, r: Option<Bytes>) -> bool {
        &&& post.wf()
        &&& (r is None <==> pre.messages@.len() == 0)
        &&& (r is None ==> post.messages@ == pre.messages@ && post.memory_usage_bytes == pre.memory_usage_bytes)
        &&& (r matches Some(x) ==> x == pre.messages@[0] && post.messages@ == pre.messages@.subrange(1, pre.messages@.len() as int)
                && post.memory_usage_bytes + x@.len() == pre.memory_usage_bytes)
        &&& post.slices@ == pre.slices@ && post.slices_last_received@ == pre.slices_last_received@
        &&& post.max_memory_usage_bytes == pre.max_memory_usage_bytes
    }
}

impl RenetClient {
    /// RenetClient::receive_message(c) on a live connection: the named channel's receive_message, nothing else
    pub open spec fn recv_effect(pre: RenetClient, post: RenetClient, c: u8, r: Option<Bytes>) -> bool {
        &&& Self::scalars_same(pre, post) && post.connection_status == pre.connection_status
        &&& post.send_reliable_channels@ == pre.send_reliable_channels@ && post.send_unreliable_channels@ == pre.send_unreliable_channels@
        &&& if pre.receive_reliable_channels@.contains_key(c) {
                &&& Self::only_reliable_recv_changed(pre, post, c)
                &&& ReceiveChannelReliable::after_receive(pre.receive_reliable_channels@[c], post.receive_reliable_channels@[c], r)
            } else {
                &&& pre.receive_unreliable_channels@.contains_key(c)
                &&& Self::only_unreliable_recv_changed(pre, post, c)
                &&& ReceiveChannelUnreliable::after_receive(pre.receive_unreliable_channels@[c], post.receive_unreliable_channels@[c], r)
            }
    }
}

pub mod glue_lemmas {
use vstd::prelude::*;
use super::*;
verus! {
/// two maps with the same domain that agree once key `id` is dropped agree on every other key (frame of HashMap::get_mut)
pub broadcast proof fn lemma_same_but_one<V>(a: Map<u8, V>, b: Map<u8, V>, m2: Map<u8, V>, id: u8)
    requires
        #[trigger] vstd::std_specs::hash::borrowed_key_removed(a, m2, &id),
        #[trigger] vstd::std_specs::hash::borrowed_key_removed(b, m2, &id),
        a.dom() == b.dom(),
    ensures
        forall|j: u8| j != id && #[trigger] a.contains_key(j) ==> b[j] == a[j],
{
    assert forall|j: u8| j != id && #[trigger] a.contains_key(j) implies b[j] == a[j] by {
        assert(a.remove(id)[j] == a[j]);
        assert(b.remove(id)[j] == b[j]);
    }
}
}
}
// ---- end shared client glue specs ----
