//@unit U8 props=C11,C12 RenetClient connection status (renet/src/remote_connection.rs)
#![feature(allocator_api)]
#![allow(unused_imports, dead_code, unused_variables, unused_mut)]
use vstd::prelude::*;
use std::collections::{BTreeMap, HashMap};
use std::ops::Range;
verus! {

global size_of usize == 8;

// placeholders for field types this unit never looks into (rule D7)
pub struct PacketSent;
pub struct ChannelOrder;
pub struct SendChannelUnreliable;
pub struct ReceiveChannelUnreliable;
pub struct SendChannelReliable;
pub struct ReceiveChannelReliable;
pub struct ConnectionStats;
pub struct Duration;

#[derive(Clone, Copy, Debug, PartialEq, Eq)]
//@extract enum renet/src/packet.rs SerializationError
#[derive(Clone, Copy, Debug, PartialEq, Eq)]
//@extract enum renet/src/error.rs ChannelError
#[derive(Clone, Copy, Debug, PartialEq, Eq)]
//@extract enum renet/src/error.rs DisconnectReason
//@extract enum renet/src/remote_connection.rs RenetConnectionStatus
//@extract struct renet/src/remote_connection.rs RenetClient

//@include contracts/shared/client_status_specs.rs

impl RenetClient {
//@fn renet/src/remote_connection.rs RenetClient::is_connected
//@ret r
//@specfile contracts/shared/RenetClient.is_connected.spec
//@endfn

//@fn renet/src/remote_connection.rs RenetClient::is_connecting
//@ret r
//@specfile contracts/shared/RenetClient.is_connecting.spec
//@endfn

//@fn renet/src/remote_connection.rs RenetClient::is_disconnected
//@ret r
//@specfile contracts/shared/RenetClient.is_disconnected.spec
//@endfn

//@fn renet/src/remote_connection.rs RenetClient::disconnect_reason
//@ret r
//@specfile contracts/shared/RenetClient.disconnect_reason.spec
//@endfn

//@fn renet/src/remote_connection.rs RenetClient::set_connected
//@specfile contracts/shared/RenetClient.set_connected.spec
//@endfn

//@fn renet/src/remote_connection.rs RenetClient::set_connecting
//@specfile contracts/shared/RenetClient.set_connecting.spec
//@endfn

//@fn renet/src/remote_connection.rs RenetClient::disconnect
//@specfile contracts/shared/RenetClient.disconnect.spec
//@endfn

//@fn renet/src/remote_connection.rs RenetClient::disconnect_due_to_transport
//@specfile contracts/shared/RenetClient.disconnect_due_to_transport.spec
//@endfn

//@fn renet/src/remote_connection.rs RenetClient::disconnect_with_reason
//@specfile contracts/shared/RenetClient.disconnect_with_reason.spec
//@endfn
}

} // verus!
fn main() {}
