//@unit U15 props=C01,C02,C03,C06,C08,C09,C12,C15 rlimit=100 RenetClient glue: process_packet, send_message, receive_message (renet/src/remote_connection.rs)
#![feature(allocator_api)]
#![allow(unused_imports, dead_code, unused_variables, unused_mut)]
use vstd::prelude::*;
use std::collections::{btree_map, BTreeMap, BTreeSet, HashMap, VecDeque};
use std::ops::Range;
verus! {

global size_of usize == 8;

//@include shims/bytes.rs
//@include shims/duration.rs
//@include shims/std_maps.rs
//@include shims/div_ceil.rs
//@include shims/octets.rs

broadcast use {octets::axiom_varint_enc_len};

// field types this unit never looks into (rule D7)
pub struct ConnectionStats;

//@extract const renet/src/packet.rs SLICE_SIZE
#[derive(Clone, Copy, Debug, PartialEq, Eq)]
//@extract enum renet/src/packet.rs SerializationError
#[derive(Clone, Copy, Debug, PartialEq, Eq)]
//@extract enum renet/src/error.rs ChannelError
#[derive(Clone, Copy, Debug, PartialEq, Eq)]
//@extract enum renet/src/error.rs DisconnectReason
//@extract enum renet/src/remote_connection.rs RenetConnectionStatus
//@extract enum renet/src/remote_connection.rs ChannelOrder
//@extract enum renet/src/remote_connection.rs PacketSentInfo
//@extract struct renet/src/remote_connection.rs PacketSent
//@extract struct renet/src/packet.rs Slice
//@extract enum renet/src/packet.rs Packet
//@extract struct renet/src/channel/slice_constructor.rs SliceConstructor
//@extract enum renet/src/channel/reliable.rs ReliableOrder
//@extract enum renet/src/channel/reliable.rs UnackedMessage
//@extract struct renet/src/channel/reliable.rs ReceiveChannelReliable
//@extract struct renet/src/channel/reliable.rs SendChannelReliable
//@extract struct renet/src/channel/unreliable.rs ReceiveChannelUnreliable
//@extract struct renet/src/channel/unreliable.rs SendChannelUnreliable
//@extract struct renet/src/remote_connection.rs RenetClient

//@include contracts/shared/sum_specs.rs
//@include contracts/shared/count_specs.rs
//@include contracts/shared/slice_specs.rs
//@include contracts/shared/sc_specs.rs
//@include contracts/shared/packet_bytes_specs.rs
//@include contracts/shared/slices_sum_specs.rs
//@include contracts/shared/packet_specs.rs
//@include contracts/shared/recv_reliable_specs.rs
//@include contracts/shared/recv_unreliable_specs.rs
//@include contracts/shared/unacked_specs.rs
//@include contracts/shared/send_reliable_specs.rs
//@include contracts/shared/send_unreliable_specs.rs
//@include contracts/shared/wire_specs.rs
//@include contracts/shared/wire_format_specs.rs
//@include contracts/shared/ack_specs.rs
//@include contracts/shared/client_status_specs.rs
//@include contracts/shared/client_ack_specs.rs
//@include contracts/shared/client_glue_specs.rs

impl ConnectionStats {
    // statistics only (floating point, never read by the protocol): no contract
    #[verifier::external_body]
    pub fn received_packet(&mut self, bytes: u64) { unimplemented!() }
    #[verifier::external_body]
    pub fn acked_packet(&mut self, sent_at: Duration, current_time: Duration) { unimplemented!() }
}

/// the two range types `BTreeMap::range` is modelled for: bounds as (inclusive low, exclusive high) and std's no-panic condition
pub trait RangeModel {
    spec fn lo(&self) -> int;
    spec fn hi(&self) -> int;
    spec fn valid(&self) -> bool;
}
impl RangeModel for Range<u64> {
    open spec fn lo(&self) -> int { self.start as int }
    open spec fn hi(&self) -> int { self.end as int }
    open spec fn valid(&self) -> bool { self.start <= self.end }      // std: "range start is greater than range end" panics
}
impl RangeModel for core::ops::RangeInclusive<u64> {
    open spec fn lo(&self) -> int { self@.start as int }
    open spec fn hi(&self) -> int { self@.end + 1 }
    open spec fn valid(&self) -> bool { self@.start <= self@.end }
}

/// rule D18 -- ASSUMED: the loop `for (&sequence, _) in self.sent_packets.range(R) { new_acks.push(sequence) }` as a whole, i.e. std's
/// `BTreeMap::range`: the keys inside the range, ascending, each once, appended to `new_acks`.  std panics when start > end: kept as a
/// precondition.  Modelled for `a..b` and `a..=b`; any other range type does not type-check against this summary (undecided, never an alarm).
#[verifier::external_body]
pub fn collect_acked_in_range<R: core::ops::RangeBounds<u64> + RangeModel>(sent_packets: &BTreeMap<u64, PacketSent>, range: R, new_acks: &mut Vec<u64>)
    requires range.valid(),
    ensures
        final(new_acks)@.len() >= old(new_acks)@.len(),
        final(new_acks)@.subrange(0, old(new_acks)@.len() as int) == old(new_acks)@,
        forall|j: int| old(new_acks)@.len() <= j < final(new_acks)@.len() ==>
            sent_packets@.contains_key(#[trigger] final(new_acks)@[j]) && range.lo() <= final(new_acks)@[j] < range.hi(),
        forall|a: int, b: int| old(new_acks)@.len() <= a < b < final(new_acks)@.len() ==> final(new_acks)@[a] < final(new_acks)@[b],
        forall|q: u64| sent_packets@.contains_key(q) && range.lo() <= q < range.hi() ==>
            exists|j: int| old(new_acks)@.len() <= j < final(new_acks)@.len() && #[trigger] final(new_acks)@[j] == q,
{ unimplemented!() }

/// rule D19: the round-trip-time estimate (floating point: `as_secs_f64`, `f64::EPSILON`, `* 0.875 + * 0.125`) is outside Verus' subset.
/// It is handed only `self.rtt`; nothing else can change.  `rtt` is a statistic, never read by the protocol.
#[verifier::external_body]
pub fn update_rtt_unverified(rtt: &mut f64, current_time: Duration, sent_at: Duration) { unimplemented!() }

// ---- callees: contracts proved on the real bodies in U1, U4, U5, U8, U13 ----
impl Packet {
//@stub renet/src/packet.rs Packet::from_bytes
//@ret r
//@specfile contracts/shared/Packet.from_bytes.spec
//@endfn
//@stub renet/src/packet.rs Packet::sequence
//@ret r
//@specfile contracts/shared/Packet.sequence.spec
//@endfn
}
impl ReceiveChannelReliable {
//@stub renet/src/channel/reliable.rs ReceiveChannelReliable::process_message
//@ret r
//@specfile contracts/shared/ReceiveChannelReliable.process_message.spec
//@endfn
//@stub renet/src/channel/reliable.rs ReceiveChannelReliable::process_slice
//@ret r
//@specfile contracts/shared/ReceiveChannelReliable.process_slice.spec
//@endfn
//@stub renet/src/channel/reliable.rs ReceiveChannelReliable::receive_message
//@ret r
//@specfile contracts/shared/ReceiveChannelReliable.receive_message.spec
//@endfn
}
impl SendChannelReliable {
//@stub renet/src/channel/reliable.rs SendChannelReliable::process_message_ack
//@specfile contracts/shared/SendChannelReliable.process_message_ack.spec
//@endfn
//@stub renet/src/channel/reliable.rs SendChannelReliable::process_slice_message_ack
//@specfile contracts/shared/SendChannelReliable.process_slice_message_ack.spec
//@endfn
//@stub renet/src/channel/reliable.rs SendChannelReliable::send_message
//@ret r
//@specfile contracts/shared/SendChannelReliable.send_message.spec
//@endfn
}
impl SendChannelUnreliable {
//@stub renet/src/channel/unreliable.rs SendChannelUnreliable::send_message
//@specfile contracts/shared/SendChannelUnreliable.send_message.spec
//@endfn
}
impl ReceiveChannelUnreliable {
//@stub renet/src/channel/unreliable.rs ReceiveChannelUnreliable::process_message
//@specfile contracts/shared/ReceiveChannelUnreliable.process_message.spec
//@endfn
//@stub renet/src/channel/unreliable.rs ReceiveChannelUnreliable::process_slice
//@ret r
//@specfile contracts/shared/ReceiveChannelUnreliable.process_slice.spec
//@endfn
//@stub renet/src/channel/unreliable.rs ReceiveChannelUnreliable::receive_message
//@ret r
//@specfile contracts/shared/ReceiveChannelUnreliable.receive_message.spec
//@endfn
}

impl RenetClient {
//@stub renet/src/remote_connection.rs RenetClient::is_disconnected
//@ret r
//@specfile contracts/shared/RenetClient.is_disconnected.spec
//@endfn
//@stub renet/src/remote_connection.rs RenetClient::disconnect_with_reason
//@specfile contracts/shared/RenetClient.disconnect_with_reason.spec
//@endfn
//@stub renet/src/remote_connection.rs RenetClient::acked_largest
//@specfile contracts/shared/RenetClient.acked_largest.spec
//@endfn
//@stub renet/src/remote_connection.rs RenetClient::add_pending_ack
//@specfile contracts/shared/RenetClient.add_pending_ack.spec
//@endfn

//@fn renet/src/remote_connection.rs RenetClient::send_message
//@specfile contracts/shared/RenetClient.send_message.spec
//@entry
        let ghost s0 = *self;
        let ghost cid0 = channel_id;
        let ghost msg0 = message;
        proof { broadcast use glue_lemmas::lemma_same_but_one; }
//@after /let channel_id = channel_id\.into\(\);/
        proof { assert(call_ensures(<I as Into<u8>>::into, (cid0,), channel_id)); }
//@after /if let Some\(reliable_channel\) = self\.send_reliable_channels\.get_mut\(&channel_id\) \{/
            proof {
                assert(vstd::std_specs::hash::borrowed_key_removed(s0.send_reliable_channels@, s0.send_reliable_channels@.remove(channel_id), &channel_id));
                assert(*reliable_channel == s0.send_reliable_channels@[channel_id]);
            }
//@after /unreliable_channel\.send_message\(message\.into\(\)\);/
            let ghost uc0 = s0.send_unreliable_channels@[channel_id];
            let ghost uc1 = *unreliable_channel;
            let ghost ub = choose|b: Bytes| #[trigger] call_ensures(<B as Into<Bytes>>::into, (msg0,), b) && uc1.wf()
                    && (uc1.unreliable_messages@ == uc0.unreliable_messages@.push(b) && uc1.memory_usage_bytes == uc0.memory_usage_bytes + b@.len()
                        || uc1 == uc0 && uc0.memory_usage_bytes + b@.len() > uc0.max_memory_usage_bytes);
            proof {
                assert(self.send_unreliable_channels@[channel_id] == uc1);
                assert(Self::send_effect(s0, *self, channel_id, ub));
            }
//@before /\} else if let Some\(unreliable_channel\) = self\.send_unreliable_channels\.get_mut\(&channel_id\) \{/
            proof {
                let rc0 = s0.send_reliable_channels@[channel_id];
                let rc1 = self.send_reliable_channels@[channel_id];
                let rb = choose|b: Bytes| #[trigger] call_ensures(<B as Into<Bytes>>::into, (msg0,), b)
                    && (self.disconnected() ==> rc1 == rc0 && rc0.memory_usage_bytes + b@.len() > rc0.max_memory_usage_bytes)
                    && (!self.disconnected() ==> rc1.wf() && rc1.next_reliable_message_id == rc0.next_reliable_message_id + 1
                        && rc1.unacked_messages@.dom() == rc0.unacked_messages@.dom().insert(rc0.next_reliable_message_id)
                        && rc1.unacked_messages@[rc0.next_reliable_message_id].msg() == b
                        && rc1.memory_usage_bytes == rc0.memory_usage_bytes + b@.len());
                assert(Self::send_effect(s0, *self, channel_id, rb));
            }
//@after /\} else if let Some\(unreliable_channel\) = self\.send_unreliable_channels\.get_mut\(&channel_id\) \{/
            proof {
                assert(vstd::std_specs::hash::borrowed_key_removed(s0.send_unreliable_channels@, s0.send_unreliable_channels@.remove(channel_id), &channel_id));
                assert(*unreliable_channel == s0.send_unreliable_channels@[channel_id]);
            }
//@endfn

//@fn renet/src/remote_connection.rs RenetClient::receive_message
//@ret r
//@specfile contracts/shared/RenetClient.receive_message.spec
//@entry
        let ghost s0 = *self;
        let ghost cid0 = channel_id;
        proof { broadcast use glue_lemmas::lemma_same_but_one; }
//@after /let channel_id = channel_id\.into\(\);/
        proof { assert(call_ensures(<I as Into<u8>>::into, (cid0,), channel_id)); }
//@after /if let Some\(reliable_channel\) = self\.receive_reliable_channels\.get_mut\(&channel_id\) \{/
            proof {
                assert(vstd::std_specs::hash::borrowed_key_removed(s0.receive_reliable_channels@, s0.receive_reliable_channels@.remove(channel_id), &channel_id));
                assert(*reliable_channel == s0.receive_reliable_channels@[channel_id]);
            }
//@after /\} else if let Some\(unreliable_channel\) = self\.receive_unreliable_channels\.get_mut\(&channel_id\) \{/
            proof {
                assert(vstd::std_specs::hash::borrowed_key_removed(s0.receive_unreliable_channels@, s0.receive_unreliable_channels@.remove(channel_id), &channel_id));
                assert(*unreliable_channel == s0.receive_unreliable_channels@[channel_id]);
            }
//@tail /^\s+reliable_channel\.receive_message\(\)$/
            proof {
                assert(ReceiveChannelReliable::after_receive(s0.receive_reliable_channels@[channel_id], self.receive_reliable_channels@[channel_id], __tail1));
                assert(Self::recv_effect(s0, *self, channel_id, __tail1));
            }
//@tail /^\s+unreliable_channel\.receive_message\(\)$/
            proof {
                assert(ReceiveChannelUnreliable::after_receive(s0.receive_unreliable_channels@[channel_id], self.receive_unreliable_channels@[channel_id], __tail2));
                assert(Self::recv_effect(s0, *self, channel_id, __tail2));
            }
//@endfn

//@fn renet/src/remote_connection.rs RenetClient::process_packet
//@safety C06
//@attr #[verifier::loop_isolation(false)]
//@summarize 4 => collect_acked_in_range(&self.sent_packets, $CALLARGS, &mut new_acks);
//@cut /let rtt = \(self\.current_time - sent_packet\.sent_at\)\.as_secs_f64\(\);/ .. /^\s{20}\}$/ => update_rtt_unverified(&mut self.rtt, self.current_time, sent_packet.sent_at);
//@hoistexit 1 error: ChannelError
//@specfile contracts/shared/RenetClient.process_packet.spec
//@entry
        let ghost s0 = *self;
        let ghost bytes0 = packet@;
        proof { broadcast use glue_lemmas::lemma_same_but_one; }
//@before /self\.add_pending_ack\(packet\.sequence\(\)\);/
        let ghost pv = pview(packet);
        proof { assert(parse(bytes0) matches Some((p, rest)) && p == pv); }
//@after /self\.add_pending_ack\(packet\.sequence\(\)\);/
        let ghost s1 = *self;
        proof {
            assert(packet_seq(packet) == pv_sequence(pv));
            assert(ack_added(s0.pending_acks@, s1.pending_acks@, pv_sequence(pv))) by { reveal(ack_added); }
            assert(Self::send_side_same(s0, s1) && Self::recv_side_same(s0, s1) && s1.connection_status == s0.connection_status);
        }
//@after /^\s+\};$/ 2
                let ghost ch0 = s1.receive_reliable_channels@[channel_id];
                let ghost mseq = messages@;
                let ghost msgs = rel_msgs_view(messages@);
                proof {
                    assert(vstd::std_specs::hash::borrowed_key_removed(s1.receive_reliable_channels@, s1.receive_reliable_channels@.remove(channel_id), &channel_id));
                    assert(*channel == ch0);
                    assert(pv == (PacketV::SmallReliable { sequence: pv_sequence(pv), channel_id, messages: msgs }));
                }
//@loop 1 iter=itM
                    invariant_except_break
                        __hoist1 is None,
                    invariant
                        itM.seq() == mseq,
                        forall|i: int| 0 <= i < mseq.len() ==> (#[trigger] mseq[i]).0 < 0x4000_0000_0000_0000,
                        __hoist1 is None ==> ReceiveChannelReliable::after_messages_upto(ch0, *channel, msgs, itM.index() as int),   // @C01,C02,C03 process_packet.every_message_of_the_packet_reaches_the_channel
//@after /for \(message_id, message\) in messages \{/
                    let ghost k = itM.index() as int;
                    let ghost cb = *channel;
                    proof { assert((message_id, message) == mseq[k]); assert(msgs[k] == (message_id, message@)); }
//@loopend 1
                    proof {
                        assert(cb.acc_off(0));
                        assert(ReceiveChannelReliable::after_messages_upto(ch0, *channel, msgs, k + 1));
                    }
//@after /^\s+\};$/ 3
                let ghost uch0 = s1.receive_unreliable_channels@[channel_id];
                let ghost umseq = messages@;
                let ghost umsgs = unrel_msgs_view(messages@);
                proof {
                    assert(vstd::std_specs::hash::borrowed_key_removed(s1.receive_unreliable_channels@, s1.receive_unreliable_channels@.remove(channel_id), &channel_id));
                    assert(*channel == uch0);
                    assert(pv == (PacketV::SmallUnreliable { sequence: pv_sequence(pv), channel_id, messages: umsgs }));
                    assert(channel.messages@.take(uch0.messages@.len() as int) =~= uch0.messages@);
                }
//@loop 2 iter=itN
                    invariant
                        itN.seq() == umseq,
                        ReceiveChannelUnreliable::after_messages(uch0, *channel, umsgs),     // @C03 process_packet.unreliable_messages_appended_verbatim
//@after /for message in messages \{/
                    let ghost ucb = *channel;
                    proof { assert(message == umseq[itN.index() as int]); assert(umsgs[itN.index() as int] == message@); }
//@loopend 2
                    proof {
                        assert(channel.messages@.take(uch0.messages@.len() as int) =~= ucb.messages@.take(uch0.messages@.len() as int));
                    }
//@after /^\s+\};$/ 4
                let ghost sch0 = s1.receive_reliable_channels@[channel_id];
                proof {
                    assert(vstd::std_specs::hash::borrowed_key_removed(s1.receive_reliable_channels@, s1.receive_reliable_channels@.remove(channel_id), &channel_id));
                    assert(*channel == sch0);
                    assert(pv == (PacketV::ReliableSlice { sequence: pv_sequence(pv), channel_id, message_id: slice.message_id,
                        slice_index: slice.slice_index as u64, num_slices: slice.num_slices as u64, payload: slice.payload@ }));
                    assert(forall|m: Seq<u8>| sv_authentic(slice.slice_index as u64, slice.num_slices as u64, slice.payload@, m) == slice.authentic(m));
                }
//@after /^\s+\};$/ 5
                let ghost usch0 = s1.receive_unreliable_channels@[channel_id];
                proof {
                    assert(vstd::std_specs::hash::borrowed_key_removed(s1.receive_unreliable_channels@, s1.receive_unreliable_channels@.remove(channel_id), &channel_id));
                    assert(*channel == usch0);
                    assert(pv == (PacketV::UnreliableSlice { sequence: pv_sequence(pv), channel_id, message_id: slice.message_id,
                        slice_index: slice.slice_index as u64, num_slices: slice.num_slices as u64, payload: slice.payload@ }));
                    assert(forall|m: Seq<u8>| sv_authentic(slice.slice_index as u64, slice.num_slices as u64, slice.payload@, m) == slice.authentic(m));
                }
//@after /Packet::Ack \{ ack_ranges, \.\. \} => \{/
                let ghost rs = ack_ranges@;
                let ghost rv = ranges_view(rs);
                proof {
                    assert(pv == (PacketV::Ack { sequence: pv_sequence(pv), ranges: rv }));
                    assert(ranges_wf(rs));
                    assert(Self::send_side_same(s0, s1) && s1.records_ok());
                }
//@loop 3 iter=itA3
                    invariant
                        itA3.seq() == rs,
                        strictly_ascending(new_acks@),
                        forall|j: int| 0 <= j < new_acks@.len() ==> s1.sent_packets@.contains_key(#[trigger] new_acks@[j]) && Self::in_some_range(rv, new_acks@[j]),   // @C08 process_packet.only_sequences_inside_a_received_range_count_as_acknowledged
                        itA3.index() > 0 ==> forall|j: int| 0 <= j < new_acks@.len() ==> #[trigger] new_acks@[j] < rs[itA3.index() - 1].end,
                        itA3.index() == 0 ==> new_acks@.len() == 0,
                        forall|q: u64, i: int| s1.sent_packets@.contains_key(q) && 0 <= i < itA3.index() && (#[trigger] rs[i]).start <= q < rs[i].end
                            ==> #[trigger] new_acks@.contains(q),
//@after /for range in ack_ranges \{/
                    let ghost k3 = itA3.index() as int;
                    let ghost na0 = new_acks@;
                    proof {
                        assert(range == rs[k3]);
                        lemma_ranges_wf_at(rs, k3);
                        if k3 > 0 { lemma_ranges_wf_at(rs, k3 - 1); }
                    }
//@loopend 3
                    proof {
                        let na1 = new_acks@;
                        assert(rv[k3] == (rs[k3].start, rs[k3].end));
                        assert forall|j: int| 0 <= j < na1.len() implies s1.sent_packets@.contains_key(#[trigger] na1[j]) && Self::in_some_range(rv, na1[j]) by {   // @C01,C02,C08,C15 process_packet.what_the_lookup_collects_lies_inside_the_received_range
                            if j < na0.len() { assert(na1.subrange(0, na0.len() as int)[j] == na1[j]); }
                        }
                        assert forall|a: int, b: int| 0 <= a < b < na1.len() implies na1[a] < na1[b] by {
                            if a < na0.len() { assert(na1.subrange(0, na0.len() as int)[a] == na1[a]); assert(na0[a] < rs[k3 - 1].end); }
                            if b < na0.len() { assert(na1.subrange(0, na0.len() as int)[b] == na1[b]); assert(na0[a] < na0[b]); }
                        }
                        assert forall|j: int| 0 <= j < na1.len() implies #[trigger] na1[j] < rs[k3].end by {
                            if j < na0.len() { assert(na1.subrange(0, na0.len() as int)[j] == na1[j]); assert(na0[j] < rs[k3 - 1].end); }
                        }
                        assert forall|q: u64, i: int| s1.sent_packets@.contains_key(q) && 0 <= i < k3 + 1 && (#[trigger] rs[i]).start <= q < rs[i].end
                            implies #[trigger] na1.contains(q) by {
                            if i < k3 {
                                assert(na0.contains(q));
                                let j = choose|j: int| 0 <= j < na0.len() && na0[j] == q;
                                assert(na1.subrange(0, na0.len() as int)[j] == na1[j]);
                            }
                        }
                    }
//@before /for packet_sequence in new_acks \{/
                let ghost acks = new_acks@;
                proof { Self::lemma_only_released_refl(s1); }
//@loop 5 iter=itA5
                    invariant
                        itA5.seq() == acks,
                        self.client_wf(), self.records_ok(), self.connection_status == s1.connection_status,
                        Self::recv_side_same(s1, *self), self.send_unreliable_channels@ == s1.send_unreliable_channels@,
                        self.packet_sequence == s1.packet_sequence && self.channel_send_order@ == s1.channel_send_order@
                            && self.current_time == s1.current_time && self.available_bytes_per_tick == s1.available_bytes_per_tick,
                        forall|q: u64| #[trigger] self.sent_packets@.contains_key(q) ==> s1.sent_packets@.contains_key(q) && self.sent_packets@[q] == s1.sent_packets@[q],
                        forall|q: u64| #[trigger] s1.sent_packets@.contains_key(q) ==> (self.sent_packets@.contains_key(q) <==> !among_first(acks, itA5.index() as int, q)),
                        Self::send_reliable_only_released(s1, *self),                                   // @C08 process_packet.acks_only_release_messages
                        forall|x: u64| acks_cover(self.pending_acks@, x) ==> acks_cover(s1.pending_acks@, x),
//@after /for packet_sequence in new_acks \{/
                    let ghost k5 = itA5.index() as int;
                    let ghost s5 = *self;
                    proof {
                        assert(packet_sequence == acks[k5]);
                        assert(!among_first(acks, k5, packet_sequence));
                    }
//@after /let reliable_channel = self\.send_reliable_channels\.get_mut\(&channel_id\)\.unwrap\(\);/ 1
                            let ghost rc0 = s5.send_reliable_channels@[channel_id];
                            let ghost mids = message_ids@;
                            proof {
                                assert(vstd::std_specs::hash::borrowed_key_removed(s5.send_reliable_channels@, s5.send_reliable_channels@.remove(channel_id), &channel_id));
                                assert(*reliable_channel == rc0);
                            }
//@loop 6 iter=itA6
                                invariant
                                    itA6.seq() == mids,
                                    reliable_channel.wf(),
                                    reliable_channel.next_reliable_message_id == rc0.next_reliable_message_id && reliable_channel.max_memory_usage_bytes == rc0.max_memory_usage_bytes,
                                    forall|id: u64| #[trigger] reliable_channel.unacked_messages@.contains_key(id) ==> rc0.unacked_messages@.contains_key(id)
                                        && reliable_channel.unacked_messages@[id] == rc0.unacked_messages@[id],
//@after /for message_id in message_ids \{/
                                proof { assert(message_id == mids[itA6.index() as int]); }
//@after /let reliable_channel = self\.send_reliable_channels\.get_mut\(&channel_id\)\.unwrap\(\);/ 2
                            let ghost rc0 = s5.send_reliable_channels@[channel_id];
                            proof {
                                assert(vstd::std_specs::hash::borrowed_key_removed(s5.send_reliable_channels@, s5.send_reliable_channels@.remove(channel_id), &channel_id));
                                assert(*reliable_channel == rc0);
                            }
//@loopend 5
                    proof {
                        assert(Self::send_reliable_only_released(s5, *self));
                        Self::lemma_only_released_trans(s1, s5, *self);
                        Self::lemma_records_ok_after_release(s5, *self);
                        assert forall|q: u64| #[trigger] s1.sent_packets@.contains_key(q) implies
                            (self.sent_packets@.contains_key(q) <==> !among_first(acks, k5 + 1, q)) by {
                            if q == acks[k5] { assert(among_first(acks, k5 + 1, q)); }
                            else if among_first(acks, k5 + 1, q) {
                                let j = choose|j: int| 0 <= j < k5 + 1 && j < acks.len() && acks[j] == q;
                                assert(among_first(acks, k5, q));
                            }
                        }
                    }
//@afterloop 5
                proof {
                    assert forall|q: u64| #[trigger] s1.sent_packets@.contains_key(q) implies (self.sent_packets@.contains_key(q) <==> !Self::in_some_range(rv, q)) by {
                        if Self::in_some_range(rv, q) {
                            let i = choose|i: int| 0 <= i < rv.len() && (#[trigger] rv[i]).0 <= q < rv[i].1;
                            assert(rs[i].start <= q < rs[i].end);
                            assert(acks.contains(q));
                            let j = choose|j: int| 0 <= j < acks.len() && acks[j] == q;
                            assert(among_first(acks, acks.len() as int, q));
                        } else if among_first(acks, acks.len() as int, q) {
                            let j = choose|j: int| 0 <= j < acks.len() && acks[j] == q;
                            assert(Self::in_some_range(rv, acks[j]));
                        }
                    }
                    assert(forall|x: u64| acks_cover(s1.pending_acks@, x) ==> x == pv_sequence(pv) || acks_cover(s0.pending_acks@, x)) by { reveal(ack_added); }
                    assert(Self::send_reliable_only_released(s0, *self));
                    assert(Self::ack_effect(s0, *self, pv_sequence(pv), rv));
                }
//@endfn
}

} // verus!
fn main() {}
