//@unit U15 props=C01,C02,C03,C06,C08,C09,C12 rlimit=100 RenetClient glue: process_packet, send_message, receive_message (renet/src/remote_connection.rs)
#![feature(allocator_api)]
#![allow(unused_imports, dead_code, unused_variables, unused_mut)]
use vstd::prelude::*;
use std::collections::{btree_map, BTreeMap, BTreeSet, HashMap, VecDeque};
use std::ops::Range;
verus! {

global size_of usize == 8;

//@include shims/bytes.rs
//@include shims/duration.rs
//@include shims/std_maps.rs
//@include shims/div_ceil.rs
//@include shims/octets.rs

broadcast use {octets::axiom_varint_enc_len};

// field types this unit never looks into (rule D7)
pub struct ConnectionStats;

//@extract const renet/src/packet.rs SLICE_SIZE
#[derive(Clone, Copy, Debug, PartialEq, Eq)]
//@extract enum renet/src/packet.rs SerializationError
#[derive(Clone, Copy, Debug, PartialEq, Eq)]
//@extract enum renet/src/error.rs ChannelError
#[derive(Clone, Copy, Debug, PartialEq, Eq)]
//@extract enum renet/src/error.rs DisconnectReason
//@extract enum renet/src/remote_connection.rs RenetConnectionStatus
//@extract enum renet/src/remote_connection.rs ChannelOrder
//@extract enum renet/src/remote_connection.rs PacketSentInfo
//@extract struct renet/src/remote_connection.rs PacketSent
//@extract struct renet/src/packet.rs Slice
//@extract enum renet/src/packet.rs Packet
//@extract struct renet/src/channel/slice_constructor.rs SliceConstructor
//@extract enum renet/src/channel/reliable.rs ReliableOrder
//@extract enum renet/src/channel/reliable.rs UnackedMessage
//@extract struct renet/src/channel/reliable.rs ReceiveChannelReliable
//@extract struct renet/src/channel/reliable.rs SendChannelReliable
//@extract struct renet/src/channel/unreliable.rs ReceiveChannelUnreliable
//@extract struct renet/src/channel/unreliable.rs SendChannelUnreliable
//@extract struct renet/src/remote_connection.rs RenetClient

//@include contracts/shared/sum_specs.rs
//@include contracts/shared/count_specs.rs
//@include contracts/shared/slice_specs.rs
//@include contracts/shared/sc_specs.rs
//@include contracts/shared/packet_bytes_specs.rs
//@include contracts/shared/slices_sum_specs.rs
//@include contracts/shared/packet_specs.rs
//@include contracts/shared/recv_reliable_specs.rs
//@include contracts/shared/recv_unreliable_specs.rs
//@include contracts/shared/unacked_specs.rs
//@include contracts/shared/send_reliable_specs.rs
//@include contracts/shared/send_unreliable_specs.rs
//@include contracts/shared/wire_specs.rs
//@include contracts/shared/wire_format_specs.rs
//@include contracts/shared/ack_specs.rs
//@include contracts/shared/client_status_specs.rs
//@include contracts/shared/client_glue_specs.rs

impl ConnectionStats {
    // statistics only (floating point, never read by the protocol): no contract
    #[verifier::external_body]
    pub fn received_packet(&mut self, bytes: u64) { unimplemented!() }
}

/// rule D8: the `Packet::Ack` arm of RenetClient::process_packet (BTreeMap::range, floating-point rtt) is outside Verus' subset.
/// Nothing is concluded about it beyond what this signature states: it may change anything in the client.
#[verifier::external_body]
pub fn process_packet_ack_arm_unverified(c: &mut RenetClient, ack_ranges: Vec<Range<u64>>)
    ensures final(c).client_wf(), RenetClient::status_step(old(c).connection_status, final(c).connection_status),
{ unimplemented!() }

// ---- callees: contracts proved on the real bodies in U1, U4, U5, U8, U13 ----
impl Packet {
//@stub renet/src/packet.rs Packet::from_bytes
//@ret r
//@specfile contracts/shared/Packet.from_bytes.spec
//@endfn
//@stub renet/src/packet.rs Packet::sequence
//@ret r
//@specfile contracts/shared/Packet.sequence.spec
//@endfn
}
impl ReceiveChannelReliable {
//@stub renet/src/channel/reliable.rs ReceiveChannelReliable::process_message
//@ret r
//@specfile contracts/shared/ReceiveChannelReliable.process_message.spec
//@endfn
//@stub renet/src/channel/reliable.rs ReceiveChannelReliable::process_slice
//@ret r
//@specfile contracts/shared/ReceiveChannelReliable.process_slice.spec
//@endfn
//@stub renet/src/channel/reliable.rs ReceiveChannelReliable::receive_message
//@ret r
//@specfile contracts/shared/ReceiveChannelReliable.receive_message.spec
//@endfn
}
impl SendChannelReliable {
//@stub renet/src/channel/reliable.rs SendChannelReliable::send_message
//@ret r
//@specfile contracts/shared/SendChannelReliable.send_message.spec
//@endfn
}
impl SendChannelUnreliable {
//@stub renet/src/channel/unreliable.rs SendChannelUnreliable::send_message
//@specfile contracts/shared/SendChannelUnreliable.send_message.spec
//@endfn
}
impl ReceiveChannelUnreliable {
//@stub renet/src/channel/unreliable.rs ReceiveChannelUnreliable::process_message
//@specfile contracts/shared/ReceiveChannelUnreliable.process_message.spec
//@endfn
//@stub renet/src/channel/unreliable.rs ReceiveChannelUnreliable::process_slice
//@ret r
//@specfile contracts/shared/ReceiveChannelUnreliable.process_slice.spec
//@endfn
//@stub renet/src/channel/unreliable.rs ReceiveChannelUnreliable::receive_message
//@ret r
//@specfile contracts/shared/ReceiveChannelUnreliable.receive_message.spec
//@endfn
}

impl RenetClient {
//@stub renet/src/remote_connection.rs RenetClient::is_disconnected
//@ret r
//@specfile contracts/shared/RenetClient.is_disconnected.spec
//@endfn
//@stub renet/src/remote_connection.rs RenetClient::disconnect_with_reason
//@specfile contracts/shared/RenetClient.disconnect_with_reason.spec
//@endfn
//@stub renet/src/remote_connection.rs RenetClient::add_pending_ack
//@specfile contracts/shared/RenetClient.add_pending_ack.spec
//@endfn

//@fn renet/src/remote_connection.rs RenetClient::send_message
//@specfile contracts/shared/RenetClient.send_message.spec
//@entry
        let ghost s0 = *self;
        let ghost cid0 = channel_id;
        let ghost msg0 = message;
        proof { broadcast use glue_lemmas::lemma_same_but_one; }
//@after /let channel_id = channel_id\.into\(\);/
        proof { assert(call_ensures(<I as Into<u8>>::into, (cid0,), channel_id)); }
//@after /if let Some\(reliable_channel\) = self\.send_reliable_channels\.get_mut\(&channel_id\) \{/
            proof {
                assert(vstd::std_specs::hash::borrowed_key_removed(s0.send_reliable_channels@, s0.send_reliable_channels@.remove(channel_id), &channel_id));
                assert(*reliable_channel == s0.send_reliable_channels@[channel_id]);
            }
//@after /unreliable_channel\.send_message\(message\.into\(\)\);/
            let ghost uc0 = s0.send_unreliable_channels@[channel_id];
            let ghost uc1 = *unreliable_channel;
            let ghost ub = choose|b: Bytes| #[trigger] call_ensures(<B as Into<Bytes>>::into, (msg0,), b) && uc1.wf()
                    && (uc1.unreliable_messages@ == uc0.unreliable_messages@.push(b) && uc1.memory_usage_bytes == uc0.memory_usage_bytes + b@.len()
                        || uc1 == uc0 && uc0.memory_usage_bytes + b@.len() > uc0.max_memory_usage_bytes);
            proof {
                assert(self.send_unreliable_channels@[channel_id] == uc1);
                assert(Self::send_effect(s0, *self, channel_id, ub));
            }
//@before /\} else if let Some\(unreliable_channel\) = self\.send_unreliable_channels\.get_mut\(&channel_id\) \{/
            proof {
                let rc0 = s0.send_reliable_channels@[channel_id];
                let rc1 = self.send_reliable_channels@[channel_id];
                let rb = choose|b: Bytes| #[trigger] call_ensures(<B as Into<Bytes>>::into, (msg0,), b)
                    && (self.disconnected() ==> rc1 == rc0 && rc0.memory_usage_bytes + b@.len() > rc0.max_memory_usage_bytes)
                    && (!self.disconnected() ==> rc1.wf() && rc1.next_reliable_message_id == rc0.next_reliable_message_id + 1
                        && rc1.unacked_messages@.dom() == rc0.unacked_messages@.dom().insert(rc0.next_reliable_message_id)
                        && rc1.unacked_messages@[rc0.next_reliable_message_id].msg() == b
                        && rc1.memory_usage_bytes == rc0.memory_usage_bytes + b@.len());
                assert(Self::send_effect(s0, *self, channel_id, rb));
            }
//@after /\} else if let Some\(unreliable_channel\) = self\.send_unreliable_channels\.get_mut\(&channel_id\) \{/
            proof {
                assert(vstd::std_specs::hash::borrowed_key_removed(s0.send_unreliable_channels@, s0.send_unreliable_channels@.remove(channel_id), &channel_id));
                assert(*unreliable_channel == s0.send_unreliable_channels@[channel_id]);
            }
//@endfn

//@fn renet/src/remote_connection.rs RenetClient::receive_message
//@ret r
//@specfile contracts/shared/RenetClient.receive_message.spec
//@entry
        let ghost s0 = *self;
        let ghost cid0 = channel_id;
        proof { broadcast use glue_lemmas::lemma_same_but_one; }
//@after /let channel_id = channel_id\.into\(\);/
        proof { assert(call_ensures(<I as Into<u8>>::into, (cid0,), channel_id)); }
//@after /if let Some\(reliable_channel\) = self\.receive_reliable_channels\.get_mut\(&channel_id\) \{/
            proof {
                assert(vstd::std_specs::hash::borrowed_key_removed(s0.receive_reliable_channels@, s0.receive_reliable_channels@.remove(channel_id), &channel_id));
                assert(*reliable_channel == s0.receive_reliable_channels@[channel_id]);
            }
//@after /\} else if let Some\(unreliable_channel\) = self\.receive_unreliable_channels\.get_mut\(&channel_id\) \{/
            proof {
                assert(vstd::std_specs::hash::borrowed_key_removed(s0.receive_unreliable_channels@, s0.receive_unreliable_channels@.remove(channel_id), &channel_id));
                assert(*unreliable_channel == s0.receive_unreliable_channels@[channel_id]);
            }
//@tail /^\s+reliable_channel\.receive_message\(\)$/
            proof {
                assert(ReceiveChannelReliable::after_receive(s0.receive_reliable_channels@[channel_id], self.receive_reliable_channels@[channel_id], __tail1));
                assert(Self::recv_effect(s0, *self, channel_id, __tail1));
            }
//@tail /^\s+unreliable_channel\.receive_message\(\)$/
            proof {
                assert(ReceiveChannelUnreliable::after_receive(s0.receive_unreliable_channels@[channel_id], self.receive_unreliable_channels@[channel_id], __tail2));
                assert(Self::recv_effect(s0, *self, channel_id, __tail2));
            }
//@endfn

//@fn renet/src/remote_connection.rs RenetClient::process_packet
//@safety C06
//@attr #[verifier::loop_isolation(false)]
//@replacearm /Packet::Ack \{ ack_ranges, \.\. \} => \{/ => process_packet_ack_arm_unverified(self, ack_ranges);
//@hoistexit 1 error: ChannelError
//@specfile contracts/shared/RenetClient.process_packet.spec
//@entry
        let ghost s0 = *self;
        let ghost bytes0 = packet@;
        proof { broadcast use glue_lemmas::lemma_same_but_one; }
//@before /self\.add_pending_ack\(packet\.sequence\(\)\);/
        let ghost pv = pview(packet);
        proof { assert(parse(bytes0) matches Some((p, rest)) && p == pv); }
//@after /self\.add_pending_ack\(packet\.sequence\(\)\);/
        let ghost s1 = *self;
        proof {
            assert(packet_seq(packet) == pv_sequence(pv));
            assert(ack_added(s0.pending_acks@, s1.pending_acks@, pv_sequence(pv))) by { reveal(ack_added); }
            assert(Self::send_side_same(s0, s1) && Self::recv_side_same(s0, s1) && s1.connection_status == s0.connection_status);
        }
//@after /^\s+\};$/ 2
                let ghost ch0 = s1.receive_reliable_channels@[channel_id];
                let ghost mseq = messages@;
                let ghost msgs = rel_msgs_view(messages@);
                proof {
                    assert(vstd::std_specs::hash::borrowed_key_removed(s1.receive_reliable_channels@, s1.receive_reliable_channels@.remove(channel_id), &channel_id));
                    assert(*channel == ch0);
                    assert(pv == (PacketV::SmallReliable { sequence: pv_sequence(pv), channel_id, messages: msgs }));
                }
//@loop 1 iter=itM
                    invariant_except_break
                        __hoist1 is None,
                    invariant
                        itM.seq() == mseq,
                        forall|i: int| 0 <= i < mseq.len() ==> (#[trigger] mseq[i]).0 < 0x4000_0000_0000_0000,
                        __hoist1 is None ==> ReceiveChannelReliable::after_messages_upto(ch0, *channel, msgs, itM.index() as int),   // @C01,C02,C03 process_packet.every_message_of_the_packet_reaches_the_channel
//@after /for \(message_id, message\) in messages \{/
                    let ghost k = itM.index() as int;
                    let ghost cb = *channel;
                    proof { assert((message_id, message) == mseq[k]); assert(msgs[k] == (message_id, message@)); }
//@loopend 1
                    proof {
                        assert(cb.acc_off(0));
                        assert(ReceiveChannelReliable::after_messages_upto(ch0, *channel, msgs, k + 1));
                    }
//@after /^\s+\};$/ 3
                let ghost uch0 = s1.receive_unreliable_channels@[channel_id];
                let ghost umseq = messages@;
                let ghost umsgs = unrel_msgs_view(messages@);
                proof {
                    assert(vstd::std_specs::hash::borrowed_key_removed(s1.receive_unreliable_channels@, s1.receive_unreliable_channels@.remove(channel_id), &channel_id));
                    assert(*channel == uch0);
                    assert(pv == (PacketV::SmallUnreliable { sequence: pv_sequence(pv), channel_id, messages: umsgs }));
                    assert(channel.messages@.take(uch0.messages@.len() as int) =~= uch0.messages@);
                }
//@loop 2 iter=itN
                    invariant
                        itN.seq() == umseq,
                        ReceiveChannelUnreliable::after_messages(uch0, *channel, umsgs),     // @C03 process_packet.unreliable_messages_appended_verbatim
//@after /for message in messages \{/
                    let ghost ucb = *channel;
                    proof { assert(message == umseq[itN.index() as int]); assert(umsgs[itN.index() as int] == message@); }
//@loopend 2
                    proof {
                        assert(channel.messages@.take(uch0.messages@.len() as int) =~= ucb.messages@.take(uch0.messages@.len() as int));
                    }
//@after /^\s+\};$/ 4
                let ghost sch0 = s1.receive_reliable_channels@[channel_id];
                proof {
                    assert(vstd::std_specs::hash::borrowed_key_removed(s1.receive_reliable_channels@, s1.receive_reliable_channels@.remove(channel_id), &channel_id));
                    assert(*channel == sch0);
                    assert(pv == (PacketV::ReliableSlice { sequence: pv_sequence(pv), channel_id, message_id: slice.message_id,
                        slice_index: slice.slice_index as u64, num_slices: slice.num_slices as u64, payload: slice.payload@ }));
                    assert(forall|m: Seq<u8>| sv_authentic(slice.slice_index as u64, slice.num_slices as u64, slice.payload@, m) == slice.authentic(m));
                }
//@after /^\s+\};$/ 5
                let ghost usch0 = s1.receive_unreliable_channels@[channel_id];
                proof {
                    assert(vstd::std_specs::hash::borrowed_key_removed(s1.receive_unreliable_channels@, s1.receive_unreliable_channels@.remove(channel_id), &channel_id));
                    assert(*channel == usch0);
                    assert(pv == (PacketV::UnreliableSlice { sequence: pv_sequence(pv), channel_id, message_id: slice.message_id,
                        slice_index: slice.slice_index as u64, num_slices: slice.num_slices as u64, payload: slice.payload@ }));
                    assert(forall|m: Seq<u8>| sv_authentic(slice.slice_index as u64, slice.num_slices as u64, slice.payload@, m) == slice.authentic(m));
                }
//@endfn
}

} // verus!
fn main() {}
