//@unit U20 props=C05,C07,C16,C17 rlimit=60 connect-token codec: serialize::{read_u8,read_u16,read_u32,read_u64,read_i32,read_bytes}, write_server_addresses, read_server_addresses, get_additional_data, ConnectToken::{write,read,generate}, PrivateConnectToken::{write,read,encode,decode,generate} (renetcode/src/{serialize,token}.rs)
#![feature(allocator_api)]
#![allow(unused_imports, dead_code, unused_variables, unused_mut)]
use vstd::prelude::*;
use std::io;
use std::net::{IpAddr, Ipv4Addr, Ipv6Addr, SocketAddr};
verus! {

global size_of usize == 8;

//@include shims/le_bytes.rs
//@include shims/io_stream.rs
//@include shims/net_addr.rs
//@include shims/duration.rs

// stand-in for `chacha20poly1305::aead::Error` (a unit struct of an external crate; single-file Verus sees no external crates)
#[derive(Debug)]
pub struct CryptoError;

//@extract const renetcode/src/lib.rs NETCODE_ADDRESS_NONE
//@extract const renetcode/src/lib.rs NETCODE_ADDRESS_IPV4
//@extract const renetcode/src/lib.rs NETCODE_ADDRESS_IPV6
//@extract const renetcode/src/lib.rs NETCODE_VERSION_INFO
//@extract const renetcode/src/lib.rs NETCODE_KEY_BYTES
//@extract const renetcode/src/lib.rs NETCODE_USER_DATA_BYTES
//@extract const renetcode/src/lib.rs NETCODE_CONNECT_TOKEN_PRIVATE_BYTES
//@extract const renetcode/src/lib.rs NETCODE_CONNECT_TOKEN_XNONCE_BYTES
//@extract const renetcode/src/lib.rs NETCODE_ADDITIONAL_DATA_SIZE

#[derive(Debug, Clone, Copy, PartialEq, Eq)]
//@extract enum renetcode/src/client.rs DisconnectReason
//@extract enum renetcode/src/token.rs TokenGenerationError
//@extract enum renetcode/src/error.rs NetcodeError
impl vstd::std_specs::convert::FromSpecImpl<std::io::Error> for NetcodeError {
    open spec fn obeys_from_spec() -> bool { true }
    open spec fn from_spec(v: std::io::Error) -> NetcodeError { NetcodeError::IoError(v) }
}
impl From<io::Error> for NetcodeError {
//@fn renetcode/src/error.rs NetcodeError::from trait=From<io::Error>
//@endfn
}
impl vstd::std_specs::convert::FromSpecImpl<std::io::Error> for TokenGenerationError {
    open spec fn obeys_from_spec() -> bool { true }
    open spec fn from_spec(v: std::io::Error) -> TokenGenerationError { TokenGenerationError::IoError(v) }
}
impl From<io::Error> for TokenGenerationError {
//@fn renetcode/src/token.rs TokenGenerationError::from trait=From<io::Error>
//@endfn
}
impl vstd::std_specs::convert::FromSpecImpl<CryptoError> for TokenGenerationError {
    open spec fn obeys_from_spec() -> bool { true }
    open spec fn from_spec(v: CryptoError) -> TokenGenerationError { TokenGenerationError::CryptoError }
}
impl From<CryptoError> for TokenGenerationError {
//@fn renetcode/src/token.rs TokenGenerationError::from trait=From<CryptoError>
//@endfn
}
//@extract struct renetcode/src/token.rs ConnectToken
//@extract struct renetcode/src/token.rs PrivateConnectToken

pub mod seq_assoc {
    use vstd::prelude::*;
    verus! {
    pub broadcast proof fn lemma_concat_assoc(a: Seq<u8>, b: Seq<u8>, c: Seq<u8>)
        ensures #[trigger] ((a + b) + c) == a + (b + c),
    { assert(((a + b) + c) =~= a + (b + c)); }
    /// reading the head of a concatenation
    pub proof fn lemma_peel(a: Seq<u8>, b: Seq<u8>)
        ensures (a + b).subrange(0, a.len() as int) == a, (a + b).skip(a.len() as int) == b, (a + b).len() == a.len() + b.len(),
    {
        assert((a + b).subrange(0, a.len() as int) =~= a);
        assert((a + b).skip(a.len() as int) =~= b);
    }
    }
}

// ---------------------------------------------------------------------------------------------------------------------------------
// the wire form of an address list (netcode.io connect token: u32 count, then per address: type byte 1|2, 4|16 address bytes, u16 port)

/// one address record followed by `then`
pub open spec fn addr_wire_then(a: SocketAddr, then: Seq<u8>) -> Seq<u8> {
    match a {
        SocketAddr::V4(x) => seq![1u8] + (v4_octets(v4_ip(x))@ + (v4_port(x).le_spec() + then)),
        SocketAddr::V6(x) => seq![2u8] + (v6_octets(v6_ip(x))@ + (v6_port(x).le_spec() + then)),
    }
}
pub open spec fn opt_wire_then(o: Option<SocketAddr>, then: Seq<u8>) -> Seq<u8> {
    match o { Some(a) => addr_wire_then(a, then), None => then }
}
/// the records of the occupied slots, in slot order, followed by `then`
pub open spec fn list_wire_then(l: Seq<Option<SocketAddr>>, then: Seq<u8>) -> Seq<u8>
    decreases l.len(),
{
    if l.len() == 0 { then } else { opt_wire_then(l[0], list_wire_then(l.skip(1), then)) }
}
pub open spec fn count_some(l: Seq<Option<SocketAddr>>) -> nat
    decreases l.len(),
{
    if l.len() == 0 { 0 } else { count_some(l.drop_last()) + (if l.last() is Some { 1nat } else { 0nat }) }
}
pub open spec fn addresses_wire_then(l: Seq<Option<SocketAddr>>, then: Seq<u8>) -> Seq<u8> {
    (count_some(l) as u32).le_spec() + list_wire_then(l, then)
}
/// an address the format can carry: address bytes and port (an IPv6 flow label / scope id has no place in it)
pub open spec fn wire_addr(a: SocketAddr) -> bool {
    a matches SocketAddr::V6(x) ==> v6_flowinfo(x) == 0 && v6_scope_id(x) == 0
}
/// the lists the library builds: the occupied slots come first
pub open spec fn dense(l: Seq<Option<SocketAddr>>) -> bool {
    forall|i: int, j: int| 0 <= i < j < l.len() && (#[trigger] l[j]) is Some ==> (#[trigger] l[i]) is Some
}
pub open spec fn all_wire(l: Seq<Option<SocketAddr>>) -> bool {
    forall|i: int| 0 <= i < l.len() ==> ((#[trigger] l[i]) matches Some(a) ==> wire_addr(a))
}
/// `s` is the serialization of the 32-slot list `l` followed by `tail`
pub open spec fn is_addresses_wire(s: Seq<u8>, l: Seq<Option<SocketAddr>>, tail: Seq<u8>) -> bool {
    l.len() == 32 && dense(l) && all_wire(l) && s == addresses_wire_then(l, tail)
}

/// rule D19 -- ASSUMED: `server_addresses.iter().filter(|a| a.is_some()).count()` counts the occupied slots
#[verifier::external_body]
pub fn count_some_unverified(server_addresses: &[Option<SocketAddr>; 32]) -> (r: usize)
    ensures r == count_some(server_addresses@), r <= 32,
{ server_addresses.iter().filter(|a| a.is_some()).count() }

pub mod addr_lemmas {
use vstd::prelude::*;
use std::net::SocketAddr;
use super::*;
verus! {
pub proof fn lemma_addr_then(x: SocketAddr, r0: Seq<u8>, t: Seq<u8>)
    ensures addr_wire_then(x, r0 + t) == addr_wire_then(x, r0) + t,
{
    assert(addr_wire_then(x, r0 + t) =~= addr_wire_then(x, r0) + t);
}
/// what follows the records is simply appended
pub proof fn lemma_list_then(a: Seq<Option<SocketAddr>>, t: Seq<u8>)
    ensures list_wire_then(a, t) == list_wire_then(a, Seq::empty()) + t,
    decreases a.len(),
{
    if a.len() == 0 {
        assert(Seq::<u8>::empty() + t =~= t);
    } else {
        lemma_list_then(a.skip(1), t);
        let r0 = list_wire_then(a.skip(1), Seq::empty());
        match a[0] {
            Some(x) => { lemma_addr_then(x, r0, t); }
            None => {}
        }
    }
}
pub proof fn lemma_list_split(a: Seq<Option<SocketAddr>>, b: Seq<Option<SocketAddr>>, t: Seq<u8>)
    ensures list_wire_then(a + b, t) == list_wire_then(a, list_wire_then(b, t)),
    decreases a.len(),
{
    if a.len() == 0 {
        assert(a + b =~= b);
    } else {
        assert((a + b).skip(1) =~= a.skip(1) + b);
        assert((a + b)[0] == a[0]);
        lemma_list_split(a.skip(1), b, t);
    }
}
/// in a dense list the occupied slots are exactly the first count_some(l)
pub proof fn lemma_dense_count(l: Seq<Option<SocketAddr>>)
    requires dense(l),
    ensures count_some(l) <= l.len(), forall|i: int| 0 <= i < l.len() ==> ((#[trigger] l[i]) is Some <==> i < count_some(l)),
    decreases l.len(),
{
    if l.len() > 0 {
        let p = l.drop_last();
        assert forall|i: int, j: int| 0 <= i < j < p.len() && (#[trigger] p[j]) is Some implies (#[trigger] p[i]) is Some by {
            assert(p[j] == l[j] && p[i] == l[i]);
        }
        lemma_dense_count(p);
        assert forall|i: int| 0 <= i < l.len() implies ((#[trigger] l[i]) is Some <==> i < count_some(l)) by {
            if i < p.len() { assert(p[i] == l[i]); }
            if l.last() is Some {
                // every earlier slot is occupied, so the prefix is full
                assert forall|j: int| 0 <= j < p.len() implies (#[trigger] p[j]) is Some by { assert(l[l.len() - 1] is Some); assert(p[j] == l[j]); }
                if p.len() > 0 { assert(p[p.len() - 1] is Some); }
            }
        }
    }
}
/// empty slots contribute nothing
pub proof fn lemma_all_none(l: Seq<Option<SocketAddr>>, t: Seq<u8>)
    requires forall|i: int| 0 <= i < l.len() ==> (#[trigger] l[i]) is None,
    ensures list_wire_then(l, t) == t,
    decreases l.len(),
{
    if l.len() > 0 {
        assert(l[0] is None);
        assert forall|i: int| 0 <= i < l.skip(1).len() implies (#[trigger] l.skip(1)[i]) is None by { assert(l.skip(1)[i] == l[i + 1]); }
        lemma_all_none(l.skip(1), t);
    }
}
/// reading position k of a serialized list: the record of slot k comes next, then the rest of the list
pub proof fn lemma_next_record(l: Seq<Option<SocketAddr>>, tail: Seq<u8>, k: int)
    requires 0 <= k < l.len(),
    ensures list_wire_then(l.subrange(k, l.len() as int), tail) == opt_wire_then(l[k], list_wire_then(l.subrange(k + 1, l.len() as int), tail)),
{
    let s = l.subrange(k, l.len() as int);
    assert(s[0] == l[k]);
    assert(s.skip(1) =~= l.subrange(k + 1, l.len() as int));
}
/// layout of one IPv4 record: type byte 1, four address bytes, port
pub proof fn lemma_v4_layout(x: std::net::SocketAddrV4, then: Seq<u8>)
    ensures ({
        let w = addr_wire_then(SocketAddr::V4(x), then);
        &&& w.len() == 7 + then.len() && w[0] == 1u8
        &&& w.skip(1).subrange(0, 4) == v4_octets(v4_ip(x))@
        &&& w.skip(1).skip(4).subrange(0, 2) == v4_port(x).le_spec()
        &&& w.skip(1).skip(4).skip(2) == then
    }),
{
    let o = v4_octets(v4_ip(x))@;
    let p = v4_port(x).le_spec();
    seq_assoc::lemma_peel(seq![1u8], o + (p + then));
    seq_assoc::lemma_peel(o, p + then);
    seq_assoc::lemma_peel(p, then);
}
pub proof fn lemma_v6_layout(x: std::net::SocketAddrV6, then: Seq<u8>)
    ensures ({
        let w = addr_wire_then(SocketAddr::V6(x), then);
        &&& w.len() == 19 + then.len() && w[0] == 2u8
        &&& w.skip(1).subrange(0, 16) == v6_octets(v6_ip(x))@
        &&& w.skip(1).skip(16).subrange(0, 2) == v6_port(x).le_spec()
        &&& w.skip(1).skip(16).skip(2) == then
    }),
{
    let o = v6_octets(v6_ip(x))@;
    let p = v6_port(x).le_spec();
    seq_assoc::lemma_peel(seq![2u8], o + (p + then));
    seq_assoc::lemma_peel(o, p + then);
    seq_assoc::lemma_peel(p, then);
}
/// a record takes at most 19 bytes
pub proof fn lemma_list_len_bound(l: Seq<Option<SocketAddr>>)
    ensures list_wire_then(l, Seq::empty()).len() <= 19 * l.len(),
    decreases l.len(),
{
    if l.len() > 0 {
        lemma_list_len_bound(l.skip(1));
        let r0 = list_wire_then(l.skip(1), Seq::empty());
        match l[0] {
            Some(SocketAddr::V4(x)) => { lemma_v4_layout(x, r0); }
            Some(SocketAddr::V6(x)) => { lemma_v6_layout(x, r0); }
            None => {}
        }
    }
}
/// the serialization of the first k+1 slots is that of the first k followed by the record of slot k (nothing for an empty slot)
pub proof fn lemma_take_step(l: Seq<Option<SocketAddr>>, k: int)
    requires 0 <= k < l.len(),
    ensures list_wire_then(l.take(k + 1), Seq::empty()) == list_wire_then(l.take(k), Seq::empty()) + opt_wire_then(l[k], Seq::empty()),
{
    let e = Seq::<u8>::empty();
    assert(l.take(k + 1) =~= l.take(k) + seq![l[k]]);
    lemma_list_split(l.take(k), seq![l[k]], e);
    assert(seq![l[k]].skip(1) =~= Seq::<Option<SocketAddr>>::empty());
    assert(list_wire_then(seq![l[k]].skip(1), e) == e);
    assert(list_wire_then(seq![l[k]], e) == opt_wire_then(l[k], e));
    lemma_list_then(l.take(k), opt_wire_then(l[k], e));
}
}
}

//@fn renetcode/src/token.rs ::write_server_addresses
//@ret r
//@spec
        ensures
            // C16: what is written is the count of occupied slots followed by one record per occupied slot, in slot order
            r is Ok ==> (*final(writer)).written() == (*old(writer)).written() + addresses_wire_then(server_addresses@, Seq::empty()),   // @C16 write_addresses.writes_the_count_then_one_record_per_address
//@entry
        let ghost w0 = (*writer).written();
        let ghost l = server_addresses@;
        let ghost e = Seq::<u8>::empty();
        proof { broadcast use seq_assoc::lemma_concat_assoc; }
//@cutexpr /server_addresses\.iter\(\)\.filter\(\|a\| a\.is_some\(\)\)\.count\(\)/ => count_some_unverified(server_addresses)
//@after /writer\.write_all\(&num_server_addresses\.to_le_bytes\(\)\)\?;/
        proof {
            assert(l.take(0) =~= Seq::<Option<SocketAddr>>::empty());
            assert((w0 + (count_some(l) as u32).le_spec()) + list_wire_then(l.take(0), e) =~= w0 + (count_some(l) as u32).le_spec());
        }
//@loop 1
        invariant
            l == server_addresses@, e == Seq::<u8>::empty(),
            (*writer).written() == (w0 + (count_some(l) as u32).le_spec()) + list_wire_then(l.take(host_idx as int), e),
//@before /match host \{/
            let ghost wk = (*writer).written();
//@arrayloop 2
//@loop 2
                    invariant
                        __arr2@ == v4_octets(v4_ip(*addr))@,
                        (*writer).written() == (wk + seq![1u8]) + __arr2@.take(i_idx as int),
//@arrayloop 3
//@loop 3
                    invariant
                        __arr3@ == v6_octets(v6_ip(*addr))@,
                        (*writer).written() == (wk + seq![2u8]) + __arr3@.take(i_idx as int),
//@after /writer\.write_all\(&NETCODE_ADDRESS_IPV4\.to_le_bytes\(\)\)\?;/
                proof { assert((wk + seq![1u8]) + v4_octets(v4_ip(*addr))@.take(0) =~= wk + seq![1u8]); }
//@after /writer\.write_all\(&NETCODE_ADDRESS_IPV6\.to_le_bytes\(\)\)\?;/
                proof { assert((wk + seq![2u8]) + v6_octets(v6_ip(*addr))@.take(0) =~= wk + seq![2u8]); }
//@loopend 2
                    proof { assert(__arr2@.take(i_idx + 1) =~= __arr2@.take(i_idx as int) + seq![i]); }
//@loopend 3
                    proof { assert(__arr3@.take(i_idx + 1) =~= __arr3@.take(i_idx as int) + seq![i]); }
//@after /writer\.write_all\(&host\.port\(\)\.to_le_bytes\(\)\)\?;/
            proof {
                let k = host_idx as int;
                match *host {
                    SocketAddr::V4(x) => { assert(v4_octets(v4_ip(x))@.take(4) =~= v4_octets(v4_ip(x))@); }
                    SocketAddr::V6(x) => { assert(v6_octets(v6_ip(x))@.take(16) =~= v6_octets(v6_ip(x))@); }
                }
                assert((*writer).written() == wk + addr_wire_then(*host, e)) by {
                    assert(addr_wire_then(*host, e) =~= match *host {
                        SocketAddr::V4(x) => seq![1u8] + v4_octets(v4_ip(x))@ + v4_port(x).le_spec(),
                        SocketAddr::V6(x) => seq![2u8] + v6_octets(v6_ip(x))@ + v6_port(x).le_spec(),
                    });
                }
                addr_lemmas::lemma_take_step(l, k);
            }
//@loopend 1
        proof {
            let k = host_idx as int;
            if l[k] is None {
                addr_lemmas::lemma_take_step(l, k);
                assert(list_wire_then(l.take(k), e) + e =~= list_wire_then(l.take(k), e));
            }
        }
//@before /^    Ok\(\(\)\)$/
        proof { assert(l.take(32) =~= l); }
//@endfn

/// the reader's state after k records, seen from a serialized list: the first k slots are filled as in `l`, and the unread bytes are the records of the remaining slots
pub open spec fn read_progress(s0: Seq<u8>, n: int, k: int, sa: Seq<Option<SocketAddr>>, rest: Seq<u8>) -> bool {
    forall|l: Seq<Option<SocketAddr>>, tail: Seq<u8>| #[trigger] is_addresses_wire(s0, l, tail) ==>
        n == count_some(l) && sa.take(k) == l.take(k) && rest == list_wire_then(l.subrange(k, 32), tail)
}

//@fn renetcode/src/token.rs ::read_server_addresses
//@ret r
//@attr #[verifier::loop_isolation(false)]
//@spec
        // no precondition: the bytes come from anywhere (C07: returns for every input)
        ensures
            // C16: what decodes is a list the format can carry, in the form the library builds (occupied slots first), so writing it again and
            // reading that yields the same list
            r matches Ok(a) ==> dense(a@) && all_wire(a@),                                                            // @C16 read_addresses.decoded_list_is_one_the_format_carries
            // C16: reading is the inverse of writing, and consumes exactly what was written
            forall|l: Seq<Option<SocketAddr>>, tail: Seq<u8>| #[trigger] is_addresses_wire((*old(src)).rest(), l, tail) ==>
                (r matches Ok(a) && a@ == l && (*final(src)).rest() == tail),                                         // @C16 read_addresses.inverse_of_write
//@entry
        let ghost s0 = (*src).rest();
//@after /let num_server_addresses = read_u32\(src\)\? as usize;/
        proof {
            assert forall|l: Seq<Option<SocketAddr>>, tail: Seq<u8>| #[trigger] is_addresses_wire(s0, l, tail) implies
                num_server_addresses == count_some(l) && (*src).rest() == list_wire_then(l.subrange(0, 32), tail) && server_addresses@.take(0) == l.take(0) by {
                addr_lemmas::lemma_dense_count(l);
                let c = (count_some(l) as u32).le_spec();
                seq_assoc::lemma_peel(c, list_wire_then(l, tail));
                le_lemmas::lemma_le_u32_inj(num_server_addresses as u32, count_some(l) as u32);
                assert(l.subrange(0, 32) =~= l);
                assert(server_addresses@.take(0) =~= l.take(0));
            }
        }
//@loop 1
        invariant
            $IDX1 <= 32,                                                                                                          // @C07 read_addresses.slot_index_stays_inside_the_32_slots
            forall|jj: int| 0 <= jj < $IDX1 ==> ((#[trigger] server_addresses@[jj]) matches Some(a) && wire_addr(a)),   // @C16 read_addresses.every_record_read_fills_its_slot
            forall|jj: int| $IDX1 <= jj < 32 ==> (#[trigger] server_addresses@[jj]) is None,
            read_progress(s0, num_server_addresses as int, $IDX1 as int, server_addresses@, (*src).rest()),          // @C16 read_addresses.reader_follows_the_written_records
//@before /let host_type = read_u8\(src\)\?;/
            let ghost rk = (*src).rest();
            let ghost k = $IDX1 as int;
            proof {
                // seen from a serialized list, the record of slot k comes next (k < count: the slot is occupied)
                assert forall|l: Seq<Option<SocketAddr>>, tail: Seq<u8>| #[trigger] is_addresses_wire(s0, l, tail) implies
                    l[k] is Some && rk == addr_wire_then(l[k]->Some_0, list_wire_then(l.subrange(k + 1, 32), tail)) && rk.len() >= 7 by {
                    addr_lemmas::lemma_dense_count(l);
                    addr_lemmas::lemma_next_record(l, tail, k);
                    match l[k]->Some_0 {
                        SocketAddr::V4(x) => { addr_lemmas::lemma_v4_layout(x, list_wire_then(l.subrange(k + 1, 32), tail)); }
                        SocketAddr::V6(x) => { addr_lemmas::lemma_v6_layout(x, list_wire_then(l.subrange(k + 1, 32), tail)); }
                    }
                }
            }
//@after /let host_type = read_u8\(src\)\?;/
            proof {
                assert(host_type.le_spec()[0] == host_type);
                assert(rk.subrange(0, 1)[0] == rk[0]);
                assert(host_type == rk[0]);
                assert forall|l: Seq<Option<SocketAddr>>, tail: Seq<u8>| #[trigger] is_addresses_wire(s0, l, tail) implies
                    ((is_v4(l[k]->Some_0) <==> host_type == 1) && (is_v6(l[k]->Some_0) <==> host_type == 2) && (is_v6(l[k]->Some_0) ==> rk.len() >= 19)) by {
                    match l[k]->Some_0 {
                        SocketAddr::V4(x) => { addr_lemmas::lemma_v4_layout(x, list_wire_then(l.subrange(k + 1, 32), tail)); }
                        SocketAddr::V6(x) => { addr_lemmas::lemma_v6_layout(x, list_wire_then(l.subrange(k + 1, 32), tail)); }
                    }
                }
            }
//@after / = Some\(addr\);/ 1
                proof {
                    assert forall|l: Seq<Option<SocketAddr>>, tail: Seq<u8>| #[trigger] is_addresses_wire(s0, l, tail) implies
                        l[k] == Some(addr) && (*src).rest() == list_wire_then(l.subrange(k + 1, 32), tail) by {
                        let x = as_v4(l[k]->Some_0);
                        let y = as_v4(addr);
                        addr_lemmas::lemma_v4_layout(x, list_wire_then(l.subrange(k + 1, 32), tail));
                        le_lemmas::lemma_le_u16_inj(port, v4_port(x));
                        assert(ip == v4_octets(v4_ip(x))) by { assert(ip@ =~= v4_octets(v4_ip(x))@); }
                        net_addr_axioms::axiom_ipv4_ext(v4_ip(y), v4_ip(x));
                        net_addr_axioms::axiom_v4_ext(y, x);
                    }
                }
//@after / = Some\(addr\);/ 2
                proof {
                    assert forall|l: Seq<Option<SocketAddr>>, tail: Seq<u8>| #[trigger] is_addresses_wire(s0, l, tail) implies
                        l[k] == Some(addr) && (*src).rest() == list_wire_then(l.subrange(k + 1, 32), tail) by {
                        let x = as_v6(l[k]->Some_0);
                        let y = as_v6(addr);
                        addr_lemmas::lemma_v6_layout(x, list_wire_then(l.subrange(k + 1, 32), tail));
                        le_lemmas::lemma_le_u16_inj(port, v6_port(x));
                        assert(ip == v6_octets(v6_ip(x))) by { assert(ip@ =~= v6_octets(v6_ip(x))@); }
                        net_addr_axioms::axiom_ipv6_ext(v6_ip(y), v6_ip(x));
                        assert(wire_addr(l[k]->Some_0));
                        net_addr_axioms::axiom_v6_ext(y, x);
                    }
                }
//@loopend 1
        proof {
            assert forall|l: Seq<Option<SocketAddr>>, tail: Seq<u8>| #[trigger] is_addresses_wire(s0, l, tail) implies
                server_addresses@.take(k + 1) == l.take(k + 1) by {
                assert(server_addresses@.take(k + 1) =~= l.take(k + 1)) by {
                    assert forall|jj: int| 0 <= jj < k + 1 implies (#[trigger] server_addresses@.take(k + 1)[jj]) == l.take(k + 1)[jj] by {
                        if jj < k { assert(server_addresses@.take(k)[jj] == l.take(k)[jj]); }
                    }
                }
            }
        }
//@before /^    Ok\(server_addresses\)$/
        proof {
            assert(dense(server_addresses@));
            assert(all_wire(server_addresses@));
            assert forall|l: Seq<Option<SocketAddr>>, tail: Seq<u8>| #[trigger] is_addresses_wire(s0, l, tail) implies
                server_addresses@ == l && (*src).rest() == tail by {
                let n = (if num_server_addresses < 32 { num_server_addresses as int } else { 32int });
                addr_lemmas::lemma_dense_count(l);
                assert(n == count_some(l));
                assert forall|jj: int| 0 <= jj < l.subrange(n, 32).len() implies (#[trigger] l.subrange(n, 32)[jj]) is None by { assert(l.subrange(n, 32)[jj] == l[n + jj]); }
                addr_lemmas::lemma_all_none(l.subrange(n, 32), tail);
                assert(server_addresses@ =~= l) by {
                    assert forall|jj: int| 0 <= jj < 32 implies (#[trigger] server_addresses@[jj]) == l[jj] by {
                        if jj < n { assert(server_addresses@.take(n)[jj] == l.take(n)[jj]); }
                    }
                }
            }
        }
//@endfn

//@fn renetcode/src/serialize.rs ::read_u64
//@ret r
//@spec
        ensures
            r is Ok <==> (*old(src)).rest().len() >= 8,
            r matches Ok(v) ==> v.le_spec() == (*old(src)).rest().subrange(0, 8) && (*final(src)).rest() == (*old(src)).rest().skip(8),   // @C16 read_u64.takes_the_next_8_bytes_little_endian
//@endfn
//@fn renetcode/src/serialize.rs ::read_u32
//@ret r
//@spec
        ensures
            r is Ok <==> (*old(src)).rest().len() >= 4,
            r matches Ok(v) ==> v.le_spec() == (*old(src)).rest().subrange(0, 4) && (*final(src)).rest() == (*old(src)).rest().skip(4),   // @C16 read_u32.takes_the_next_4_bytes_little_endian
//@endfn
//@fn renetcode/src/serialize.rs ::read_u16
//@ret r
//@spec
        ensures
            r is Ok <==> (*old(src)).rest().len() >= 2,
            r matches Ok(v) ==> v.le_spec() == (*old(src)).rest().subrange(0, 2) && (*final(src)).rest() == (*old(src)).rest().skip(2),   // @C16 read_u16.takes_the_next_2_bytes_little_endian
//@endfn
//@fn renetcode/src/serialize.rs ::read_u8
//@ret r
//@spec
        ensures
            r is Ok <==> (*old(src)).rest().len() >= 1,
            r matches Ok(v) ==> v.le_spec() == (*old(src)).rest().subrange(0, 1) && (*final(src)).rest() == (*old(src)).rest().skip(1),                       // @C16 read_u8.takes_the_next_byte
//@endfn
//@fn renetcode/src/serialize.rs ::read_i32
//@ret r
//@spec
        ensures
            r is Ok <==> (*old(src)).rest().len() >= 4,
            r matches Ok(v) ==> v.le_spec() == (*old(src)).rest().subrange(0, 4) && (*final(src)).rest() == (*old(src)).rest().skip(4),   // @C16 read_i32.takes_the_next_4_bytes_little_endian
//@endfn
//@fn renetcode/src/serialize.rs ::read_bytes
//@ret r
//@spec
        ensures
            r is Ok <==> (*old(src)).rest().len() >= N,
            r matches Ok(a) ==> a@ == (*old(src)).rest().subrange(0, N as int) && (*final(src)).rest() == (*old(src)).rest().skip(N as int),   // @C16 read_bytes.takes_the_next_n_bytes
//@endfn

// ---------------------------------------------------------------------------------------------------------------------------------
// the wire form of the public connect token and of the private part

pub open spec fn token_wire_then(t: ConnectToken, then: Seq<u8>) -> Seq<u8> {
    t.client_id.le_spec() + (t.version_info@ + (t.protocol_id.le_spec() + (t.create_timestamp.le_spec() + (t.expire_timestamp.le_spec()
        + (t.xnonce@ + (t.private_data@ + (t.timeout_seconds.le_spec()
        + addresses_wire_then(t.server_addresses@, t.client_to_server_key@ + (t.server_to_client_key@ + then)))))))))
}
/// a token as the library builds and accepts it: current version string, address list in canonical form
pub open spec fn token_ok(t: ConnectToken) -> bool {
    t.version_info@ == NETCODE_VERSION_INFO@ && dense(t.server_addresses@) && all_wire(t.server_addresses@)
}
pub open spec fn is_token_wire(s: Seq<u8>, t: ConnectToken, tail: Seq<u8>) -> bool {
    token_ok(t) && s == token_wire_then(t, tail)
}
pub open spec fn private_wire_then(t: PrivateConnectToken, then: Seq<u8>) -> Seq<u8> {
    t.client_id.le_spec() + (t.timeout_seconds.le_spec()
        + addresses_wire_then(t.server_addresses@, t.client_to_server_key@ + (t.server_to_client_key@ + (t.user_data@ + then))))
}
pub open spec fn private_ok(t: PrivateConnectToken) -> bool {
    dense(t.server_addresses@) && all_wire(t.server_addresses@)
}
pub open spec fn is_private_wire(s: Seq<u8>, t: PrivateConnectToken, tail: Seq<u8>) -> bool {
    private_ok(t) && s == private_wire_then(t, tail)
}

pub mod token_lemmas {
use vstd::prelude::*;
use super::*;
verus! {
pub proof fn lemma_addresses_then(l: Seq<Option<SocketAddr>>, t: Seq<u8>)
    ensures addresses_wire_then(l, t) == addresses_wire_then(l, Seq::empty()) + t,
{
    addr_lemmas::lemma_list_then(l, t);
    assert(addresses_wire_then(l, t) =~= addresses_wire_then(l, Seq::empty()) + t);
}
pub proof fn lemma_private_layout(t: PrivateConnectToken, tail: Seq<u8>)
    ensures ({
        let w = private_wire_then(t, tail);
        let r1 = w.skip(8); let r2 = r1.skip(4);
        &&& w.len() >= 12 + 4 + 320
        &&& w.subrange(0, 8) == t.client_id.le_spec()
        &&& r1.subrange(0, 4) == t.timeout_seconds.le_spec()
        &&& r2 == addresses_wire_then(t.server_addresses@, t.client_to_server_key@ + (t.server_to_client_key@ + (t.user_data@ + tail)))
    }),
{
    let k = t.client_to_server_key@ + (t.server_to_client_key@ + (t.user_data@ + tail));
    let a2 = addresses_wire_then(t.server_addresses@, k);
    let a1 = t.timeout_seconds.le_spec() + a2;
    let w = private_wire_then(t, tail);
    assert(w == t.client_id.le_spec() + a1);
    assert(t.client_id.le_spec().len() == 8);
    seq_assoc::lemma_peel(t.client_id.le_spec(), a1);
    let r1 = w.skip(8);
    assert(r1 == a1);
    assert(t.timeout_seconds.le_spec().len() == 4);
    seq_assoc::lemma_peel(t.timeout_seconds.le_spec(), a2);
    assert(a2.len() >= 4 + k.len()) by {
        addr_lemmas::lemma_list_then(t.server_addresses@, k);
        assert((count_some(t.server_addresses@) as u32).le_spec().len() == 4);
    }
    assert(k.len() == 320 + tail.len());
}
/// the private part always fits in front of the tag: at most 944 of the 1008 bytes
pub proof fn lemma_private_len(t: PrivateConnectToken)
    ensures private_wire_then(t, Seq::empty()).len() <= 944,
{
    let e = Seq::<u8>::empty();
    addr_lemmas::lemma_list_len_bound(t.server_addresses@);
    lemma_private_layout(t, e);
    let k = t.client_to_server_key@ + (t.server_to_client_key@ + (t.user_data@ + e));
    addr_lemmas::lemma_list_then(t.server_addresses@, k);
    assert(k.len() == 320);
    let w = private_wire_then(t, e);
    assert(w.skip(8).skip(4).len() == w.len() - 12);
}
/// what follows a serialized private token is simply appended
pub proof fn lemma_private_then(t: PrivateConnectToken, tail: Seq<u8>)
    ensures private_wire_then(t, tail) == private_wire_then(t, Seq::empty()) + tail,
{
    let e = Seq::<u8>::empty();
    let k0 = t.client_to_server_key@ + (t.server_to_client_key@ + (t.user_data@ + e));
    let k1 = t.client_to_server_key@ + (t.server_to_client_key@ + (t.user_data@ + tail));
    assert(k1 =~= k0 + tail);
    lemma_addresses_then(t.server_addresses@, k0);
    lemma_addresses_then(t.server_addresses@, k1);
    assert(private_wire_then(t, tail) =~= private_wire_then(t, e) + tail);
}
pub proof fn lemma_token_then(t: ConnectToken, tail: Seq<u8>)
    ensures token_wire_then(t, tail) == token_wire_then(t, Seq::empty()) + tail,
{
    let e = Seq::<u8>::empty();
    let k0 = t.client_to_server_key@ + (t.server_to_client_key@ + e);
    let k1 = t.client_to_server_key@ + (t.server_to_client_key@ + tail);
    assert(k1 =~= k0 + tail);
    lemma_addresses_then(t.server_addresses@, k0);
    lemma_addresses_then(t.server_addresses@, k1);
    assert(token_wire_then(t, tail) =~= token_wire_then(t, e) + tail);
}
/// where the fields of a serialized token sit
pub proof fn lemma_token_layout(t: ConnectToken, tail: Seq<u8>)
    ensures ({
        let w = token_wire_then(t, tail);
        let r1 = w.skip(8); let r2 = r1.skip(13); let r3 = r2.skip(8); let r4 = r3.skip(8); let r5 = r4.skip(8); let r6 = r5.skip(24); let r7 = r6.skip(1024); let r8 = r7.skip(4);
        &&& w.len() >= 1097 + 4 + 64
        &&& w.subrange(0, 8) == t.client_id.le_spec()
        &&& r1.subrange(0, 13) == t.version_info@
        &&& r2.subrange(0, 8) == t.protocol_id.le_spec()
        &&& r3.subrange(0, 8) == t.create_timestamp.le_spec()
        &&& r4.subrange(0, 8) == t.expire_timestamp.le_spec()
        &&& r5.subrange(0, 24) == t.xnonce@
        &&& r6.subrange(0, 1024) == t.private_data@
        &&& r7.subrange(0, 4) == t.timeout_seconds.le_spec()
        &&& r8 == addresses_wire_then(t.server_addresses@, t.client_to_server_key@ + (t.server_to_client_key@ + tail))
    }),
{
    let k = t.client_to_server_key@ + (t.server_to_client_key@ + tail);
    let a8 = addresses_wire_then(t.server_addresses@, k);
    let a7 = t.timeout_seconds.le_spec() + a8;
    let a6 = t.private_data@ + a7;
    let a5 = t.xnonce@ + a6;
    let a4 = t.expire_timestamp.le_spec() + a5;
    let a3 = t.create_timestamp.le_spec() + a4;
    let a2 = t.protocol_id.le_spec() + a3;
    let a1 = t.version_info@ + a2;
    let w = token_wire_then(t, tail);
    assert(w == t.client_id.le_spec() + a1);
    assert(t.client_id.le_spec().len() == 8);
    seq_assoc::lemma_peel(t.client_id.le_spec(), a1);
    let r1 = w.skip(8);
    assert(r1 == a1);
    assert(t.version_info@.len() == 13);
    seq_assoc::lemma_peel(t.version_info@, a2);
    let r2 = r1.skip(13);
    assert(r2 == a2);
    assert(t.protocol_id.le_spec().len() == 8);
    seq_assoc::lemma_peel(t.protocol_id.le_spec(), a3);
    let r3 = r2.skip(8);
    assert(r3 == a3);
    assert(t.create_timestamp.le_spec().len() == 8);
    seq_assoc::lemma_peel(t.create_timestamp.le_spec(), a4);
    let r4 = r3.skip(8);
    assert(r4 == a4);
    assert(t.expire_timestamp.le_spec().len() == 8);
    seq_assoc::lemma_peel(t.expire_timestamp.le_spec(), a5);
    let r5 = r4.skip(8);
    assert(r5 == a5);
    assert(t.xnonce@.len() == 24);
    seq_assoc::lemma_peel(t.xnonce@, a6);
    let r6 = r5.skip(24);
    assert(r6 == a6);
    assert(t.private_data@.len() == 1024);
    seq_assoc::lemma_peel(t.private_data@, a7);
    let r7 = r6.skip(1024);
    assert(r7 == a7);
    assert(t.timeout_seconds.le_spec().len() == 4);
    seq_assoc::lemma_peel(t.timeout_seconds.le_spec(), a8);
    let r8 = r7.skip(4);
    assert(r8 == a8);
    assert(a8.len() >= 4 + k.len()) by {
        addr_lemmas::lemma_list_then(t.server_addresses@, k);
        assert((count_some(t.server_addresses@) as u32).le_spec().len() == 4);
    }
    assert(k.len() == 64 + tail.len());
}
}
}

impl ConnectToken {
//@fn renetcode/src/token.rs ConnectToken::write
//@ret r
//@spec
        ensures
            r is Ok ==> (*final(writer)).written() == (*old(writer)).written() + token_wire_then(*self, Seq::empty()),      // @C16 token_write.writes_every_field_in_format_order
//@entry
        let ghost w0 = (*writer).written();
        proof { broadcast use seq_assoc::lemma_concat_assoc; }
//@before /^        Ok\(\(\)\)$/
        proof {
            let e = Seq::<u8>::empty();
            let k = self.client_to_server_key@ + (self.server_to_client_key@ + e);
            token_lemmas::lemma_addresses_then(self.server_addresses@, k);
            assert(self.server_to_client_key@ + e =~= self.server_to_client_key@);
        }
//@endfn

//@fn renetcode/src/token.rs ConnectToken::read
//@ret r
//@spec
        // no precondition: the bytes come from anywhere (C07: returns for every input)
        ensures
            // C16: what decodes is a token the format can carry, so writing it again and reading that yields the same token
            r matches Ok(t) ==> token_ok(t),                                                                              // @C16 token_read.decoded_token_is_one_the_format_carries
            // C16: reading is the inverse of writing, and consumes exactly what was written
            forall|t: ConnectToken, tail: Seq<u8>| #[trigger] is_token_wire((*old(src)).rest(), t, tail) ==>
                (r matches Ok(t2) && t2 == t && (*final(src)).rest() == tail),                                            // @C16 token_read.inverse_of_write
//@entry
        let ghost s0 = (*src).rest();
        proof {
            assert forall|t: ConnectToken, tail: Seq<u8>| #[trigger] is_token_wire(s0, t, tail) implies ({
                let r1 = s0.skip(8); let r2 = r1.skip(13); let r3 = r2.skip(8); let r4 = r3.skip(8); let r5 = r4.skip(8); let r6 = r5.skip(24); let r7 = r6.skip(1024); let r8 = r7.skip(4);
                &&& s0.len() >= 1097 + 4 + 64
                &&& s0.subrange(0, 8) == t.client_id.le_spec()
                &&& r1.subrange(0, 13) == t.version_info@
                &&& r2.subrange(0, 8) == t.protocol_id.le_spec()
                &&& r3.subrange(0, 8) == t.create_timestamp.le_spec()
                &&& r4.subrange(0, 8) == t.expire_timestamp.le_spec()
                &&& r5.subrange(0, 24) == t.xnonce@
                &&& r6.subrange(0, 1024) == t.private_data@
                &&& r7.subrange(0, 4) == t.timeout_seconds.le_spec()
                &&& is_addresses_wire(r8, t.server_addresses@, t.client_to_server_key@ + (t.server_to_client_key@ + tail))
            }) by {
                token_lemmas::lemma_token_layout(t, tail);
            }
        }
//@before /^        Ok\(Self \{$/
        proof {
            assert(dense(server_addresses@) && all_wire(server_addresses@));
            assert(version_info@ == NETCODE_VERSION_INFO@);
            assert forall|t: ConnectToken, tail: Seq<u8>| #[trigger] is_token_wire(s0, t, tail) implies
                (ConnectToken { client_id, version_info, protocol_id, create_timestamp, expire_timestamp, xnonce, private_data, server_addresses,
                    client_to_server_key, server_to_client_key, timeout_seconds }) == t && (*src).rest() == tail by {
                let k = t.client_to_server_key@ + (t.server_to_client_key@ + tail);
                seq_assoc::lemma_peel(t.client_to_server_key@, t.server_to_client_key@ + tail);
                seq_assoc::lemma_peel(t.server_to_client_key@, tail);
                le_lemmas::lemma_le_u64_inj(client_id, t.client_id);
                le_lemmas::lemma_le_u64_inj(protocol_id, t.protocol_id);
                le_lemmas::lemma_le_u64_inj(create_timestamp, t.create_timestamp);
                le_lemmas::lemma_le_u64_inj(expire_timestamp, t.expire_timestamp);
                le_lemmas::lemma_le_i32_inj(timeout_seconds, t.timeout_seconds);
                assert(version_info =~= t.version_info);
                assert(xnonce =~= t.xnonce);
                assert(private_data =~= t.private_data);
                assert(server_addresses =~= t.server_addresses);
                assert(client_to_server_key =~= t.client_to_server_key);
                assert(server_to_client_key =~= t.server_to_client_key);
            }
        }
//@endfn
}

impl PrivateConnectToken {
//@fn renetcode/src/token.rs PrivateConnectToken::write
//@ret r
//@spec
        ensures
            r is Ok ==> (*final(writer)).written() == (*old(writer)).written() + private_wire_then(*self, Seq::empty()),    // @C16 private_write.writes_every_field_in_format_order
//@entry
        let ghost w0 = (*writer).written();
        proof { broadcast use seq_assoc::lemma_concat_assoc; }
//@before /^        Ok\(\(\)\)$/
        proof {
            let e = Seq::<u8>::empty();
            let k = self.client_to_server_key@ + (self.server_to_client_key@ + (self.user_data@ + e));
            token_lemmas::lemma_addresses_then(self.server_addresses@, k);
            assert(self.user_data@ + e =~= self.user_data@);
        }
//@endfn

//@fn renetcode/src/token.rs PrivateConnectToken::read
//@ret r
//@spec
        // no precondition: the bytes are whatever the AEAD released (C07: returns for every input)
        ensures
            r matches Ok(t) ==> private_ok(t),                                                                            // @C16 private_read.decoded_token_is_one_the_format_carries
            forall|t: PrivateConnectToken, tail: Seq<u8>| #[trigger] is_private_wire((*old(src)).rest(), t, tail) ==>
                (r matches Ok(t2) && t2 == t && (*final(src)).rest() == tail),                                            // @C16 private_read.inverse_of_write
//@entry
        let ghost s0 = (*src).rest();
        proof {
            assert forall|t: PrivateConnectToken, tail: Seq<u8>| #[trigger] is_private_wire(s0, t, tail) implies ({
                let r1 = s0.skip(8); let r2 = r1.skip(4);
                &&& s0.len() >= 12 + 4 + 320
                &&& s0.subrange(0, 8) == t.client_id.le_spec()
                &&& r1.subrange(0, 4) == t.timeout_seconds.le_spec()
                &&& is_addresses_wire(r2, t.server_addresses@, t.client_to_server_key@ + (t.server_to_client_key@ + (t.user_data@ + tail)))
            }) by {
                token_lemmas::lemma_private_layout(t, tail);
            }
        }
//@before /^        Ok\(Self \{$/
        proof {
            assert(dense(server_addresses@) && all_wire(server_addresses@));
            assert forall|t: PrivateConnectToken, tail: Seq<u8>| #[trigger] is_private_wire(s0, t, tail) implies
                (PrivateConnectToken { client_id, timeout_seconds, server_addresses, client_to_server_key, server_to_client_key, user_data }) == t
                    && (*src).rest() == tail by {
                seq_assoc::lemma_peel(t.client_to_server_key@, t.server_to_client_key@ + (t.user_data@ + tail));
                seq_assoc::lemma_peel(t.server_to_client_key@, t.user_data@ + tail);
                seq_assoc::lemma_peel(t.user_data@, tail);
                le_lemmas::lemma_le_u64_inj(client_id, t.client_id);
                le_lemmas::lemma_le_i32_inj(timeout_seconds, t.timeout_seconds);
                assert(server_addresses =~= t.server_addresses);
                assert(client_to_server_key =~= t.client_to_server_key);
                assert(server_to_client_key =~= t.server_to_client_key);
                assert(user_data =~= t.user_data);
            }
        }
//@endfn
}

/// the associated data that ties a sealed private token to version, protocol id and expiry
pub open spec fn token_aad(protocol_id: u64, expire_timestamp: u64) -> Seq<u8> {
    NETCODE_VERSION_INFO@ + protocol_id.le_spec() + expire_timestamp.le_spec()
}
//@fn renetcode/src/token.rs ::get_additional_data
//@ret r
//@spec
        ensures r@ == token_aad(protocol_id, expire_timestamp),          // @C05,C17 token_aad.version_then_protocol_id_then_expiry
//@endfn

// ---------------------------------------------------------------------------------------------------------------------------------
// sealing of the private part (XChaCha20-Poly1305 in place: the last 16 bytes of the buffer receive the tag).  ASSUMED (cryptography, idealised):
// `xseal` is what the AEAD produces for a plaintext under (nonce, key, associated data); opening succeeds exactly on such a value, for the same
// nonce, key and associated data, and gives back that plaintext.
pub uninterp spec fn xseal(plain: Seq<u8>, xnonce: [u8; 24], key: [u8; 32], aad: Seq<u8>) -> Seq<u8>;
pub mod aead_axioms {
    use vstd::prelude::*;
    use super::*;
    verus! {
    /// idealised AEAD: a sealed value determines its plaintext (for given nonce, key, associated data), and keeps the length plus the tag
    #[verifier::external_body]
    pub proof fn axiom_xseal_injective(p: Seq<u8>, q: Seq<u8>, xnonce: [u8; 24], key: [u8; 32], aad: Seq<u8>)
        requires xseal(p, xnonce, key, aad) == xseal(q, xnonce, key, aad),
        ensures p == q,
    {}
    }
}
//@stub renetcode/src/crypto.rs ::encrypt_in_place_xnonce
//@ret r
//@spec
        requires old(buffer)@.len() >= 16,
        ensures
            final(buffer)@.len() == old(buffer)@.len(),
            r is Ok ==> final(buffer)@ == xseal(old(buffer)@.take(old(buffer)@.len() - 16), *xnonce, *key, aad@),
//@endfn
//@stub renetcode/src/crypto.rs ::dencrypted_in_place_xnonce
//@ret r
//@spec
        requires old(buffer)@.len() >= 16,
        ensures
            final(buffer)@.len() == old(buffer)@.len(),
            r is Ok <==> exists|p: Seq<u8>| old(buffer)@ == #[trigger] xseal(p, *xnonce, *private_key, aad@),
            r is Ok ==> old(buffer)@ == xseal(final(buffer)@.take(old(buffer)@.len() - 16), *xnonce, *private_key, aad@),
//@endfn
// ASSUMED: OS randomness (any bytes)
//@stub renetcode/src/crypto.rs ::generate_random_bytes
//@ret r
//@endfn

/// the sealed private token `data` is authentic for (protocol id, expiry) under `key`: it is what the AEAD produces, under that key and nonce, with
/// version || protocol id || expiry as associated data, for some plaintext (uninterpreted for the callers in unit U19)
pub open spec fn token_authentic(data: [u8; 1024], protocol_id: u64, expire_timestamp: u64, xnonce: [u8; 24], key: [u8; 32]) -> bool {
    exists|p: Seq<u8>| data@ == #[trigger] xseal(p, xnonce, key, token_aad(protocol_id, expire_timestamp))
}
/// the sealed form of a private token: its serialization, zero padding up to 1008 bytes, sealed with the tag in the last 16
pub open spec fn private_plain(t: PrivateConnectToken, pad: Seq<u8>) -> Seq<u8> { private_wire_then(t, pad) }

/// rule D19 -- ASSUMED glue (`self.write(&mut Cursor::new(&mut buffer[..]))`: a `Cursor` over the whole buffer, positioned at its start): what `write` writes
/// (contract proved above: `private_write.writes_every_field_in_format_order`) overwrites the start of the buffer, the rest of the buffer is untouched;
/// it fails only if the buffer is too short
#[verifier::external_body]
pub fn write_private_through_cursor_unverified(t: &PrivateConnectToken, buffer: &mut [u8; 1024]) -> (r: Result<(), std::io::Error>)
    ensures
        r is Ok ==> private_wire_then(*t, Seq::empty()).len() <= 1024
            && final(buffer)@ == private_wire_then(*t, Seq::empty()) + old(buffer)@.skip(private_wire_then(*t, Seq::empty()).len() as int),
{ t.write(&mut std::io::Cursor::new(&mut buffer[..])) }

/// rule D19 -- ASSUMED glue (`Self::read(&mut io::Cursor::new(&temp_buffer[..]))`: a `Cursor` over the whole buffer, positioned at its start): `read`
/// (contract proved above: `private_read.*`) sees exactly the bytes of the buffer
#[verifier::external_body]
pub fn read_private_through_cursor_unverified(buf: &[u8; 1024]) -> (r: Result<PrivateConnectToken, std::io::Error>)
    ensures
        r matches Ok(t) ==> private_ok(t),
        forall|t: PrivateConnectToken, tail: Seq<u8>| #[trigger] is_private_wire(buf@, t, tail) ==> (r matches Ok(t2) && t2 == t),
{ PrivateConnectToken::read(&mut std::io::Cursor::new(&buf[..])) }

impl PrivateConnectToken {
//@fn renetcode/src/token.rs PrivateConnectToken::encode
//@ret r
//@spec
        ensures
            // C05/C17: the private part is sealed under the given key and nonce, with version, protocol id and expiry as associated data;
            // what is sealed is the serialization of this token followed by the untouched rest of the buffer
            r is Ok ==> exists|pad: Seq<u8>| final(buffer)@ == #[trigger] xseal(private_wire_then(*self, pad), *xnonce, *private_key, token_aad(protocol_id, expire_timestamp)),   // @C05,C16,C17 private_encode.seals_the_serialized_token_bound_to_protocol_and_expiry
//@cut /self\.write\(&mut Cursor::new\(&mut buffer\[\.\.\]\)\)\?;/ .. /self\.write\(&mut Cursor::new\(&mut buffer\[\.\.\]\)\)\?;/ => let ghost b0 = buffer@; write_private_through_cursor_unverified(self, buffer)?; let ghost b1 = buffer@;
//@before /^        Ok\(\(\)\)$/
        proof {
            let e = Seq::<u8>::empty();
            let w = private_wire_then(*self, e);
            token_lemmas::lemma_private_len(*self);
            let pad = b0.skip(w.len() as int).take(1008 - w.len());
            token_lemmas::lemma_private_then(*self, pad);
            assert(b1.take(1008) =~= w + pad);
        }
//@endfn

//@fn renetcode/src/token.rs PrivateConnectToken::decode
//@ret r
//@specfile contracts/shared/PrivateConnectToken.decode.spec
//@spec
            r matches Ok(t) ==> private_ok(t),                                                                              // @C16 private_decode.decoded_token_is_one_the_format_carries
            // C16: opening is the inverse of sealing
            forall|t: PrivateConnectToken, pad: Seq<u8>| private_ok(t) && private_wire_then(t, pad).len() == 1008
                && buffer@ == #[trigger] xseal(private_wire_then(t, pad), *xnonce, *private_key, token_aad(protocol_id, expire_timestamp))
                ==> (r matches Ok(t2) && t2 == t),                                                                         // @C16 private_decode.inverse_of_encode
//@cut /let src = &mut io::Cursor::new\(&temp_buffer\[\.\.\]\);/ .. /Ok\(Self::read\(src\)\?\)/ => Ok(read_private_through_cursor_unverified(&temp_buffer)?)
//@after /dencrypted_in_place_xnonce\(&mut temp_buffer, xnonce, private_key, &aad\)\?;/
        proof {
            let aadv = token_aad(protocol_id, expire_timestamp);
            assert forall|t: PrivateConnectToken, pad: Seq<u8>| private_ok(t) && private_wire_then(t, pad).len() == 1008
                && buffer@ == #[trigger] xseal(private_wire_then(t, pad), *xnonce, *private_key, aadv)
                implies is_private_wire(temp_buffer@, t, pad + temp_buffer@.skip(1008)) by {
                aead_axioms::axiom_xseal_injective(private_wire_then(t, pad), temp_buffer@.take(1008), *xnonce, *private_key, aadv);
                token_lemmas::lemma_private_then(t, pad);
                token_lemmas::lemma_private_then(t, pad + temp_buffer@.skip(1008));
                assert(temp_buffer@ =~= temp_buffer@.take(1008) + temp_buffer@.skip(1008));
                broadcast use seq_assoc::lemma_concat_assoc;
            }
        }
//@endfn
}

impl PrivateConnectToken {
//@fn renetcode/src/token.rs PrivateConnectToken::generate
//@ret r
//@spec
        ensures
            r is Ok <==> 1 <= server_addresses@.len() <= 32,                                                                // @C16 private_generate.accepts_1_to_32_addresses
            // C05/C16: the token carries the given client id, time-out and user data and lists exactly the given addresses, in order, in the first slots
            r matches Ok(t) ==> t.client_id == client_id && t.timeout_seconds == timeout_seconds
                && (user_data matches Some(d) ==> t.user_data == *d)
                && dense(t.server_addresses@) && count_some(t.server_addresses@) == server_addresses@.len()
                && (forall|i: int| 0 <= i < 32 ==> (#[trigger] t.server_addresses@[i]) == (if i < server_addresses@.len() { Some(server_addresses@[i]) } else { None })),   // @C05,C16 private_generate.lists_exactly_the_given_addresses_in_order
            // C16: ... and every one of them is an address the token format can carry (so the token survives write/read unchanged)
            r matches Ok(t) ==> all_wire(t.server_addresses@),                                                              // @C16 private_generate.every_address_is_one_the_format_carries
//@loop 1
            invariant
                server_addresses@.len() <= 32,
                forall|j: int| 0 <= j < 32 ==> (#[trigger] server_addresses_arr@[j]) == (if j < i { Some(server_addresses@[j]) } else { None }),
//@before /^        Ok\(Self \{$/
        proof {
            let l = server_addresses_arr@;
            let n = server_addresses@.len() as int;
            assert(dense(l));
            addr_lemmas::lemma_dense_count(l);
            assert(count_some(l) == n) by {
                if count_some(l) < n { assert(l[count_some(l) as int] is Some); }
                if count_some(l) > n { assert(l[n] is None); }
            }
        }
//@endfn
}

impl ConnectToken {
//@fn renetcode/src/token.rs ConnectToken::generate
//@ret r
//@spec
        requires
            current_time.nanos / 1_000_000_000 + expire_seconds <= u64::MAX,      // caller obligation: the expiry instant is representable
        ensures
            // C16: the library only builds tokens the format can carry (so they survive write/read unchanged)
            r matches Ok(t) ==> token_ok(t),                                                                                // @C16 token_generate.builds_a_token_the_format_carries
            // C05: public fields as given, expiry = now + expire_seconds; the private part seals (under the given key, bound to protocol id and expiry)
            // a private token with the same client id, addresses and keys and the given user data
            r matches Ok(t) ==> t.client_id == client_id && t.protocol_id == protocol_id && t.timeout_seconds == timeout_seconds
                && t.create_timestamp == current_time.nanos / 1_000_000_000 && t.expire_timestamp == t.create_timestamp + expire_seconds
                && count_some(t.server_addresses@) == server_addresses@.len()
                && (exists|p: PrivateConnectToken, pad: Seq<u8>| t.private_data@ == #[trigger] xseal(private_wire_then(p, pad), t.xnonce, *private_key, token_aad(protocol_id, t.expire_timestamp))
                    && p.client_id == client_id && p.timeout_seconds == timeout_seconds && p.server_addresses == t.server_addresses
                    && p.client_to_server_key == t.client_to_server_key && p.server_to_client_key == t.server_to_client_key
                    && (user_data matches Some(d) ==> p.user_data == *d)),                                                  // @C05,C17 token_generate.private_part_seals_the_same_identity_keys_and_addresses
//@before /^        Ok\(Self \{$/
        proof {
            let pad = choose|pad: Seq<u8>| private_data@ == #[trigger] xseal(private_wire_then(private_connect_token, pad), xnonce, *private_key, token_aad(protocol_id, expire_timestamp));
            assert(private_data@ == xseal(private_wire_then(private_connect_token, pad), xnonce, *private_key, token_aad(protocol_id, expire_timestamp)));
            // the same fact phrased over the fields of the value about to be returned (gives the quantifier of the postcondition its instance)
            let p0 = private_connect_token;
            let t = ConnectToken { client_id, version_info: *NETCODE_VERSION_INFO, protocol_id, private_data, create_timestamp: (current_time.nanos / 1_000_000_000) as u64,
                expire_timestamp, xnonce, server_addresses: p0.server_addresses, client_to_server_key: p0.client_to_server_key,
                server_to_client_key: p0.server_to_client_key, timeout_seconds };
            assert(t.private_data@ == xseal(private_wire_then(p0, pad), t.xnonce, *private_key, token_aad(protocol_id, t.expire_timestamp)));
        }
//@endfn
}

// ---------------------------------------------------------------------------------------------------------------------------------
// C16 as lemmas over the contracts above (no code involved: they state how the contracts compose)
pub mod c16_lemmas {
use vstd::prelude::*;
use super::*;
verus! {
/// write then read: the bytes `ConnectToken::write` produces for a token the library builds (`token_write.writes_every_field_in_format_order`),
/// followed by anything, are an input on which `ConnectToken::read` returns that token and leaves exactly the rest (`token_read.inverse_of_write`)
pub proof fn lemma_token_roundtrip(t: ConnectToken, tail: Seq<u8>)
    requires token_ok(t),
    ensures is_token_wire(token_wire_then(t, Seq::empty()) + tail, t, tail),        // @C16 lemma.token_write_then_read_is_identity
{
    token_lemmas::lemma_token_then(t, tail);
}
pub proof fn lemma_private_roundtrip(t: PrivateConnectToken, tail: Seq<u8>)
    requires private_ok(t),
    ensures is_private_wire(private_wire_then(t, Seq::empty()) + tail, t, tail),    // @C16 lemma.private_write_then_read_is_identity
{
    token_lemmas::lemma_private_then(t, tail);
}
/// read, write, read: what `read` accepts satisfies `token_ok` (`token_read.decoded_token_is_one_the_format_carries`), so by the lemma above
/// its re-serialization reads back as the same value
pub proof fn lemma_token_reencode(t: ConnectToken)
    requires token_ok(t),
    ensures is_token_wire(token_wire_then(t, Seq::empty()), t, Seq::empty()),        // @C16 lemma.decoded_token_reencodes_to_bytes_that_decode_to_it
{
    lemma_token_roundtrip(t, Seq::empty());
    assert(token_wire_then(t, Seq::empty()) + Seq::<u8>::empty() =~= token_wire_then(t, Seq::empty()));
}
}
}

} // verus!
fn main() {}
