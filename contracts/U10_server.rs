//@unit U10 props=C06,C11,C12 RenetServer connection table and event queue (renet/src/server.rs)
#![feature(allocator_api)]
#![allow(unused_imports, dead_code, unused_variables, unused_mut)]
use vstd::prelude::*;
use std::collections::{BTreeMap, HashMap, VecDeque};
use std::ops::Range;
verus! {

global size_of usize == 8;

//@include shims/bytes.rs
//@include shims/std_maps.rs

// placeholders for field types this unit never looks into (rule D7)
pub struct PacketSent;
pub struct ChannelOrder;
pub struct SendChannelUnreliable;
pub struct ReceiveChannelUnreliable;
pub struct SendChannelReliable;
pub struct ReceiveChannelReliable;
pub struct ConnectionStats;
#[derive(Clone, Copy)]
pub struct Duration;
#[derive(Clone)]
pub struct ConnectionConfig;
pub type ClientId = u64;
pub type Payload = Vec<u8>;

#[derive(Clone, Copy, Debug, PartialEq, Eq)]
//@extract enum renet/src/packet.rs SerializationError
#[derive(Clone, Copy, Debug, PartialEq, Eq)]
//@extract enum renet/src/error.rs ChannelError
#[derive(Clone, Copy, Debug, PartialEq, Eq)]
//@extract enum renet/src/error.rs DisconnectReason
#[derive(Debug)]
//@extract struct renet/src/error.rs ClientNotFound
//@extract enum renet/src/remote_connection.rs RenetConnectionStatus
//@extract struct renet/src/remote_connection.rs RenetClient
//@extract enum renet/src/server.rs ServerEvent
//@extract struct renet/src/server.rs RenetServer

//@include contracts/shared/client_status_specs.rs
//@include contracts/shared/server_specs.rs

impl RenetClient {
    // assumed: RenetClient::new_from_server builds a client in state Connecting (struct literal at the end of from_channels; not under contract)
    #[verifier::external_body]
    pub fn new_from_server(config: ConnectionConfig) -> (r: RenetClient)
        ensures r.connection_status is Connecting,
    { unimplemented!() }

//@stub renet/src/remote_connection.rs RenetClient::set_connected
//@specfile contracts/shared/RenetClient.set_connected.spec
//@endfn

//@stub renet/src/remote_connection.rs RenetClient::disconnect_with_reason
//@specfile contracts/shared/RenetClient.disconnect_with_reason.spec
//@endfn

//@stub renet/src/remote_connection.rs RenetClient::disconnect
//@specfile contracts/shared/RenetClient.disconnect.spec
//@endfn

//@stub renet/src/remote_connection.rs RenetClient::is_connected
//@ret r
//@specfile contracts/shared/RenetClient.is_connected.spec
//@endfn

//@stub renet/src/remote_connection.rs RenetClient::is_disconnected
//@ret r
//@specfile contracts/shared/RenetClient.is_disconnected.spec
//@endfn

//@stub renet/src/remote_connection.rs RenetClient::disconnect_reason
//@ret r
//@specfile contracts/shared/RenetClient.disconnect_reason.spec
//@endfn

//@stub renet/src/remote_connection.rs RenetClient::send_message
//@spec
        ensures *final(self) == client_after_send(*old(self), channel_id, message),
//@endfn

//@stub renet/src/remote_connection.rs RenetClient::receive_message
//@ret r
//@spec
        ensures *final(self) == client_after_receive(*old(self), channel_id).0, r == client_after_receive(*old(self), channel_id).1,
//@endfn

//@stub renet/src/remote_connection.rs RenetClient::process_packet
//@spec
        ensures *final(self) == client_after_packet(*old(self), packet@),
//@endfn

//@stub renet/src/remote_connection.rs RenetClient::get_packets_to_send
//@ret r
//@spec
        ensures *final(self) == client_after_get_packets(*old(self)).0, r == client_after_get_packets(*old(self)).1,
//@endfn
}

impl RenetServer {
//@fn renet/src/server.rs RenetServer::new
//@ret r
//@spec
        ensures
            r.connections@ == Map::<u64, RenetClient>::empty() && r.events@.len() == 0,       // @C12 new.no_connections_no_events
//@endfn

//@fn renet/src/server.rs RenetServer::is_connected
//@ret r
//@spec
        ensures
            r == (self.connections@.contains_key(client_id) && self.connections@[client_id].connection_status is Connected),   // @C11,C12 is_connected.exact
//@endfn

//@fn renet/src/server.rs RenetServer::disconnect_reason
//@ret r
//@spec
        ensures
            r == (if self.connections@.contains_key(client_id) {
                match self.connections@[client_id].connection_status {
                    RenetConnectionStatus::Disconnected { reason } => Some(reason),
                    _ => None::<DisconnectReason>,
                }
            } else { None::<DisconnectReason> }),                                                   // @C12 disconnect_reason.first_reason_of_that_client
//@endfn

//@fn renet/src/server.rs RenetServer::new_local_client
//@ret r
//@spec
        ensures
            r.connection_status is Connected,                                                       // @C12 new_local_client.client_side_connected
            old(self).connections@.contains_key(client_id) ==> final(self).connections@ == old(self).connections@
                && final(self).events@ == old(self).events@,                                        // @C12 new_local_client.existing_id_changes_nothing
            !old(self).connections@.contains_key(client_id) ==> final(self).connections@.dom() == old(self).connections@.dom().insert(client_id)
                && final(self).events@ == old(self).events@.push(ServerEvent::ClientConnected { client_id }),   // @C12 new_local_client.connected_event_once
//@endfn

//@fn renet/src/server.rs RenetServer::add_connection
//@specfile contracts/shared/RenetServer.add_connection.spec
//@endfn

//@fn renet/src/server.rs RenetServer::get_event
//@ret r
//@specfile contracts/shared/RenetServer.get_event.spec
//@endfn

//@fn renet/src/server.rs RenetServer::remove_connection
//@specfile contracts/shared/RenetServer.remove_connection.spec
//@endfn

//@fn renet/src/server.rs RenetServer::disconnect
//@specfile contracts/shared/RenetServer.disconnect.spec
//@entry
        proof {
            broadcast use server_lemmas::lemma_same_but_one;
            assert(vstd::std_specs::hash::borrowed_key_removed(self.connections@, self.connections@.remove(client_id), &client_id));
        }
//@endfn

//@fn renet/src/server.rs RenetServer::send_message
//@specfile contracts/shared/RenetServer.send_message.spec
//@entry
        proof {
            broadcast use server_lemmas::lemma_same_but_one;
            assert(vstd::std_specs::hash::borrowed_key_removed(self.connections@, self.connections@.remove(client_id), &client_id));
        }
//@endfn

//@fn renet/src/server.rs RenetServer::receive_message
//@ret r
//@specfile contracts/shared/RenetServer.receive_message.spec
//@entry
        proof {
            broadcast use server_lemmas::lemma_same_but_one;
            assert(vstd::std_specs::hash::borrowed_key_removed(self.connections@, self.connections@.remove(client_id), &client_id));
        }
//@endfn

//@fn renet/src/server.rs RenetServer::process_packet_from
//@ret r
//@specfile contracts/shared/RenetServer.process_packet_from.spec
//@entry
        proof {
            broadcast use server_lemmas::lemma_same_but_one;
            assert(vstd::std_specs::hash::borrowed_key_removed(self.connections@, self.connections@.remove(client_id), &client_id));
        }
//@endfn

//@fn renet/src/server.rs RenetServer::get_packets_to_send
//@ret r
//@specfile contracts/shared/RenetServer.get_packets_to_send.spec
//@entry
        proof {
            broadcast use server_lemmas::lemma_same_but_one;
            assert(vstd::std_specs::hash::borrowed_key_removed(self.connections@, self.connections@.remove(client_id), &client_id));
        }
//@endfn

//@fn renet/src/server.rs RenetServer::disconnect_local_client
//@specfile contracts/shared/RenetServer.disconnect_local_client.spec
//@endfn
}

/// rule D6: an outlined loop body must not leave the loop early (`break` / `return` of the enclosing function)
pub proof fn d6_loop_left_early()
    requires false,      // @C11,C12,C13,C14,C15 d6.loop_visits_every_entry
{}

// ---- loop bodies over the connection table (rule D6: proved for an arbitrary entry; std's iteration protocol -- every entry
//      visited exactly once by values_mut()/iter_mut() -- is assumed) ----

//@outline renet/src/server.rs RenetServer::broadcast_message loop=1 name=broadcast_message_loop_body
//@params connection: &mut RenetClient
//@capture val channel_id: u8
//@capture val message: Bytes
//@spec
    ensures
        exists|b: Bytes| b@ == message@ && *final(connection) == client_after_send(*old(connection), channel_id, b),   // @C11 broadcast.each_client_gets_the_message_once
//@endfn

//@outline renet/src/server.rs RenetServer::broadcast_message_except loop=1 name=broadcast_message_except_loop_body
//@params connection_id: &u64, connection: &mut RenetClient
//@capture val except_id: u64
//@capture val channel_id: u8
//@capture val message: Bytes
//@spec
    ensures
        *connection_id == except_id ==> *final(connection) == *old(connection),                                        // @C11 broadcast_except.excluded_client_untouched
        *connection_id != except_id ==>
            exists|b: Bytes| b@ == message@ && *final(connection) == client_after_send(*old(connection), channel_id, b),   // @C11 broadcast_except.every_other_client_gets_the_message_once
//@endfn

//@outline renet/src/server.rs RenetServer::disconnect_all loop=1 name=disconnect_all_loop_body
//@params connection: &mut RenetClient
//@spec
    ensures
        old(connection).disconnected() ==> *final(connection) == *old(connection),                                     // @C12 disconnect_all.first_reason_kept
        !old(connection).disconnected() ==> final(connection).connection_status == (RenetConnectionStatus::Disconnected { reason: DisconnectReason::DisconnectedByServer }),   // @C12 disconnect_all.reason_by_server
        RenetClient::only_status_changed(*old(connection), *final(connection)),                                        // @C11 disconnect_all.only_status
//@endfn

// ---- the whole broadcast / disconnect_all functions around their loops (rule D18: the loop becomes a summary whose contract is the per-entry
//      contract proved above for an arbitrary entry; ASSUMED: the induction over HashMap::iter_mut / values_mut -- every entry once, none added or removed) ----

#[verifier::external_body]
pub fn broadcast_summary(connections: &mut HashMap<u64, RenetClient>, channel_id: u8, message: Bytes)
    ensures
        final(connections)@.dom() == old(connections)@.dom(),
        forall|id: u64| #[trigger] old(connections)@.contains_key(id) ==>
            exists|b: Bytes| b@ == message@ && final(connections)@[id] == client_after_send(old(connections)@[id], channel_id, b),
{ unimplemented!() }

#[verifier::external_body]
pub fn broadcast_except_summary(connections: &mut HashMap<u64, RenetClient>, except_id: u64, channel_id: u8, message: Bytes)
    ensures
        final(connections)@.dom() == old(connections)@.dom(),
        forall|id: u64| #[trigger] old(connections)@.contains_key(id) ==> (if id == except_id { final(connections)@[id] == old(connections)@[id] } else {
            exists|b: Bytes| b@ == message@ && final(connections)@[id] == client_after_send(old(connections)@[id], channel_id, b) }),
{ unimplemented!() }

#[verifier::external_body]
pub fn disconnect_all_summary(connections: &mut HashMap<u64, RenetClient>)
    ensures
        final(connections)@.dom() == old(connections)@.dom(),
        forall|id: u64| #[trigger] old(connections)@.contains_key(id) ==> final(connections)@[id].disconnected()
            && RenetClient::only_status_changed(old(connections)@[id], final(connections)@[id])
            && (old(connections)@[id].disconnected() ==> final(connections)@[id] == old(connections)@[id]),
{ unimplemented!() }

impl RenetServer {
//@fn renet/src/server.rs RenetServer::broadcast_message
//@summarize 1 => broadcast_summary(&mut self.connections, channel_id, message);
//@spec
        ensures
            final(self).events@ == old(self).events@,                                                                 // @C12 broadcast.no_event
            final(self).connections@.dom() == old(self).connections@.dom(),                                           // @C11 broadcast.no_client_appears_or_vanishes
            // C11: every client of the table gets the message exactly once, on the named channel, with the given bytes
            forall|id: u64| #[trigger] old(self).connections@.contains_key(id) ==>
                exists|c: u8, m: Bytes, b: Bytes| call_ensures(<I as Into<u8>>::into, (channel_id,), c) && call_ensures(<B as Into<Bytes>>::into, (message,), m)
                    && b@ == m@ && final(self).connections@[id] == client_after_send(old(self).connections@[id], c, b),   // @C11 broadcast.whole_table_gets_the_message_once
//@endfn

//@fn renet/src/server.rs RenetServer::broadcast_message_except
//@summarize 1 => broadcast_except_summary(&mut self.connections, except_id, channel_id, message);
//@spec
        ensures
            final(self).events@ == old(self).events@,                                                                 // @C12 broadcast_except.no_event
            final(self).connections@.dom() == old(self).connections@.dom(),                                           // @C11 broadcast_except.no_client_appears_or_vanishes
            old(self).connections@.contains_key(except_id) ==> final(self).connections@[except_id] == old(self).connections@[except_id],   // @C11 broadcast_except.excluded_client_gets_nothing
            // C11: every other client of the table gets the message exactly once -- however many clients there are
            forall|id: u64| #[trigger] old(self).connections@.contains_key(id) && id != except_id ==>
                exists|c: u8, m: Bytes, b: Bytes| call_ensures(<I as Into<u8>>::into, (channel_id,), c) && call_ensures(<B as Into<Bytes>>::into, (message,), m)
                    && b@ == m@ && final(self).connections@[id] == client_after_send(old(self).connections@[id], c, b),   // @C11 broadcast_except.whole_table_but_one_gets_the_message_once
//@endfn

//@fn renet/src/server.rs RenetServer::disconnect_all
//@summarize 1 => disconnect_all_summary(&mut self.connections);
//@spec
        ensures
            final(self).connections@.dom() == old(self).connections@.dom(),                                           // @C12 disconnect_all.no_client_appears_or_vanishes
            forall|id: u64| #[trigger] old(self).connections@.contains_key(id) ==> final(self).connections@[id].disconnected()
                && RenetClient::only_status_changed(old(self).connections@[id], final(self).connections@[id])
                && (old(self).connections@[id].disconnected() ==> final(self).connections@[id] == old(self).connections@[id]),   // @C11,C12 disconnect_all.every_client_disconnected_first_reason_kept
//@endfn
}

} // verus!
fn main() {}
