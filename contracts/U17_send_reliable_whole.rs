//@unit U17 props=C01,C02,C03,C08,C09,C11,C13,C14,C15,C16 rlimit=100 SendChannelReliable::get_packets_to_send as a whole: prologue, loop summary (rule D18), final flush (renet/src/channel/reliable.rs)
#![feature(allocator_api)]
#![allow(unused_imports, dead_code, unused_variables, unused_mut)]
use vstd::prelude::*;
use std::collections::{btree_map, BTreeMap, BTreeSet, HashMap, VecDeque};
use std::ops::Range;
verus! {

global size_of usize == 8;

//@include shims/bytes.rs
//@include shims/duration.rs
//@include shims/mem_take.rs
//@include shims/std_maps.rs
//@include shims/div_ceil.rs
//@include shims/octets.rs
//@include shims/vec_index_mut_range.rs

broadcast use {octets::axiom_varint_enc_len, count_lemmas::lemma_count_true_all_false, axiom_vec_index_mut_usize};

//@extract const renet/src/packet.rs SLICE_SIZE
#[derive(Clone, Copy, Debug, PartialEq, Eq)]
//@extract enum renet/src/packet.rs SerializationError
#[derive(Clone, Copy, Debug, PartialEq, Eq)]
//@extract enum renet/src/error.rs ChannelError
//@extract struct renet/src/packet.rs Slice
//@extract enum renet/src/packet.rs Packet
//@extract enum renet/src/channel/reliable.rs UnackedMessage
//@extract struct renet/src/channel/reliable.rs SendChannelReliable
//@extract struct renet/src/channel/unreliable.rs SendChannelUnreliable

//@include contracts/shared/sum_specs.rs
//@include contracts/shared/count_specs.rs
//@include contracts/shared/slice_specs.rs
//@include contracts/shared/packet_bytes_specs.rs
//@include contracts/shared/packet_specs.rs
//@include contracts/shared/unacked_specs.rs
//@include contracts/shared/send_reliable_specs.rs
//@include contracts/shared/send_unreliable_specs.rs
//@include contracts/shared/send_loop_specs.rs
//@include contracts/shared/wire_specs.rs
//@include contracts/shared/wire_format_specs.rs
//@include contracts/shared/ack_specs.rs
//@include contracts/shared/client_send_specs.rs
//@include contracts/shared/reliable_send_summary_specs.rs

pub proof fn d6_loop_left_early()
    requires false,
{}

// the loop body, known here by the contract U9 proves on it
//@outline renet/src/channel/reliable.rs SendChannelReliable::get_packets_to_send loop=1 name=reliable_send_loop_body
//@params message_id: u64, unacked_message: &mut UnackedMessage
//@capture val resend_time: Duration = self.resend_time
//@capture val channel_id: u8 = self.channel_id
//@capture ref packet_sequence: &mut u64
//@capture ref available_bytes: &mut u64
//@capture val current_time: Duration
//@capture mut packets: Vec<Packet>
//@capture mut small_messages: Vec<(u64, Bytes)>
//@capture mut small_messages_bytes: usize
//@attr #[verifier::external_body]
//@specfile contracts/shared/reliable_send_loop_body.spec
//@endfn

pub open spec fn rl(packets: Seq<Packet>, small: Seq<(u64, Bytes)>, small_bytes: usize, seq: u64, avail: u64) -> RLoop {
    RLoop { packets, small, small_bytes: small_bytes as int, seq: seq as int, avail: avail as int }
}

/// STEP (checked): from the invariant after `steps` iterations, one more call of the loop body -- on any queued message that satisfies the
/// element invariant -- re-establishes the invariant for `steps + 1` and keeps the element invariant.  Only the body's contract (U9) is used.
pub fn reliable_send_loop_step(message_id: u64, unacked_message: &mut UnackedMessage, resend_time: Duration, channel_id: u8, packet_sequence: &mut u64,
    available_bytes: &mut u64, current_time: Duration, packets: &mut Vec<Packet>, small_messages: &mut Vec<(u64, Bytes)>, small_messages_bytes: &mut usize,
    Ghost(seq0): Ghost<int>, Ghost(avail0): Ghost<int>, Ghost(steps): Ghost<int>, Ghost(m0): Ghost<Map<u64, UnackedMessage>>)
    requires
        old(unacked_message).wf(), old(unacked_message).sent_not_after(current_time), message_id < 0x4000_0000_0000_0000,
        rloop_inv(rl(old(packets)@, old(small_messages)@, *old(small_messages_bytes), *old(packet_sequence), *old(available_bytes)), seq0, avail0, steps),
        0 <= seq0, 0 <= avail0, seq0 + avail0 + steps + 2 <= 0x4000_0000_0000_0000,
        all_from_channel(old(packets)@, channel_id),
        // the element visited is an entry of the queue as it was at loop entry, of unchanged kind (iteration protocol + the element invariant below)
        m0.contains_key(message_id), same_kind(*old(unacked_message), m0[message_id]),
        all_carried_ok(old(packets)@, m0), batch_ids_small(old(small_messages)@, m0),
    ensures
        all_from_channel(final(packets)@, channel_id),                                 // @C03,C11 loop_step.packets_labelled_with_this_channel
        same_kind(*final(unacked_message), m0[message_id]),                            // @C01,C02,C08 loop_step.kind_kept
        all_carried_ok(final(packets)@, m0) && batch_ids_small(final(small_messages)@, m0),   // @C01,C02,C08 loop_step.everything_carried_names_a_queued_message_of_its_kind
        final(unacked_message).wf(),                                                   // @C01,C02,C13 loop_step.element_invariant_kept
        final(unacked_message).msg() == old(unacked_message).msg(),                    // @C01,C02,C03 loop_step.bytes_untouched
        final(unacked_message).sent_not_after(current_time),                           // @C15 loop_step.timestamps_not_in_future
        rloop_inv(rl(final(packets)@, final(small_messages)@, *final(small_messages_bytes), *final(packet_sequence), *final(available_bytes)), seq0, avail0, steps + 1),   // @C13,C14 loop_step.invariant_carried_to_the_next_iteration
{
    let ghost pre = rl(packets@, small_messages@, *small_messages_bytes, *packet_sequence, *available_bytes);
    let ghost um = *unacked_message;
    reliable_send_loop_body(message_id, unacked_message, resend_time, channel_id, packet_sequence, available_bytes, current_time, packets, small_messages, small_messages_bytes);
    proof {
        let post = rl(packets@, small_messages@, *small_messages_bytes, *packet_sequence, *available_bytes);
        lemma_rloop_step(pre, post, seq0, avail0, steps, channel_id, message_id, um, current_time, resend_time);
        lemma_rloop_step_channel(pre.packets, post.packets, pre.seq, channel_id, message_id, um, current_time, resend_time, pre.small);
        lemma_rloop_step_carried(pre.packets, post.packets, pre.small, post.small, pre.seq, channel_id, message_id, um, current_time, resend_time, m0);
    }
}

/// rule D18 -- ASSUMED: the 'messages loop as a whole.  Its contract is exactly "the invariant holds at entry (0 iterations) => it holds after one
/// iteration per queued message, every element keeping its invariant": the step is checked above (`reliable_send_loop_step`), the induction over
/// `BTreeMap::iter_mut` (every entry visited once, none added or removed) is what is assumed -- the same assumption as rule D6.
#[verifier::external_body]
pub fn reliable_send_loop_summary(unacked_messages: &mut BTreeMap<u64, UnackedMessage>, resend_time: Duration, channel_id: u8, packet_sequence: &mut u64,
    available_bytes: &mut u64, current_time: Duration, packets: &mut Vec<Packet>, small_messages: &mut Vec<(u64, Bytes)>, small_messages_bytes: &mut usize)
    requires
        forall|id: u64| #[trigger] old(unacked_messages)@.contains_key(id) ==> old(unacked_messages)@[id].wf()
            && old(unacked_messages)@[id].sent_not_after(current_time) && id < 0x4000_0000_0000_0000,
        rloop_inv(rl(old(packets)@, old(small_messages)@, *old(small_messages_bytes), *old(packet_sequence), *old(available_bytes)),
            *old(packet_sequence) as int - old(packets)@.len(), *old(available_bytes) as int, 0),
        *old(packet_sequence) + *old(available_bytes) + old(unacked_messages)@.len() + 2 <= 0x4000_0000_0000_0000,
        all_from_channel(old(packets)@, channel_id),
        all_carried_ok(old(packets)@, old(unacked_messages)@), batch_ids_small(old(small_messages)@, old(unacked_messages)@),
    ensures
        all_from_channel(final(packets)@, channel_id),
        all_carried_ok(final(packets)@, old(unacked_messages)@), batch_ids_small(final(small_messages)@, old(unacked_messages)@),
        forall|id: u64| #[trigger] old(unacked_messages)@.contains_key(id) ==> same_kind(final(unacked_messages)@[id], old(unacked_messages)@[id]),
        final(unacked_messages)@.dom() == old(unacked_messages)@.dom(),
        forall|id: u64| #[trigger] old(unacked_messages)@.contains_key(id) ==> final(unacked_messages)@[id].wf()
            && final(unacked_messages)@[id].msg() == old(unacked_messages)@[id].msg() && final(unacked_messages)@[id].sent_not_after(current_time),
        rloop_inv(rl(final(packets)@, final(small_messages)@, *final(small_messages_bytes), *final(packet_sequence), *final(available_bytes)),
            *old(packet_sequence) as int - old(packets)@.len(), *old(available_bytes) as int, old(unacked_messages)@.len() as int),
{ unimplemented!() }

impl SendChannelReliable {
//@fn renet/src/channel/reliable.rs SendChannelReliable::get_packets_to_send
//@ret r
//@summarize 1 => reliable_send_loop_summary(&mut self.unacked_messages, self.resend_time, self.channel_id, packet_sequence, available_bytes, current_time, &mut packets, &mut small_messages, &mut small_messages_bytes);
//@specfile contracts/shared/SendChannelReliable.get_packets_to_send.spec
//@entry
        let ghost m0 = self.unacked_messages@;
        let ghost seq0 = *packet_sequence as int;
        let ghost avail0 = *available_bytes as int;
        proof { lemma_all_sendable_empty(seq0); }
//@after /let mut small_messages_bytes = 0;/
        proof {
            lemma_rsmall_ok_empty();
            assert(rloop_inv(rl(packets@, small_messages@, small_messages_bytes, *packet_sequence, *available_bytes), seq0, avail0, 0));
            assert(all_carried_ok(packets@, m0) && batch_ids_small(small_messages@, m0));
        }
//@before /if !small_messages\.is_empty\(\) \{/
        let ghost pk1 = packets@;
        proof {
            lemma_accounted_same_msgs(m0, self.unacked_messages@);
            lemma_carried_same_kinds(packets@, small_messages@, m0, self.unacked_messages@);
        }
//@before /packets\.push\(Packet::SmallReliable \{/ 2
            let ghost flushed = small_messages;
            let ghost fbytes = small_messages_bytes as int;
//@after /\*packet_sequence \+= 1;/ last
            proof {
                let pkf = packets@.last();
                assert(packets@.drop_last() =~= pk1);
                assert(pkf == Packet::SmallReliable { sequence: (seq0 + pk1.len()) as u64, channel_id: self.channel_id, messages: flushed });
                lemma_rflush_sendable(flushed, fbytes, (seq0 + pk1.len()) as u64, self.channel_id);
                lemma_all_sendable_push(pk1, pkf, seq0);
                lemma_packets_payload_push(pk1, pkf);
                assert(pk1.push(pkf) =~= packets@);
                assert(all_from_channel(packets@, self.channel_id));
                assert(carried_ok(pkf, self.unacked_messages@));
                assert(all_carried_ok(packets@, self.unacked_messages@));
            }
//@endfn
}

} // verus!
fn main() {}
