//@unit U1 props=C08,C13,C16,C06 pending-ack range list of RenetClient (renet/src/remote_connection.rs)
#![feature(allocator_api)]
#![allow(unused_imports, dead_code, unused_variables, unused_mut)]
use vstd::prelude::*;
use std::collections::{BTreeMap, HashMap};
use std::ops::Range;
verus! {

global size_of usize == 8;

// placeholders for field types this unit never looks into (rule D7)
pub struct PacketSent;
pub struct ChannelOrder;
pub struct SendChannelUnreliable;
pub struct ReceiveChannelUnreliable;
pub struct SendChannelReliable;
pub struct ReceiveChannelReliable;
pub struct ConnectionStats;
pub struct RenetConnectionStatus;
pub struct Duration;

//@include shims/range_is_empty.rs

//@extract struct renet/src/remote_connection.rs RenetClient

//@include contracts/shared/ack_specs.rs

impl RenetClient {
//@fn renet/src/remote_connection.rs RenetClient::add_pending_ack
//@safety C06,C13
//@specfile contracts/shared/RenetClient.add_pending_ack.spec
//@loop 1
            invariant
                acks_wf(self.pending_acks@),
                self.pending_acks@ == old(self).pending_acks@,
                self.pending_acks@.len() >= 1,
                forall|k: int| 0 <= k < index ==> (#[trigger] self.pending_acks@[k]).end < sequence,
//@endfn

//@fn renet/src/remote_connection.rs RenetClient::acked_largest
//@safety C06,C13
//@specfile contracts/shared/RenetClient.acked_largest.spec
//@loop 1
            invariant
                acks_wf(self.pending_acks@),
                self.pending_acks@.len() <= old(self).pending_acks@.len(),
                forall|x: u64| acks_cover(self.pending_acks@, x) <==> acks_cover(old(self).pending_acks@, x) && (x > largest_ack || acks_cover(self.pending_acks@, x)),
                forall|x: u64| acks_cover(old(self).pending_acks@, x) && x > largest_ack ==> acks_cover(self.pending_acks@, x),
            decreases self.pending_acks@.len(),
//@endfn
}

} // verus!
fn main() {}
