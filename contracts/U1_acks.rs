//@unit U1 props=C01,C02,C08,C13,C16,C06 pending-ack range list of RenetClient (renet/src/remote_connection.rs)
#![feature(allocator_api)]
#![allow(unused_imports, dead_code, unused_variables, unused_mut)]
use vstd::prelude::*;
use std::collections::{BTreeMap, HashMap};
use std::ops::Range;
verus! {

global size_of usize == 8;

// placeholders for field types this unit never looks into (rule D7)
pub struct PacketSent;
pub struct ChannelOrder;
pub struct SendChannelUnreliable;
pub struct ReceiveChannelUnreliable;
pub struct SendChannelReliable;
pub struct ReceiveChannelReliable;
pub struct ConnectionStats;
pub struct RenetConnectionStatus;
pub struct Duration;

//@include shims/range_is_empty.rs
//@include shims/vec_index_mut_range.rs

broadcast use {axiom_vec_index_mut_usize};

//@extract struct renet/src/remote_connection.rs RenetClient

//@include contracts/shared/ack_specs.rs

impl RenetClient {
//@fn renet/src/remote_connection.rs RenetClient::add_pending_ack
//@safety C06,C13
//@attr #[verifier::loop_isolation(false)]
//@specfile contracts/shared/RenetClient.add_pending_ack.spec
//@after /self\.pending_acks\.push\(sequence\.\.sequence \+ 1\);/ 1
            proof {
                lemma_path_empty(old(self).pending_acks@, sequence);
                assert(self.pending_acks@ =~= old(self).pending_acks@.push(single(sequence)));
                reveal(ack_added);
            }
//@loop 1
            invariant
                self.pending_acks@ == old(self).pending_acks@,
                self.pending_acks@.len() >= 1,
                forall|k: int| 0 <= k < index ==> (#[trigger] self.pending_acks@[k]).end < sequence,
//@after /if range\.contains\(&sequence\) \{/
                proof {
                    lemma_path_contained(old(self).pending_acks@, sequence, index as int);
                    assert(old(self).pending_acks@.update(index as int, *range) =~= old(self).pending_acks@);
                    reveal(ack_added);
                }
//@after /range\.start = sequence;/
                proof {
                    let o = old(self).pending_acks@;
                    lemma_path_extend_left(o, sequence, index as int);
                    assert(self.pending_acks@ =~= o.update(index as int, core::ops::Range { start: sequence, end: o[index as int].end }));
                    reveal(ack_added);
                }
//@before /return;/ 4
                proof {
                    let o = old(self).pending_acks@;
                    let i = index as int;
                    if self.pending_acks@.len() == o.len() {
                        lemma_path_extend_right(o, sequence, i);
                        assert(self.pending_acks@ =~= o.update(i, core::ops::Range { start: o[i].start, end: (sequence + 1) as u64 }));
                    } else {
                        lemma_path_merge(o, sequence, i);
                        assert(self.pending_acks@ =~= o.update(i, core::ops::Range { start: o[i].start, end: o[i + 1].end }).remove(i + 1));
                    }
                    reveal(ack_added);
                }
//@before /return;/ 5
                proof {
                    let o = old(self).pending_acks@;
                    lemma_path_insert(o, sequence, index as int);
                    assert(self.pending_acks@ =~= capped(o.insert(index as int, single(sequence))));   // @C13,C08,C16 add_pending_ack.insert_path_is_capped_insertion
                    reveal(ack_added);
                }
//@end
        proof {
            let o = old(self).pending_acks@;
            lemma_path_append(o, sequence);
            assert(self.pending_acks@ =~= capped(o.push(single(sequence))));   // @C13,C08,C16 add_pending_ack.append_path_is_capped_append
            reveal(ack_added);
        }
//@endfn

//@fn renet/src/remote_connection.rs RenetClient::acked_largest
//@safety C06,C13
//@attr #[verifier::loop_isolation(false)]
//@specfile contracts/shared/RenetClient.acked_largest.spec
//@entry
        proof { lemma_trim_init(old(self).pending_acks@, largest_ack); }
//@loop 1
            invariant
                ack_prefix_dropped(old(self).pending_acks@, self.pending_acks@, largest_ack),
            decreases self.pending_acks@.len(),
//@before /let range: &mut Range<u64> = &mut self\.pending_acks\[0\];/
            let ghost s0 = self.pending_acks@;
//@afteropt /if largest_ack < range\.start \{/
                proof {
                    assert(*range == s0[0]);
                    lemma_trim_done_below(old(self).pending_acks@, s0, largest_ack);
                    assert(s0.update(0, *range) =~= s0);
                    reveal(ack_trimmed);
                }
//@before /continue;/ 1
                proof {
                    lemma_trim_drop_first(old(self).pending_acks@, s0, largest_ack);
                    assert(self.pending_acks@ =~= s0.update(0, s0[0]).remove(0));
                    assert(s0.update(0, s0[0]) =~= s0);
                }
//@before /return;/ last
            proof {
                lemma_trim_done_cut(old(self).pending_acks@, s0, largest_ack);
                if largest_ack + 1 < s0[0].end {
                    assert(self.pending_acks@ =~= s0.update(0, core::ops::Range { start: (largest_ack + 1) as u64, end: s0[0].end }));
                } else {
                    assert(self.pending_acks@ =~= s0.update(0, core::ops::Range { start: (largest_ack + 1) as u64, end: s0[0].end }).remove(0));
                    assert(s0.update(0, core::ops::Range { start: (largest_ack + 1) as u64, end: s0[0].end }).remove(0) =~= s0.remove(0));
                }
                reveal(ack_trimmed);
            }
//@end
        proof {
            lemma_trim_done_empty(old(self).pending_acks@, self.pending_acks@, largest_ack);
            reveal(ack_trimmed);
        }
//@endfn
}

} // verus!
fn main() {}
